#!/usr/bin/env python3
"""Generates /verif/MANIFEST.json from the table below (kept in one place so it always validates)."""
import json, sys

# id -> (technique, level text, level note, design ref)
CHECKS = {
 "C01": ("exhaustive enumeration (1-byte operands) + boundary grid + proptest tapes vs independent u128 P-Code semantics (differential oracle)",
         "Every supported operation on all 1-byte operand pairs is enumerated completely; 2/4/8/16-byte operands from a full boundary-grid cross product and boundary-biased random tapes. Each result (value, width, Err/unknown) of Bitvector::bin_op/un_op/cast/subpiece and BitvectorDomain is compared with a reference written from the P-Code manual. Exhaustive for 1 byte, sampled above: the right level because the property quantifies over a huge finite value space.",
         "Trusted: harness/src/refsem.rs as transcription of the P-Code reference; generator respects documented preconditions (equal widths, Bool ops on 0/1, shift amount operand <= 8 bytes).",
         "DESIGN.md §3 C01"),
 "C10": ("differential testing: generated IR programs x initial states executed by an independent IR interpreter before/after normalize_optimize (proptest tapes, shrinking); thorough tier adds a coverage-guided libFuzzer stage (cargo-fuzz) over the same tape decoder and oracle",
         "Generated multi-function programs containing the syntactic idioms the five optimizing passes match are run from 6 initial machine states each in the harness' own interpreter before and after normalize_optimize; event traces (reads, writes, calls, indirect jumps, returns, dead ends incl. all physical registers) must be equal; a failing case is attributed to the first pass after which traces differ. Exploration: random search with coverage labels and floors, no exhaustiveness.",
         "Trusted: irinterp/refsem as IR semantics (total: x/0:=0); temporaries are block-local; all registers havocked after calls; entry SP 64-byte aligned. Open known finding: CFG has no edge for CallOther returns (excluded class, counted).",
         "DESIGN.md §3 C10"),
 "C11": ("differential testing: generated P-Code blocks x initial states, independent P-Code interpreter (byte-array registers) vs independent IR interpreter on the block lifted by the real code (proptest tapes, shrinking); thorough tier adds a coverage-guided libFuzzer stage (cargo-fuzz) over the same tape decoder and oracle",
         "Random register tables with nested sub-registers and random typed P-Code blocks (all integer mnemonics, sub-registers, same-name smaller varnodes, temporaries, constants, RAM operands, LOAD/STORE, cast-to-base idioms, every jump kind) are serialized in the plugin's JSON shape, deserialized, normalized and lifted by the real code; both interpreters run from 4 states; final base registers, ordered memory writes, reads and the branch decision/jump target must agree. Exploration with coverage floors.",
         "Trusted: harness P-Code interpreter/refsem/irinterp. Generator emits only operand kinds the Ghidra plugin emits (no RAM outputs for LOAD, CBRANCH/RETURN operands not in RAM, BOOL ops on 0/1 values).",
         "DESIGN.md §3 C11"),
 "C12": ("generated P-Code programs pushed through the real lifting + normalization chain; validity predicate = independent typing walk recomputing all expression sizes (proptest tapes, shrinking); thorough tier adds a coverage-guided libFuzzer stage (cargo-fuzz) over the same tape decoder and oracle",
         "Whole generated P-Code programs (several functions/blocks, same generator as C11) are lifted and run through normalize_basic and normalize_optimize; after each stage every Def/Jmp is size-checked by the harness' own typing rules (same-size operands, Piece/Subpiece/extension consistency, assignment size = variable size, load/store address = pointer size, 1-byte conditions); a failure names the stage/pass.",
         "Trusted: the typing rules in checks/c12.rs (from the IR documentation); generated P-Code is well-typed by construction.",
         "DESIGN.md §3 C12"),
 "C07": ("model-based differential testing: random graphs x monotone transfer tables x priority permutations (all n! for <= 6 nodes) x step bounds, naive Kleene iteration as reference (proptest tapes, shrinking)",
         "Random multigraphs (1..12 nodes) with a u8 bitset lattice and monotone edge transfers (gen/kill, conditional gen, blocking edges) implemented as a counting fixpoint::Context; every priority permutation for graphs up to 6 nodes, random permutations beyond, compute() and compute_with_max_steps(k); node_values must equal the Kleene least solution, no edge evaluated more than k times, stabilized => closed and least, not stabilized => non-empty worklist and a further compute() reaches the least solution; bottom-up/top-down worklists on generated CFGs must be permutations giving the same solution.",
         "Trusted: the Kleene reference and the monotonicity of the generated transfer functions (by construction). Each run has a second history step: values raised in place through node_values_mut(), compute() again, compared with the least solution containing the modified values. Details: notes/C07.md.",
         "DESIGN.md §3 C07"),
 "C24": ("generated call graphs, all ordered (source,target) pairs; reference = reflexive Warshall transitive closure (proptest tapes, shrinking)",
         "Programs of 1..9 functions with self/ring/back/parallel calls plus extern and indirect calls; for every ordered pair find_call_sequences_to_target must return exactly the call TIDs u->v with R*(source,u) and R*(v,target); the call graph must have one node per function and the exact multiset of direct-call edges. All pairs per program are enumerated.",
         "Trusted: the closure characterisation in checks/c24.rs (from the doc comment of the function). Details: notes/C24.md.",
         "DESIGN.md §3 C24"),
 "C14": ("generated multi-function programs; reference = independent backward upward-exposed-use dataflow on the normalized IR; inclusion oracle demanded ⊆ reported (proptest tapes, shrinking); thorough tier adds a coverage-guided libFuzzer stage (cargo-fuzz) over the same tape decoder and oracle",
         "Generated projects read/write calling-convention parameter registers in every syntactic position (assignments, load/store addresses, store values, conditions, indirect jump/call/return targets, declared parameters of extern calls) behind partial overwrites, loops and calls; compute_function_signatures runs on the pipeline-normalized program; every register the oracle's dataflow finds read-before-written from the entry (paths cut at every call) must be a reported parameter. One-sided by design (the analysis may over-approximate).",
         "Second oracle: concrete runs with tagged parameter registers (flows through spill slots of the own frame). Trusted: the demand dataflow in checks/c14.rs, deliberately an under-approximation of 'can be read' (bare-variable spills and arguments of non-returning calls are not demanded, as documented by the implementation).",
         "DESIGN.md §3 C14"),
 "C08": ("generated multi-function programs; reference = declarative CFG specification (least fixed point over (block, function) pairs + set comprehensions); node/edge multiset equality (proptest tapes, shrinking)",
         "Well-formed generated programs (shared blocks, all jump kinds, internal/extern/indirect/non-returning calls, empty functions, recursion) are passed to get_program_cfg; the node multiset and the edge multiset (labelled by term ids, edge kind and untaken-conditional annotation) must equal the harness' specification exactly; get_entry_nodes_of_subs must map exactly the non-empty functions to their entry nodes.",
         "Trusted: the specification in checks/c08_spec.rs derived from the property statement and the module documentation of graph.rs; programs include the artificial sink function and calls to it. Details: notes/C08.md.",
         "DESIGN.md §3 C08"),
 "C09": ("generated raw extractor-shaped programs with injected irregularities; validity predicates over the output of normalize_basic + CFG equality with the C08 specification (proptest tapes, shrinking); thorough tier adds a coverage-guided libFuzzer stage (cargo-fuzz) over the same tape decoder and oracle",
         "Raw programs with dangling branch/call/return/hint targets, non-entry blocks shared between functions, duplicated block/def/jmp ids, calls to no_return symbols and to functions without return, empty functions and recursion are normalized by normalize_basic (must not panic); invariants: unique ids, original entry block first, all targets exist and intraprocedural ones lie in the same function, non-returning calls return to the caller's artificial sink, CFG construction succeeds and equals the specification. Floors on each irregularity kind.",
         "Trusted: invariant predicates in checks/c09.rs; generator never duplicates function ids or function entry blocks (excluded by the property). Details: notes/C09.md.",
         "DESIGN.md §3 C09"),
 "C03": ("exhaustive enumeration (all 257^2 bitvector-domain pairs, taint values, all pairs of a reduced 1-byte interval universe) + proptest tapes for wider intervals, pointer/value sets, maps and memory regions; oracle = own concretization (membership predicates)",
         "For pairs of abstract values of every kind (BitvectorDomain, IntervalDomain with widening hints/delays, DataDomain over both, Taint, DomainMap under Union/Intersect/MergeTop, MemRegion) the merge must contain every concrete member of either input (members enumerated at 1 byte, sampled above), merging a value with itself or with something already absorbed must not change the represented set (both argument orders, also after a further merge), merge_with must agree with merge. All four widening branches are labelled with floors.",
         "Trusted: the concretization functions in checks/c03.rs written from the type documentation (widening hints are not part of the value set). Details: notes/C03.md.",
         "DESIGN.md §3 C03"),
 "C05": ("model-based (stateful) testing: operation histories decoded from tapes, reference cell store compared after every step; failing histories additionally delta-debugged; thorough tier adds a coverage-guided libFuzzer stage (cargo-fuzz) over the same tape decoder and oracle",
         "Histories of up to 40 operations (writes through add/insert_at_byte_index, removals, top-writes, interval top-marking, offset shifts, clear_top_values, merges, clones, reads) over two regions and two cell types are applied to MemRegion and to a plain reference store (overlap decided by scanning all cells); after every step: no overlapping cells, no top cells, iter() equals the model, reads at all offsets -26..26 x sizes agree. Floors on histories with partial overlaps and merges after divergence.",
         "Trusted: the reference store semantics derived from the property statement and method docs. Details: notes/C05.md.",
         "DESIGN.md §3 C05"),
 "C06": ("bounded language enumeration: exhaustive over character-inclusion pairs, single-brick pairs and all brick lists of <= 3 bricks, plus proptest tapes for list pairs; oracle = own DP matcher over all strings up to length 7",
         "normalize must preserve the language (all 255 strings over {a,b} up to length 7), append must contain every concatenation, merge and widen every member of either input; CharacterInclusionDomain exhaustively over all (certain, possible) pairs incl. Top. Non-returning calls are detected by a heartbeat monitor (45 s; normal duration microseconds).",
         "Trusted: the DP matcher's reading of the brick semantics ([S]^{m,M}, u32::MAX = unbounded). Out of scope by the quantifier: two adjacent unbounded bricks. Details: notes/C06.md.",
         "DESIGN.md §3 C06"),
 "C13": ("differential/abstract-interpretation soundness testing: generated functions with loops, branches, extern/indirect calls and an executed internal callee, analysed by the real pipeline and executed from generated initial states by an independent interprocedural interpreter; oracle = concretization membership at every block arrival (proptest tapes, shrinking); thorough tier adds a coverage-guided libFuzzer stage (cargo-fuzz) over the same tape decoder and oracle",
         "Programs (register arithmetic, flags, comparisons incl. sub-register views, stack loads/stores through RSP/RBP, SP adjustments, small-constant and register-based addresses, structured counting loops, constant-joining diamonds, calls to malloc / pure / pointer-taking / stack-parameter / unknown extern functions, indirect calls, a small internal callee) go through normalize, CFG, function signatures and pointer inference. From 8 initial states each (6 separated, 2 aliasing) the harness' interpreter runs the function (extern calls: one calling-convention-obeying adversary that clobbers caller-saved registers and writes through pointer and stack parameters; internal calls are executed with one activation record per call) and checks at every block arrival, also inside the callee and after returns, that the block has an analysis state and every register's concrete value is a member of its abstract value (identifiers evaluated against the activation's entry snapshot). Two memory models (valid global segment / literal with poison tracking).",
         "Trusted: irinterp/refsem, dom.rs membership, the extern-call adversary (one legal behaviour per call). The verdict comes from the programs without calls (the property speaks of single-function programs over registers and stack memory); programs with calls are explored as well, failures there are recorded as observations (labels), not violations. Open known finding: identifier-alias assumption (aliasing initial states).",
         "DESIGN.md §3 C13, §8.3"),
 "C15": ("generated programs; reference = exact exploration of the finite product (block, tainted-variable set) by the rules of the property; equality of reported and expected source sets (proptest tapes, shrinking); thorough tier adds a coverage-guided libFuzzer stage (cargo-fuzz) over the same tape decoder and oracle",
         "Programs with allocation calls, copies/arithmetic over a taint-capable register pool (callee-saved register, temporary, flags), overwrites, loads/stores with possibly dependent addresses, checks on dependent and independent conditions, loops, extern/indirect/internal calls and returns run through the real pipeline and cwe_476::check_cwe; the set of reported source calls must equal the specification's (reported sink must be a reachable sink); on programs with a mixed conditional block only reported => expected is required and a miss is the known class C15:mixed-condition-node.",
         "Trusted: the exploration in checks/c15.rs; dependence is syntactic on the normalized program; store values come from a clean pool so the value flows through registers only (premise of the property).",
         "DESIGN.md §3 C15"),
 "C16": ("generated programs x configurations; reference = set comprehensions over call sites and symbol tables; multiset equality of structured warning fields (proptest tapes, shrinking)",
         "Random extern tables, call sites and configurations; CWE676/CWE782/CWE426/CWE332 module functions must return exactly the warnings the comprehension predicts (addresses, tids, symbols, other).",
         "Trusted: the comprehensions in checks/c16.rs (from the module docs). Details: notes/C16.md.",
         "DESIGN.md §3 C16"),
 "C17": ("generated CFG-rich functions x configurations; reference = independent reachability search on the IR (proptest tapes, shrinking)",
         "CWE367 and CWE243 module functions must report exactly the (check,use) pairs / chroot calls the property's path specification yields and must return normally on every generated program (incl. calls without return site).",
         "Trusted: the reachability search in checks/c17.rs. Details: notes/C17.md.",
         "DESIGN.md §3 C17"),
 "C18": ("generated constant-computing call blocks; reference = independent concrete block evaluator (refsem) + threshold predicate (proptest tapes, shrinking)",
         "One block per case computes the parameter(s) of umask / a size-taking function from constants through arithmetic, copies, stack stores and loads; CWE560 must warn iff v > 0o177 and v != 0o777, CWE467 iff some parameter equals the pointer size.",
         "Trusted: the byte-exact block evaluator; values passing a signed overflow or read back from a partially overwritten / partially read stack slot are compared one-sidedly (documented precision loss). Details: notes/C18.md.",
         "DESIGN.md §3 C18"),
 "C19": ("exhaustive boundary enumeration per generated segment layout (every address around every segment x sizes x all query functions) + generated ELF/PE/bare-metal inputs; reference = byte-array model; thorough tier adds a coverage-guided libFuzzer stage (cargo-fuzz) over the same tape decoder and oracle",
         "Random layouts of disjoint segments (adjacent, gap 1, far; shuffled; both endiannesses) and every address from base-2 to base+len+2: read, read_string_until_null_terminator, is_global_memory_address, is_address_writeable, interval queries, get_ro_data_pointer_at_address, new_from_bare_metal and the MemorySegment constructors must agree with a byte-array model.",
         "Trusted: the byte-array model in checks/c19.rs and its ELF/PE writers. Details: notes/C19.md.",
         "DESIGN.md §3 C19"),
 "C20": ("grammar-based generation with round-trip oracle (the generating derivation) + exhaustive grid of 8100 small format strings (proptest tapes, shrinking); thorough tier adds a coverage-guided libFuzzer stage (cargo-fuzz) over the same tape decoder and oracle",
         "Format strings derived from the supported grammar (literals deliberately containing conversion letters and digits, %% escapes, flags, widths, precisions, all conversion and length forms) x three datatype tables; parse_format_string_parameters must return one (type,size) per argument-consuming conversion in order, and Err iff a long/long long/long double form occurs.",
         "Trusted: the documented conversion-to-type table copied into checks/c20.rs. Details: notes/C20.md.",
         "DESIGN.md §3 C20"),
 "C25": ("history-based testing with real threads: tape-decoded message scripts and seeded yields/sleeps; oracle = history model built from happens-before facts the harness observed itself",
         "1..4 sender threads with scripts of logs (with/without location) and warnings, a subset joined before collect(); every message whose send completed before collection must be returned, address-less logs keep per-thread order, per address exactly the last warning (recorded order in sequential mode, some thread's last in free-running mode) is kept, nothing fabricated or duplicated. Schedules are sampled (OS scheduler), not enumerated.",
         "Trusted: the history model; interleavings inside crossbeam-channel are not controlled (no loom/shuttle build of the channel available). Further sections: identical messages (count/sequence oracle) and volume histories of 70 000-140 000 messages. Details: notes/C25.md.",
         "DESIGN.md §3 C25"),
 "C02": ("exhaustive enumeration over 1-byte interval universes (members enumerated completely) + boundary grids and proptest tapes for 2/4/8/16-byte intervals; oracle = own membership predicate on the serialized result + refsem concrete semantics",
         "For every operation the value analysis evaluates (all integer BinOps, UnOps, casts, subpiece, and the public add/sub/signed_mul/shift_left) and abstract inputs with widening hints/delays: every concrete result of members of the inputs must be a member of the abstract result (all member pairs when small, else endpoints/neighbours/samples), the result width must be right, and the result must be well-formed (start <= end, end on the stride, stride 0 iff singleton).",
         "Trusted: dom.rs membership (own reading of the Interval documentation), refsem. Hints only in constructor-reachable positions. Details: notes/C02.md.",
         "DESIGN.md §3 C02"),
 "C04": ("exhaustive enumeration (every 1-byte interval x every 1-byte bound x 5 comparisons; all pairs of a reduced universe for intersect) + proptest tapes for wider values and DataDomain values; oracle = brute-force members/refsem comparisons",
         "Ok(r): every member of the input satisfying the comparison is in r, r well-formed; Err: no member satisfies it. intersect: common members retained / Err only if none. DataDomain: the absolute part obeys the same rule, Err only without relative values and top flag; DataDomain::intersect only under the symbolic reading of identifiers. Precision (result subset of input) is measured, not asserted.",
         "Trusted: membership/brute force in checks/c04.rs. Three open known-finding signatures (CRT overflow reported as empty intersection). Details: notes/C04.md.",
         "DESIGN.md §3 C04"),
 "C21": ("generated P-Code projects + generated ELF files driven through the real CLI binary (16 processes in parallel); validity predicates on exit status, stderr, JSON shape, known check names/versions, reported addresses and the recomputed canonical order (proptest tapes; shrinking capped)",
         "Extractor-shaped projects (loops, direct/indirect calls, extern symbols with conventions, memory accesses into the ELF's segments, format strings, shared blocks, dangling targets) with matching ET_EXEC/ET_DYN files are analysed with default, partial and all-checks selections through `cwe_checker --pcode-raw`; the run must exit 0 with empty stderr and print a sorted JSON array of well-formed warnings. A 60 s per-process watchdog yields 'inconclusive', never a violation.",
         "Trusted: cli_gen.rs writers (P-Code JSON, ELF); module names/versions are scanned from the repository sources at run time. Real Ghidra output may contain shapes not modelled. Details: notes/C21.md.",
         "DESIGN.md §3 C21"),
 "C22": ("generated multi-trigger inputs x check subsets/default/kernel-module inputs through the real CLI; oracle = set algebra on warning names relative to the all-checks run + source scan for --module-versions",
         "A trigger pack makes many syntactic checks fire at once; names in the output must equal F∩S for --partial, F without CWE78 for the default run, the kernel-module subset for ET_REL inputs with .modinfo/.gnu.linkonce.this_module; --module-versions must list every module once with its version.",
         "Trusted: the kernel-module reference set is the --partial run with the modules named in lkm_config.json; a kernel-module twin of the user-space program checks that an explicit --partial is not filtered by the kernel-module subset (see notes/C22.md).",
         "DESIGN.md §3 C22"),
 "C23": ("metamorphic testing: the same command line executed repeatedly in fresh processes (fresh hash seeds) on generated inputs biased to hash-order-sensitive shapes; oracle = byte equality of stdout",
         "Inputs with several non-entry blocks shared between functions, several sinks per source and many extern symbols are analysed k times (6 quick / 14 thorough) with all checks, JSON and plain output; all outputs must be byte-identical. Hash seeds cannot be chosen, only re-drawn: a dependence showing with probability p per run is missed with probability (1-p)^(k-1) per input.",
         "Trusted: nothing beyond process isolation; schedules/hash seeds are sampled, not controlled. Trigger shapes that make hash-order dependence visible in the warnings: sinks on both sides of a branch, expressions deeper than the propagation limit, allocation wrapper with several call sites. Details: notes/C23.md.",
         "DESIGN.md §3 C23"),
}

NOT_APPLICABLE = {}

def main():
    props = [json.loads(l) for l in open('/verif/properties.jsonl')]
    checks = []
    for p in props:
        pid = p['id']
        if pid not in CHECKS: continue
        tech, text, note, ref = CHECKS[pid]
        checks.append({
            "property_id": pid,
            "quick_cmd": f"bin/check {pid} quick",
            "thorough_cmd": f"bin/check {pid} thorough",
            "evidence_file": f"/verif/evidence/{pid}.json",
            "replay_cmd_template": f"bin/check {pid} quick --replay {{path}}",
            "engine": "vharness",
            "level_claimed": {"category": "exploration", "text": text, "design_ref": ref},
            "level_note": note,
            "technique": tech,
        })
    na = []
    for p in props:
        pid = p['id']
        if pid in CHECKS: continue
        na.append({"property_id": pid, "reason": NOT_APPLICABLE.get(pid, "check not built yet in this round (planned: see DESIGN.md §3); not claimed until its check is registered")})
    m = {
        "version": 1,
        "setup_cmd": "bin/setup",
        "hooks": {
            "guard": "cwe_checker_verif",
            "enable": "no hooks are needed: all anchored mechanisms are reached through the public API, serde and the CLI's --pcode-raw option; checks build /repo unmodified (path dependency)",
            "baseline_off_cmd": "cd /repo && cargo test --workspace --no-fail-fast --offline",
            "source_commits": [],
            "add_only": True,
        },
        "engines": [{
            "name": "vharness",
            "path": "/verif/harness",
            "serves_properties": [c["property_id"] for c in checks],
            "kind_free_text": "Rust crate (path dependency on /repo/src/cwe_checker_lib): tape-decoded generators driven by proptest TestRunner (seeded, shrinking) and sharded exhaustive enumerators; independent reference models as oracles; libFuzzer targets for thorough tiers",
        }],
        "checks": checks,
        "not_applicable": na,
        "notes": "bin/check <ID> <tier> rebuilds the harness against /repo's working tree. Exit 0 held / 1 VIOLATION / 2 inconclusive. Known findings: /verif/known_findings.json.",
    }
    json.dump(m, open('/verif/MANIFEST.json', 'w'), indent=1)
    print("checks:", len(checks), "not_applicable:", len(na))

main()
