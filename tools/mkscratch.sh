#!/bin/bash
# usage: tools/mkscratch.sh <name>
# Creates an isolated scratch workspace /tmp/ag_<name>:
#   repo/     git worktree of /repo HEAD (mutate freely for sensitivity tests; `git -C repo checkout -- .` to reset)
#   harness/  copy of /verif/harness whose path dependency points at the scratch repo, own target dir
#   root/     VERIF_ROOT (evidence/, replays/, regress/, known_findings.json land here)
#   run       wrapper: ./run C05 [--tier quick] [--seed N] ...   (builds, then runs vcheck with VERIF_ROOT=root)
set -e
N="$1"; D=/tmp/ag_$N
[ -e "$D" ] && { echo "$D exists"; exit 1; }
mkdir -p $D/root
git -C /repo worktree add --detach $D/repo HEAD >/dev/null 2>&1
rsync -a --exclude target --exclude fuzz/target /verif/harness/ $D/harness/
sed -i "s|/repo/src/cwe_checker_lib|$D/repo/src/cwe_checker_lib|" $D/harness/Cargo.toml
sed -i "s|/verif/target|$D/target|" $D/harness/.cargo/config.toml
cp /verif/known_findings.json $D/root/
cp -r /verif/regress $D/root/ 2>/dev/null || true
cat > $D/run <<EOS
#!/bin/bash
cd $D/harness && CARGO_NET_OFFLINE=true cargo build --release --offline 2>&1 | grep -E "^(error|warning: unused)" -A12 | head -80
[ \${PIPESTATUS[0]} -ne 0 ] && exit 2
cd $D && VERIF_ROOT=$D/root $D/target/release/vcheck "\$@"
EOS
chmod +x $D/run
echo "scratch at $D"
