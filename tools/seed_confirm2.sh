#!/bin/bash
# usage: seed_confirm2.sh <seed dir prefix> ID...   -> writes /tmp/<prefix>_ID/confirm.json
# All confirmations share one scratch worktree (/tmp/cw/repo) and one target dir, so that only the first one is a cold build.
P=$1; shift
R=/tmp/cw/repo
export CARGO_NET_OFFLINE=true CARGO_TARGET_DIR=/tmp/cw/target RUST_BACKTRACE=0
cd $R || exit 2
for ID in "$@"; do
  D=/tmp/${P}_$ID
  while [ ! -f $D/out/meta.json ]; do sleep 30; done
  [ -f $D/confirm.json ] && continue
  git checkout -q -- . ; git clean -fdq
  mkdir -p $R/src/cwe_checker_lib/tests; bash $D/out/run.sh > $D/demo_clean.log 2>&1; demo_clean=$?
  git checkout -q -- . ; git clean -fdq
  if ! git apply $D/out/patch.diff 2> $D/apply.log; then echo "{\"id\":\"$ID\",\"error\":\"patch does not apply\"}" > $D/confirm.json; continue; fi
  cargo test --workspace --no-fail-fast --offline > $D/suite.log 2>&1; suite_rc=$?
  passed=$(grep -E "^test result: ok. 311 passed; 0 failed" $D/suite.log | wc -l)
  mkdir -p $R/src/cwe_checker_lib/tests; bash $D/out/run.sh > $D/demo_patched.log 2>&1; demo_patched=$?
  git checkout -q -- . ; git clean -fdq
  echo "{\"id\":\"$ID\",\"demo_clean_rc\":$demo_clean,\"suite_rc\":$suite_rc,\"suite_311_passed\":$passed,\"demo_patched_rc\":$demo_patched}" > $D/confirm.json
  cat $D/confirm.json
done
echo ALLDONE
