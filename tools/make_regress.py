#!/usr/bin/env python3
"""For each (check, fix-commit, name): reverse-apply the fix in the scratch repo /tmp/ag_<ws>/repo, run the
quick tier of the check from the scratch harness, and copy the shrunk replay file it writes to
/verif/regress/<check>/<name>.json (with an `origin` field). The scratch repo is restored afterwards."""
import json, subprocess, sys, os, glob, shutil
ws = sys.argv[1]
D = f"/tmp/ag_{ws}"
items = json.load(open(sys.argv[2]))
subprocess.run(["rsync", "-a", "--exclude", "target", "--exclude", "fuzz/target", "--exclude", "Cargo.toml", "--exclude", ".cargo", "/verif/harness/", f"{D}/harness/"], check=True)
shutil.copy("/verif/known_findings.json", f"{D}/root/known_findings.json")
subprocess.run(["git", "-C", f"{D}/repo", "checkout", "-q", "--detach", subprocess.run(["git","-C","/repo","rev-parse","HEAD"],capture_output=True,text=True).stdout.strip()], check=True)
for it in items:
    subprocess.run(["git", "-C", f"{D}/repo", "checkout", "--", "."], check=True)
    patch = subprocess.run(["git", "-C", "/repo", "show", it["commit"]], capture_output=True, text=True).stdout
    r = subprocess.run(["git", "-C", f"{D}/repo", "apply", "-R", "--3way"], input=patch, text=True, capture_output=True)
    if r.returncode != 0:
        r = subprocess.run(["git", "-C", f"{D}/repo", "apply", "-R"], input=patch, text=True, capture_output=True)
    if r.returncode != 0:
        print(it["name"], "cannot reverse-apply:", r.stderr[-300:]); continue
    shutil.rmtree(f"{D}/root/replays", ignore_errors=True)
    env = dict(os.environ, VERIF_SHRINK_ITERS="600", VERIF_ZERO_SHRINK="4000")
    p = subprocess.run([f"{D}/run", it["check"], "--no-regress"] + it.get("args", []), capture_output=True, text=True, env=env, timeout=7200)
    files = sorted(glob.glob(f"{D}/root/replays/{it['check']}/*.json"), key=os.path.getsize)
    print(it["name"], "exit", p.returncode, "replays", len(files), flush=True)
    want = it.get("signature_contains")
    for f in files:
        r = json.load(open(f))
        if want and want not in r["signature"]:
            continue
        r["origin"] = f"found on the tree with fix {it['commit']} reverse-applied ({it['name']}); passes on the repaired tree"
        os.makedirs(f"/verif/regress/{it['check']}", exist_ok=True)
        json.dump(r, open(f"/verif/regress/{it['check']}/{it['name']}.json", "w"), indent=1)
        print("  saved", r["signature"], "tape bytes", len(r["tape"] or "") // 2)
        break
subprocess.run(["git", "-C", f"{D}/repo", "checkout", "--", "."])
