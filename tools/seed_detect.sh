#!/bin/bash
# usage: seed_detect.sh CNN [check ids...]  -> applies the seeded patch to /repo, runs the quick check(s), undoes it
ID=$1; shift; CHECKS=${@:-$ID}
D=/tmp/${SEEDP:-seed}_$ID; if [ -n "$SEEDP" ] || [ ! -d /verif/seeded/$ID ]; then P=$D/out/patch.diff; else P=/verif/seeded/$ID/patch.diff; fi
cd /verif
git -C /repo checkout -q -- . 
git -C /repo apply $P || { echo "cannot apply"; exit 2; }
for c in $CHECKS; do
  t0=$(date +%s)
  out=$(VERIF_SHRINK_ITERS=200 VERIF_ZERO_SHRINK=800 bin/check $c quick 2>/dev/null); rc=$?
  t1=$(date +%s)
  sig=$(echo "$out" | grep "signature=" | sed 's/.*signature=//' | sort -u | tr '\n' '|')
  echo "{\"seed\":\"$ID\",\"check\":\"$c\",\"exit\":$rc,\"signatures\":\"$sig\",\"secs\":$((t1-t0))}"
done
git -C /repo checkout -q -- .
git -C /verif checkout -q -- evidence 2>/dev/null
