#!/bin/bash
# usage: seed_confirm.sh CNN   -> writes /tmp/seed_CNN/confirm.json
ID=$1; D=/tmp/${SEEDP:-seed}_$ID; R=$D/repo
export CARGO_NET_OFFLINE=true CARGO_TARGET_DIR=$D/target RUST_BACKTRACE=0
cd $R || exit 2
git checkout -q -- . ; git clean -fdq
mkdir -p $R/src/cwe_checker_lib/tests; bash $D/out/run.sh > $D/demo_clean.log 2>&1; demo_clean=$?
git checkout -q -- . ; git clean -fdq
if ! git apply $D/out/patch.diff 2> $D/apply.log; then echo "{\"id\":\"$ID\",\"error\":\"patch does not apply\"}" > $D/confirm.json; exit 1; fi
cargo test --workspace --no-fail-fast --offline > $D/suite.log 2>&1; suite_rc=$?
passed=$(grep -E "^test result: ok. 311 passed; 0 failed" $D/suite.log | wc -l)
mkdir -p $R/src/cwe_checker_lib/tests; bash $D/out/run.sh > $D/demo_patched.log 2>&1; demo_patched=$?
git checkout -q -- . ; git clean -fdq
rm -rf $D/target
echo "{\"id\":\"$ID\",\"demo_clean_rc\":$demo_clean,\"suite_rc\":$suite_rc,\"suite_311_passed\":$passed,\"demo_patched_rc\":$demo_patched}" > $D/confirm.json
cat $D/confirm.json
