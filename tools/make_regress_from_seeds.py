#!/usr/bin/env python3
"""For every confirmed seeded change /verif/seeded/<dir>/patch.diff: apply it in the scratch repo /tmp/ag_<ws>/repo,
run the quick tier of the property's check from the scratch harness (a copy of /verif/harness), and copy the smallest
replay file it writes to /verif/regress/<ID>/seeded-<dir>.json (with an `origin` field). On the unchanged tree these
tapes pass; they are replayed first on every run of the check. Usage: make_regress_from_seeds.py <ws> [dir ...]"""
import json, subprocess, sys, os, glob, shutil
ws = sys.argv[1]
only = sys.argv[2:]
D = f"/tmp/ag_{ws}"
subprocess.run(["rsync", "-a", "--exclude", "target", "--exclude", "fuzz/target", "--exclude", "Cargo.toml", "--exclude", ".cargo", "/verif/harness/", f"{D}/harness/"], check=True)
shutil.copy("/verif/known_findings.json", f"{D}/root/known_findings.json")
head = subprocess.run(["git", "-C", "/repo", "rev-parse", "HEAD"], capture_output=True, text=True).stdout.strip()
subprocess.run(["git", "-C", f"{D}/repo", "checkout", "-q", "--", "."], check=True)
subprocess.run(["git", "-C", f"{D}/repo", "checkout", "-q", "--detach", head], check=True)
kf = json.load(open("/verif/known_findings.json"))
open_sigs = {f["signature"] for f in kf["findings"] if f["status"] == "open"}
dirs = sorted(glob.glob("/verif/seeded/C??*"))
for d in dirs:
    name = os.path.basename(d)
    if only and name not in only:
        continue
    prop = name[:3]
    out = f"/verif/regress/{prop}/seeded-{name}.json"
    subprocess.run(["git", "-C", f"{D}/repo", "checkout", "-q", "--", "."], check=True)
    r = subprocess.run(["git", "-C", f"{D}/repo", "apply", f"{d}/patch.diff"], capture_output=True, text=True)
    if r.returncode != 0:
        print(name, "patch does not apply:", r.stderr[-200:], flush=True)
        continue
    env = dict(os.environ, VERIF_SHRINK_ITERS="600", VERIF_ZERO_SHRINK="3000", VERIF_REPO=f"{D}/repo")
    if prop in ("C21", "C22", "C23"):
        b = subprocess.run(f"cd {D}/repo && CARGO_NET_OFFLINE=true CARGO_TARGET_DIR={D}/target/repo cargo build --release --offline -p cwe_checker 2>&1 | tail -1", shell=True, capture_output=True, text=True)
        env["VERIF_CLI"] = f"{D}/target/repo/release/cwe_checker"
    shutil.rmtree(f"{D}/root/replays", ignore_errors=True)
    p = subprocess.run([f"{D}/run", prop, "--no-regress"], capture_output=True, text=True, env=env, timeout=3600)
    files = sorted(glob.glob(f"{D}/root/replays/{prop}/*.json"), key=os.path.getsize)
    saved = False
    for f in files:
        rj = json.load(open(f))
        if rj["signature"] in open_sigs:
            continue
        rj["origin"] = f"shrunk failing input of the seeded change seeded/{name} (found with the patch applied in a scratch worktree); passes on the unchanged tree"
        os.makedirs(os.path.dirname(out), exist_ok=True)
        json.dump(rj, open(out, "w"), indent=1)
        print(name, "exit", p.returncode, "saved", rj["signature"], "tape bytes", len(rj.get("tape") or "") // 2, flush=True)
        saved = True
        break
    if not saved:
        print(name, "exit", p.returncode, "NO replay saved", flush=True)
subprocess.run(["git", "-C", f"{D}/repo", "checkout", "-q", "--", "."])
