#!/bin/bash
# usage: tools/rmscratch.sh <name>   removes /tmp/ag_<name> incl. its worktree and build output
N="$1"; D=/tmp/ag_$N
git -C /repo worktree remove --force $D/repo 2>/dev/null
rm -rf $D
git -C /repo worktree prune
