#!/usr/bin/env python3
"""Collect confirmed seeded changes into /verif/seeded/<id>/ (patch.diff, demo files, meta.json)."""
import json, os, shutil, glob, sys
# usage: collect_seeds.py [prefix suffix detect-log...]   (defaults: wave 1)
PREFIX = sys.argv[1] if len(sys.argv) > 1 else "seed"
SUFFIX = sys.argv[2] if len(sys.argv) > 2 else ""
LOGS = sys.argv[3:] if len(sys.argv) > 3 else ["/tmp/seed_detect.log", "/tmp/seed_detect2.log", "/tmp/seed_detect3.log"]
det = {}
for f in LOGS:
    if os.path.exists(f):
        for l in open(f):
            l = l.strip()
            if l.startswith("{"):
                try:
                    r = json.loads(l); det.setdefault(r["seed"], []).append(r)
                except Exception:
                    # signature field with unescaped text of a KNOWN-FINDING line: recover the essentials
                    import re
                    m = re.match(r'\{"seed":"(C\d+)","check":"(C\d+)","exit":(\d+),"signatures":"(.*)","secs":(\d+)\}$', l)
                    if m:
                        sigs = sorted(set(re.findall(r'(C\d\d:[A-Za-z0-9_<>:.+#`()\[\]-]+)', m.group(4))))
                        det.setdefault(m.group(1), []).append({"seed": m.group(1), "check": m.group(2), "exit": int(m.group(3)), "signatures": "|".join(sigs), "secs": int(m.group(5))})
rows = []
for d in sorted(glob.glob(f"/tmp/{PREFIX}_C??")):
    sid = os.path.basename(d).split("_")[1]
    cf = f"{d}/confirm.json"
    if not os.path.exists(cf) or not os.path.exists(f"{d}/out/patch.diff"):
        print(sid, "not ready"); continue
    c = json.load(open(cf))
    ok = c.get("demo_clean_rc") == 0 and c.get("suite_311_passed") == 1 and c.get("demo_patched_rc") not in (0, None)
    if not ok:
        print(sid, "NOT CONFIRMED", c); continue
    out = f"/verif/seeded/{sid}{SUFFIX}"
    os.makedirs(out, exist_ok=True)
    for f in glob.glob(f"{d}/out/*"):
        if os.path.isfile(f):
            shutil.copy(f, out)
        elif os.path.isdir(f):
            shutil.copytree(f, os.path.join(out, os.path.basename(f)), dirs_exist_ok=True)
    try:
        agent_meta = json.load(open(f"{d}/out/meta.json"))
    except Exception:
        agent_meta = {}
    runs = det.get(sid, [])
    last = {}
    for r in runs:
        last[r["check"]] = r
    meta = {
        "property": sid,
        "summary": agent_meta.get("summary"),
        "needs_to_manifest": agent_meta.get("needs_to_manifest"),
        "files_changed": agent_meta.get("files_changed"),
        "demo": agent_meta.get("demo"),
        "origin": "independent sub-agent given only the property record and a private worktree of /repo",
        "confirmed_by_me": {
            "how": "tools/seed_confirm.sh / seed_confirm2.sh in a scratch worktree: demo on the clean tree, patch applied, full repository test suite, demo again",
            "demo_passes_on_clean_tree": c["demo_clean_rc"] == 0,
            "repository_suite_311_pass_with_change": c["suite_311_passed"] == 1,
            "demo_fails_with_change": c["demo_patched_rc"] != 0,
        },
        "detection": [{"check": r["check"], "tier": "quick", "exit": r["exit"], "signatures": [s for s in r["signatures"].split("|") if s], "wall_s_incl_rebuild": r["secs"],
                       "how": "git -C /repo apply seeded/%s%s/patch.diff; bin/check %s quick; git -C /repo checkout -- ." % (sid, SUFFIX, r["check"])} for r in last.values()],
    }
    if len(runs) > len(last):
        meta["detection_history"] = [{"check": r["check"], "exit": r["exit"], "signatures": [s for s in r["signatures"].split("|") if s][:4]} for r in runs]
        meta["note"] = "earlier runs with exit 0 are from before the check was strengthened against this change (see DESIGN.md 8.7)"
    json.dump(meta, open(f"{out}/meta.json", "w"), indent=1)
    rows.append((sid, [(r["check"], r["exit"]) for r in last.values()]))
for r in rows:
    print(r)
