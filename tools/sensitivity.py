#!/usr/bin/env python3
"""Sensitivity runner: applies small semantic mutations (exact string replacements) to the scratch
repo /tmp/ag_<ws>/repo one at a time, runs the quick tier of the named check from the scratch
harness, records exit code + signatures, reverts. Usage: sensitivity.py <workspace> <mutations.json> <out.json>"""
import json, subprocess, sys, os, time
ws, mfile, out = sys.argv[1], sys.argv[2], sys.argv[3]
D = f"/tmp/ag_{ws}"
muts = json.load(open(mfile))
results = []
subprocess.run(["rsync", "-a", "--exclude", "target", "--exclude", "fuzz/target", "--exclude", "Cargo.toml", "--exclude", ".cargo", "/verif/harness/", f"{D}/harness/"], check=True)
for m in muts:
    path = f"{D}/repo/{m['file']}"
    src = open(path).read()
    if src.count(m['old']) != 1:
        results.append({**m, "status": f"pattern occurs {src.count(m['old'])} times"}); continue
    open(path, "w").write(src.replace(m['old'], m['new']))
    t0 = time.time()
    env = dict(os.environ, VERIF_SHRINK_ITERS="200", VERIF_ZERO_SHRINK="600")
    p = subprocess.run([f"{D}/run", m['check'], "--no-regress"] + m.get('args', []), capture_output=True, text=True, env=env, timeout=3600)
    sigs = sorted(set(l.split("signature=")[1].strip() for l in p.stdout.splitlines() if "signature=" in l))
    res = {"name": m['name'], "check": m['check'], "exit": p.returncode, "signatures": sigs, "secs": round(time.time() - t0, 1)}
    if p.returncode not in (0, 1):
        res["tail"] = (p.stdout + p.stderr)[-600:]
    results.append(res)
    open(path, "w").write(src)
    print(res, flush=True)
    json.dump(results, open(out, "w"), indent=1)
subprocess.run(["git", "-C", f"{D}/repo", "checkout", "--", "."])
