#![no_main]
use libfuzzer_sys::fuzz_target;
fuzz_target!(|data: &[u8]| {
    vharness::fuzz::run_target("c12", data);
});
