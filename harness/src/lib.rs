pub mod checks;
pub mod conv;
pub mod engine;
pub mod refsem;
pub mod tape;
