pub mod checks;
pub mod conv;
pub mod dom;
pub mod engine;
pub mod irb;
pub mod refsem;
pub mod tape;
