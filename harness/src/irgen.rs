//! Typed expression generator over byte tapes. Expressions are typed Bool / Int(size) so that
//! boolean operators only ever see 0/1 values and same-size operators equal sizes.
//! An idiom table injects the syntactic patterns the rewriting passes match.

use crate::irb::*;
use crate::tape::Tape;
use cwe_checker_lib::intermediate_representation::*;

#[derive(Clone)]
pub struct Env {
    /// readable integer variables (name, size); registers and currently defined temporaries
    pub ints: Vec<Variable>,
    /// readable boolean (1-byte, value 0/1) variables
    pub bools: Vec<Variable>,
    pub idioms: bool,
    pub muldiv: bool,
    /// allow PopCount/LzCount/Piece/Subpiece/extensions
    pub casts: bool,
}

fn ints_of_size(env: &Env, s: usize) -> Vec<&Variable> {
    env.ints.iter().filter(|v| u64::from(v.size) as usize == s).collect()
}

pub fn small_const(t: &mut Tape, s: usize) -> Expression {
    let v = t.int(s);
    econst_u(v, s)
}

fn leaf_int(t: &mut Tape, env: &Env, s: usize) -> Expression {
    let vs = ints_of_size(env, s);
    if !vs.is_empty() && !t.prob(90) {
        return evar(vs[t.below(vs.len())]);
    }
    if s < 8 && env.casts && t.prob(80) {
        let big = ints_of_size(env, 8);
        if !big.is_empty() {
            let v = big[t.below(big.len())];
            let low = if t.prob(60) { t.below(8 - s + 1) } else { 0 };
            return esub(low, s, evar(v));
        }
    }
    small_const(t, s)
}

pub fn gen_int(t: &mut Tape, env: &Env, s: usize, depth: usize) -> Expression {
    use BinOpType::*;
    if depth == 0 || t.prob(60) {
        return leaf_int(t, env, s);
    }
    if env.idioms && t.prob(70) {
        return idiom_int(t, env, s, depth);
    }
    let k = t.below(16);
    match k {
        0..=5 => {
            let op = *t.choose(&[IntAdd, IntSub, IntAnd, IntOr, IntXOr, IntAdd, IntSub]);
            ebin(op, gen_int(t, env, s, depth - 1), gen_int(t, env, s, depth - 1))
        }
        6 => {
            if env.muldiv {
                let op = *t.choose(&[IntMult, IntDiv, IntRem, IntSDiv, IntSRem]);
                ebin(op, gen_int(t, env, s, depth - 1), gen_int(t, env, s, depth - 1))
            } else {
                ebin(IntAdd, gen_int(t, env, s, depth - 1), small_const(t, s))
            }
        }
        7 | 8 => {
            let op = *t.choose(&[IntLeft, IntRight, IntSRight]);
            let amt = if t.prob(200) {
                let w = if t.flag() { s } else { 1 };
                econst_u(t.below(8 * s + 2) as u128, w)
            } else {
                gen_int(t, env, s, 0)
            };
            ebin(op, gen_int(t, env, s, depth - 1), amt)
        }
        9 => {
            let op = *t.choose(&[UnOpType::IntNegate, UnOpType::Int2Comp]);
            eun(op, gen_int(t, env, s, depth - 1))
        }
        10 | 11 if env.casts && s > 1 => {
            let smaller: Vec<usize> = [1usize, 2, 4].iter().copied().filter(|x| *x < s).collect();
            let is = *t.choose(&smaller);
            let op = if t.flag() { CastOpType::IntSExt } else { CastOpType::IntZExt };
            ecast(op, s, gen_int(t, env, is, depth - 1))
        }
        12 if env.casts && s < 8 => {
            let big = if s < 4 && t.flag() { 4 } else { 8 };
            let low = t.below(big - s + 1);
            esub(low, s, gen_int(t, env, big, depth - 1))
        }
        13 if env.casts && s >= 2 => ebin(Piece, gen_int(t, env, s / 2, depth - 1), gen_int(t, env, s / 2, depth - 1)),
        14 if env.casts => {
            let op = if t.flag() { CastOpType::PopCount } else { CastOpType::LzCount };
            let is = *t.choose(&[8usize, 4, 1, 2]);
            ecast(op, s, gen_int(t, env, is, depth - 1))
        }
        15 if env.casts && s == 1 => {
            // a boolean used as an integer byte
            gen_bool(t, env, depth - 1)
        }
        _ => ebin(IntAdd, gen_int(t, env, s, depth - 1), small_const(t, s)),
    }
}

pub fn gen_cmp(t: &mut Tape, env: &Env, depth: usize) -> Expression {
    use BinOpType::*;
    let s = *t.choose(&[8usize, 8, 4, 1, 2]);
    let op = *t.choose(&[IntEqual, IntNotEqual, IntLess, IntSLess, IntLessEqual, IntSLessEqual, IntCarry, IntSCarry, IntSBorrow]);
    let a = gen_int(t, env, s, depth);
    let b = if t.prob(100) { small_const(t, s) } else { gen_int(t, env, s, depth) };
    ebin(op, a, b)
}

pub fn gen_bool(t: &mut Tape, env: &Env, depth: usize) -> Expression {
    use BinOpType::*;
    if depth == 0 || t.prob(50) {
        if !env.bools.is_empty() && !t.prob(50) {
            return evar(&env.bools[t.below(env.bools.len())]);
        }
        if t.prob(30) {
            return econst_u(t.below(2) as u128, 1);
        }
        return gen_cmp(t, env, 0);
    }
    if env.idioms && t.prob(90) {
        return idiom_bool(t, env, depth);
    }
    match t.below(6) {
        0 | 1 => gen_cmp(t, env, depth - 1),
        2 => eun(UnOpType::BoolNegate, gen_bool(t, env, depth - 1)),
        _ => {
            let op = *t.choose(&[BoolAnd, BoolOr, BoolXOr]);
            ebin(op, gen_bool(t, env, depth - 1), gen_bool(t, env, depth - 1))
        }
    }
}

/// Patterns matched by `substitute_trivial_operations` (integer typed results).
pub fn idiom_int(t: &mut Tape, env: &Env, s: usize, depth: usize) -> Expression {
    use BinOpType::*;
    let d = depth.saturating_sub(1);
    let x = gen_int(t, env, s, d);
    let m1 = econst(-1, s);
    let zero = econst(0, s);
    match t.below(18) {
        0 => ebin(*t.choose(&[IntAnd, IntOr, IntXOr]), x.clone(), x),
        1 => {
            let c = if t.flag() { zero } else { m1 };
            let op = *t.choose(&[IntOr, IntXOr, IntAnd]);
            if t.flag() {
                ebin(op, x, c)
            } else {
                ebin(op, c, x)
            }
        }
        2 => ebin(IntSub, ebin(IntSub, x, small_const(t, s)), small_const(t, s)),
        3 => ebin(IntAdd, ebin(IntAdd, x, small_const(t, s)), small_const(t, s)),
        4 => ebin(IntAdd, ebin(IntAdd, small_const(t, s), x), small_const(t, s)),
        5 => ebin(*t.choose(&[IntAdd, IntSub]), small_const(t, s), small_const(t, s)),
        6 => ebin(IntSub, ebin(IntAdd, x, small_const(t, s)), small_const(t, s)),
        7 => ebin(IntAdd, ebin(IntSub, x, small_const(t, s)), small_const(t, s)),
        8 => eun(UnOpType::IntNegate, eun(UnOpType::IntNegate, x)),
        9 => eun(UnOpType::Int2Comp, eun(UnOpType::Int2Comp, x)),
        10 if env.casts && s < 8 => {
            // subpiece(0, s, ext(x:s))
            let big = if s < 4 && t.flag() { 4 } else { 8 };
            let op = if t.flag() { CastOpType::IntSExt } else { CastOpType::IntZExt };
            let low = if t.prob(40) { t.below(big - s + 1) } else { 0 };
            esub(low, s, ecast(op, big, x))
        }
        11 if env.casts && s <= 4 => {
            // subpiece of piece: exact halves or inexact
            let hi = gen_int(t, env, s, d);
            let p = ebin(Piece, hi, x);
            let low = *t.choose(&[0usize, s, s / 2]);
            esub(low, s, p)
        }
        12 if env.casts && s <= 2 => {
            // subpiece of subpiece
            let inner = esub(t.below(8 - 2 * s + 1), 2 * s, gen_int(t, env, 8, d));
            esub(t.below(s + 1), s, inner)
        }
        13 if env.casts && s >= 4 => {
            // ext of ext (same or different kinds)
            let op1 = if t.flag() { CastOpType::IntSExt } else { CastOpType::IntZExt };
            let op2 = if t.prob(60) { CastOpType::IntSExt } else { CastOpType::IntZExt };
            let inner = gen_int(t, env, 1, d);
            ecast(op1, s, ecast(op2, s / 2, inner))
        }
        14 if env.casts => {
            // extension / subpiece to the same size
            if t.flag() {
                ecast(if t.flag() { CastOpType::IntSExt } else { CastOpType::IntZExt }, s, x)
            } else {
                esub(0, s, x)
            }
        }
        15 => ebin(IntSub, x.clone(), x),
        16 => ebin(IntMult, x, econst(*t.choose(&[0i128, 1, 2, -1]), s)),
        _ => ebin(IntAdd, x, zero),
    }
}

/// Patterns matched by `substitute_trivial_operations` (boolean typed results).
pub fn idiom_bool(t: &mut Tape, env: &Env, depth: usize) -> Expression {
    use BinOpType::*;
    let d = depth.saturating_sub(1);
    let s = *t.choose(&[8usize, 4, 1]);
    let a = gen_int(t, env, s, d);
    let b = if t.prob(40) { a.clone() } else { gen_int(t, env, s, d) };
    let flip = t.flag();
    let sw = |x: Expression, y: Expression, op: BinOpType, flip: bool| if flip { ebin(op, y, x) } else { ebin(op, x, y) };
    match t.below(16) {
        0 => ebin(*t.choose(&[IntEqual, IntNotEqual, IntLess, IntSLess, IntLessEqual, IntSLessEqual]), a.clone(), a),
        1 | 2 => {
            // c == a - b  /  a - b != c  for c in {0, 1, other}
            let c = econst(*t.choose(&[0i128, 1, 0, 1, -1, 2]), s);
            let op = if t.flag() { IntEqual } else { IntNotEqual };
            sw(ebin(IntSub, a, b), c, op, flip)
        }
        3 => {
            // a < b || a == b  (signed / unsigned, operands possibly swapped in the equality)
            let lt = if t.flag() { IntSLess } else { IntLess };
            let eq = if t.flag() { ebin(IntEqual, a.clone(), b.clone()) } else { ebin(IntEqual, b.clone(), a.clone()) };
            sw(ebin(lt, a, b), eq, BoolOr, flip)
        }
        4 => {
            // a <= b && a != b
            let le = if t.flag() { IntSLessEqual } else { IntLessEqual };
            let ne = if t.flag() { ebin(IntNotEqual, a.clone(), b.clone()) } else { ebin(IntNotEqual, b.clone(), a.clone()) };
            sw(ebin(le, a, b), ne, BoolAnd, flip)
        }
        5 | 6 => {
            // (a - b <s 0) != sborrow(a, b)   and the == form
            let lhs = ebin(IntSLess, ebin(IntSub, a.clone(), b.clone()), econst(0, s));
            let rhs = if t.prob(230) { ebin(IntSBorrow, a, b) } else { ebin(IntSBorrow, b, a) };
            sw(lhs, rhs, if t.flag() { IntNotEqual } else { IntEqual }, flip)
        }
        7 | 8 => {
            // !(a cmp b)
            let op = *t.choose(&[IntEqual, IntNotEqual, IntLess, IntSLess, IntLessEqual, IntSLessEqual]);
            eun(UnOpType::BoolNegate, ebin(op, a, b))
        }
        9 => eun(UnOpType::BoolNegate, eun(UnOpType::BoolNegate, gen_bool(t, env, d))),
        10 | 11 => {
            // bool op with a constant 0/1
            let x = gen_bool(t, env, d);
            let c = econst_u(t.below(2) as u128, 1);
            sw(x, c, *t.choose(&[BoolAnd, BoolOr, BoolXOr]), flip)
        }
        12 => {
            let x = gen_bool(t, env, d);
            ebin(*t.choose(&[BoolAnd, BoolOr, BoolXOr]), x.clone(), x)
        }
        13 => {
            // c == a + b forms must NOT be rewritten
            let c = econst(*t.choose(&[0i128, 1]), s);
            sw(ebin(IntAdd, a, b), c, if t.flag() { IntEqual } else { IntNotEqual }, flip)
        }
        14 => {
            // (a - b <s 0) vs scarry / other flags: must not be rewritten
            let lhs = ebin(IntSLess, ebin(IntSub, a.clone(), b.clone()), econst(*t.choose(&[0i128, 1]), s));
            let rhs = ebin(*t.choose(&[IntSCarry, IntCarry, IntSBorrow]), a, b);
            sw(lhs, rhs, if t.flag() { IntNotEqual } else { IntEqual }, flip)
        }
        _ => gen_cmp(t, env, d),
    }
}
