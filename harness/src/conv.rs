//! Conversions between the harness' plain values and the repository's value types.
use crate::refsem::V;
use apint::Width as _;
use cwe_checker_lib::intermediate_representation::{Bitvector, ByteSize};

pub fn bv(v: V) -> Bitvector {
    let x = v.v & crate::refsem::mask(v.w);
    match v.w {
        1 => Bitvector::from_u8(x as u8),
        2 => Bitvector::from_u16(x as u16),
        4 => Bitvector::from_u32(x as u32),
        8 => Bitvector::from_u64(x as u64),
        16 => Bitvector::from_u128(x),
        w => Bitvector::from_u128(x).into_truncate(8 * w).expect("truncate"),
    }
}

pub fn bvi(v: i128, w: usize) -> Bitvector {
    bv(crate::refsem::from_i(v, w))
}

pub fn to_v(b: &Bitvector) -> V {
    let bits = b.width().to_usize();
    let w = bits / 8;
    let x = if bits < 128 {
        b.clone().into_zero_extend(128).expect("zext").try_to_u128().expect("u128")
    } else {
        b.try_to_u128().expect("u128")
    };
    V { v: x, w }
}

pub fn bs(w: usize) -> ByteSize {
    ByteSize::new(w as u64)
}
