//! Construction and observation of interval domain values *without* going through the
//! repository's constructors or predicates: values are built through serde (so arbitrary
//! well-formed states incl. widening hints can be made) and observed through serde.
//! Membership (`member`) is the harness' own reading of the type documentation:
//! {start + k*stride | start <=s start + k*stride <=s end}.

use crate::conv::{bv, to_v};
use crate::refsem::{from_i, sext, V};
use cwe_checker_lib::abstract_domain::{Interval, IntervalDomain};
use cwe_checker_lib::intermediate_representation::Bitvector;
use serde_json::{json, Value};

/// Plain description of an interval domain value; all bounds are signed values.
#[derive(Clone, Debug, PartialEq, Eq, Hash)]
pub struct IParts {
    pub start: i128,
    pub end: i128,
    pub stride: u64,
    pub w: usize,
    pub lo: Option<i128>,
    pub hi: Option<i128>,
    pub delay: u64,
}

fn bv_json(v: i128, w: usize) -> Value {
    serde_json::to_value(bv(from_i(v, w))).expect("bv json")
}

fn bv_from_json(v: &Value) -> V {
    let b: Bitvector = serde_json::from_value(v.clone()).expect("bv from json");
    to_v(&b)
}

impl IParts {
    pub fn new(start: i128, end: i128, stride: u64, w: usize) -> IParts {
        IParts { start, end, stride, w, lo: None, hi: None, delay: 0 }
    }
    pub fn singleton(v: i128, w: usize) -> IParts {
        IParts::new(v, v, 0, w)
    }
    pub fn top(w: usize) -> IParts {
        let min = -(1i128 << (8 * w - 1));
        IParts::new(min, -min - 1, 1, w)
    }
    pub fn smin(&self) -> i128 {
        -(1i128 << (8 * self.w - 1))
    }
    pub fn smax(&self) -> i128 {
        (1i128 << (8 * self.w - 1)) - 1
    }
    /// The three invariants of the type documentation.
    pub fn well_formed(&self) -> Result<(), String> {
        if self.start > self.end {
            return Err(format!("start {} >s end {}", self.start, self.end));
        }
        if self.start < self.smin() || self.end > self.smax() {
            return Err("bounds outside the width".into());
        }
        if self.start == self.end {
            if self.stride != 0 {
                return Err(format!("singleton {} with stride {} (must be 0)", self.start, self.stride));
            }
        } else {
            if self.stride == 0 {
                return Err("stride 0 for a non-singleton".into());
            }
            if ((self.end - self.start) as u128) % (self.stride as u128) != 0 {
                return Err(format!("end - start = {} is not a multiple of the stride {}", self.end - self.start, self.stride));
            }
        }
        Ok(())
    }
    /// Membership of a concrete (unsigned representation) value.
    pub fn member_u(&self, c: u128) -> bool {
        self.member(sext(c, self.w))
    }
    pub fn member(&self, c: i128) -> bool {
        if c < self.start || c > self.end {
            return false;
        }
        if self.stride == 0 {
            c == self.start
        } else {
            ((c - self.start) as u128) % (self.stride as u128) == 0
        }
    }
    pub fn count(&self) -> u128 {
        if self.stride == 0 {
            1
        } else {
            ((self.end - self.start) as u128) / (self.stride as u128) + 1
        }
    }
    pub fn is_top(&self) -> bool {
        self.start == self.smin() && self.end == self.smax() && self.stride == 1
    }
    /// k-th member (signed)
    pub fn nth(&self, k: u128) -> i128 {
        self.start + (k as i128) * (self.stride as i128)
    }
    /// All members if there are at most `limit`, else a deterministic selection containing the
    /// endpoints, their stride neighbours and pseudo-random members derived from `salt`.
    pub fn members(&self, limit: usize, salt: u64) -> Vec<i128> {
        let n = self.count();
        if n <= limit as u128 {
            (0..n).map(|k| self.nth(k)).collect()
        } else {
            let mut ks: Vec<u128> = vec![0, 1, 2, n - 1, n - 2, n - 3, n / 2, n / 2 + 1];
            // members next to zero and to the sign boundaries
            if self.stride > 0 {
                for target in [0i128, -1, 1, self.smax(), self.smin()] {
                    if target >= self.start && target <= self.end {
                        let k = ((target - self.start) as u128) / self.stride as u128;
                        ks.push(k);
                        if k + 1 < n {
                            ks.push(k + 1);
                        }
                    }
                }
            }
            let mut s = crate::tape::Sm(salt ^ (self.start as u64) ^ ((self.end as u64) << 1) ^ self.stride);
            while ks.len() < limit {
                let r = ((s.next() as u128) << 64 | s.next() as u128) % n;
                ks.push(r);
            }
            ks.sort();
            ks.dedup();
            ks.into_iter().map(|k| self.nth(k)).collect()
        }
    }
    pub fn to_json(&self) -> Value {
        json!({
            "interval": {"start": bv_json(self.start, self.w), "end": bv_json(self.end, self.w), "stride": self.stride},
            "widening_upper_bound": self.hi.map(|h| bv_json(h, self.w)),
            "widening_lower_bound": self.lo.map(|h| bv_json(h, self.w)),
            "widening_delay": self.delay,
        })
    }
    /// Build the repository value through serde (no constructor logic involved).
    pub fn build(&self) -> IntervalDomain {
        serde_json::from_value(self.to_json()).expect("IntervalDomain from json")
    }
    pub fn build_interval(&self) -> Interval {
        Interval { start: bv(from_i(self.start, self.w)), end: bv(from_i(self.end, self.w)), stride: self.stride }
    }
    /// Observe a repository value through serde.
    pub fn of(d: &IntervalDomain) -> IParts {
        let v = serde_json::to_value(d).expect("IntervalDomain to json");
        let s = bv_from_json(&v["interval"]["start"]);
        let e = bv_from_json(&v["interval"]["end"]);
        let w = s.w;
        let opt = |x: &Value| if x.is_null() { None } else { Some(sext(bv_from_json(x).v, w)) };
        IParts {
            start: sext(s.v, w),
            end: sext(e.v, e.w),
            stride: v["interval"]["stride"].as_u64().expect("stride"),
            w,
            lo: opt(&v["widening_lower_bound"]),
            hi: opt(&v["widening_upper_bound"]),
            delay: v["widening_delay"].as_u64().expect("delay"),
        }
    }
    pub fn of_interval(i: &Interval) -> IParts {
        let s = to_v(&i.start);
        let e = to_v(&i.end);
        IParts { start: sext(s.v, s.w), end: sext(e.v, e.w), stride: i.stride, w: s.w, lo: None, hi: None, delay: 0 }
    }
    /// Width of the end bound as serialized (to detect start/end width mismatches).
    pub fn widths_of(d: &IntervalDomain) -> (usize, usize) {
        let v = serde_json::to_value(d).expect("json");
        (bv_from_json(&v["interval"]["start"]).w, bv_from_json(&v["interval"]["end"]).w)
    }
}

/// All well-formed 1-byte (start, end, stride) triples: the universe U1 of the design.
pub fn universe_1byte(max_stride: u64) -> Vec<IParts> {
    let mut out = vec![];
    for s in -128i128..=127 {
        out.push(IParts::singleton(s, 1));
        for e in (s + 1)..=127 {
            let d = (e - s) as u64;
            for st in 1..=d.min(max_stride) {
                if d % st == 0 {
                    out.push(IParts::new(s, e, st, 1));
                }
            }
        }
    }
    out
}

/// Boundary-rich reduced 1-byte universe (endpoints from a small table, all admissible strides).
pub fn reduced_universe_1byte() -> Vec<IParts> {
    let pts: [i128; 16] = [-128, -127, -126, -65, -64, -3, -2, -1, 0, 1, 2, 3, 63, 64, 126, 127];
    let mut out = vec![];
    for (i, s) in pts.iter().enumerate() {
        out.push(IParts::singleton(*s, 1));
        for e in pts.iter().skip(i + 1) {
            let d = (e - s) as u64;
            for st in 1..=d {
                if d % st == 0 && (st <= 4 || st == d || st == d / 2 || st.is_power_of_two()) {
                    out.push(IParts::new(*s, *e, st, 1));
                }
            }
        }
    }
    out
}

/// Decode a well-formed interval of width `w` from a tape, boundary biased; optional hints obey the
/// constructor invariants (lower hint <s start, upper hint >s end).
pub fn decode_interval(t: &mut crate::tape::Tape, w: usize, with_hints: bool) -> IParts {
    let a = sext(t.int(w), w);
    let kind = t.below(8);
    let mut p = if kind == 0 {
        IParts::singleton(a, w)
    } else {
        let b = if kind <= 3 {
            // short interval near a
            let len = t.below(40) as i128 + 1;
            a.saturating_add(len)
        } else {
            sext(t.int(w), w)
        };
        let smax = (1i128 << (8 * w - 1)) - 1;
        let b = b.min(smax);
        let (s, e) = if a <= b { (a, b) } else { (b, a) };
        if s == e {
            IParts::singleton(s, w)
        } else {
            let d = (e - s) as u128;
            // stride: 1, a small divisor-ish value, power of two, or huge
            let sk = t.below(8);
            let mut stride: u128 = match sk {
                0 | 1 | 2 => 1,
                3 => 2,
                4 => 1 + t.below(16) as u128,
                5 => 1u128 << t.below((8 * w).min(63)),
                6 => d,
                _ => (t.u64() as u128).max(1),
            };
            if stride > d {
                stride = d;
            }
            if stride > u64::MAX as u128 {
                stride = 1;
            }
            // round end down onto the stride
            let e2 = s + ((d / stride) * stride) as i128;
            if e2 == s {
                IParts::singleton(s, w)
            } else {
                IParts::new(s, e2, stride as u64, w)
            }
        }
    };
    if with_hints {
        if t.prob(90) && p.start > p.smin() {
            let dist = (t.below(64) as i128 + 1).min(p.start - p.smin());
            let far = t.prob(40);
            p.lo = Some(if far { p.smin() + (t.below(4) as i128).min(p.start - p.smin() - 1).max(0) } else { p.start - dist });
        }
        if t.prob(90) && p.end < p.smax() {
            let dist = (t.below(64) as i128 + 1).min(p.smax() - p.end);
            let far = t.prob(40);
            p.hi = Some(if far { p.smax() - (t.below(4) as i128).min(p.smax() - p.end - 1).max(0) } else { p.end + dist });
        }
        if t.prob(100) {
            p.delay = *t.choose(&[0u64, 1, 2, 3, 8, 255, 1 << 32, u64::MAX, u64::MAX - 1]);
            if t.prob(60) {
                p.delay = (p.end - p.start).min(u64::MAX as i128) as u64;
            }
        }
    }
    p
}
