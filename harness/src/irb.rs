//! Small builders for IR terms and a standard x86_64-like project skeleton.
//! Only struct literals of the repository's public IR types; no repository logic.

use crate::conv::{bs, bv};
use crate::refsem::{from_i, val};
use cwe_checker_lib::intermediate_representation::*;
use std::collections::{BTreeMap, BTreeSet};

pub fn tid(id: &str, addr: &str) -> Tid {
    let mut t = Tid::new(id);
    t.address = addr.to_string();
    t
}
pub fn blk_tid(addr: u64) -> Tid {
    tid(&format!("blk_{:08x}", addr), &format!("{:08x}", addr))
}
pub fn sub_tid(addr: u64) -> Tid {
    tid(&format!("sub_{:08x}", addr), &format!("{:08x}", addr))
}
pub fn instr_tid(addr: u64, n: usize) -> Tid {
    tid(&format!("instr_{:08x}_{}", addr, n), &format!("{:08x}", addr))
}
pub fn var(name: &str, size: usize) -> Variable {
    Variable { name: name.to_string(), size: bs(size), is_temp: false }
}
pub fn tmp(name: &str, size: usize) -> Variable {
    Variable { name: name.to_string(), size: bs(size), is_temp: true }
}
pub fn evar(v: &Variable) -> Expression {
    Expression::Var(v.clone())
}
pub fn econst(v: i128, w: usize) -> Expression {
    Expression::Const(bv(from_i(v, w)))
}
pub fn econst_u(v: u128, w: usize) -> Expression {
    Expression::Const(bv(val(v, w)))
}
pub fn ebin(op: BinOpType, l: Expression, r: Expression) -> Expression {
    Expression::BinOp { op, lhs: Box::new(l), rhs: Box::new(r) }
}
pub fn eun(op: UnOpType, a: Expression) -> Expression {
    Expression::UnOp { op, arg: Box::new(a) }
}
pub fn ecast(op: CastOpType, size: usize, a: Expression) -> Expression {
    Expression::Cast { op, size: bs(size), arg: Box::new(a) }
}
pub fn esub(low: usize, size: usize, a: Expression) -> Expression {
    Expression::Subpiece { low_byte: bs(low), size: bs(size), arg: Box::new(a) }
}
pub fn assign(t: Tid, v: &Variable, e: Expression) -> Term<Def> {
    Term { tid: t, term: Def::Assign { var: v.clone(), value: e } }
}
pub fn load(t: Tid, v: &Variable, addr: Expression) -> Term<Def> {
    Term { tid: t, term: Def::Load { var: v.clone(), address: addr } }
}
pub fn store(t: Tid, addr: Expression, value: Expression) -> Term<Def> {
    Term { tid: t, term: Def::Store { address: addr, value } }
}
pub fn jmp(t: Tid, j: Jmp) -> Term<Jmp> {
    Term { tid: t, term: j }
}
pub fn blk(t: Tid, defs: Vec<Term<Def>>, jmps: Vec<Term<Jmp>>) -> Term<Blk> {
    Term { tid: t, term: Blk { defs, jmps, indirect_jmp_targets: vec![] } }
}
pub fn sub(t: Tid, name: &str, blocks: Vec<Term<Blk>>) -> Term<Sub> {
    Term { tid: t, term: Sub { name: name.to_string(), blocks, calling_convention: None } }
}

pub const GPRS: [&str; 16] = ["RAX", "RBX", "RCX", "RDX", "RSI", "RDI", "RBP", "RSP", "R8", "R9", "R10", "R11", "R12", "R13", "R14", "R15"];
pub const FLAGS: [&str; 4] = ["ZF", "CF", "SF", "OF"];
pub const PARAM_REGS: [&str; 6] = ["RDI", "RSI", "RDX", "RCX", "R8", "R9"];
pub const CALLEE_SAVED: [&str; 6] = ["RBX", "RBP", "R12", "R13", "R14", "R15"];

/// System-V-like `__stdcall` convention over the 64-bit registers.
pub fn stdcall() -> CallingConvention {
    CallingConvention {
        name: "__stdcall".to_string(),
        integer_parameter_register: PARAM_REGS.iter().map(|r| var(r, 8)).collect(),
        float_parameter_register: vec![],
        integer_return_register: vec![var("RAX", 8)],
        float_return_register: vec![],
        callee_saved_register: CALLEE_SAVED.iter().map(|r| var(r, 8)).collect(),
    }
}

pub fn datatype_properties_x64() -> DatatypeProperties {
    DatatypeProperties {
        char_size: bs(1),
        double_size: bs(8),
        float_size: bs(4),
        integer_size: bs(4),
        long_double_size: bs(16),
        long_long_size: bs(8),
        long_size: bs(8),
        pointer_size: bs(8),
        short_size: bs(2),
    }
}

/// An extern symbol with register parameters (64-bit) and RAX as return register.
pub fn extern_symbol(t: Tid, name: &str, params: &[&str], no_return: bool) -> ExternSymbol {
    ExternSymbol {
        tid: t,
        addresses: vec!["UNKNOWN".to_string()],
        name: name.to_string(),
        calling_convention: Some("__stdcall".to_string()),
        parameters: params.iter().map(|r| Arg::Register { expr: evar(&var(r, 8)), data_type: None }).collect(),
        return_values: vec![Arg::Register { expr: evar(&var("RAX", 8)), data_type: None }],
        no_return,
        has_var_args: false,
    }
}

/// Project skeleton: x86_64 registers (16 GPRs of 8 bytes + 4 one-byte flags), RSP as stack
/// pointer, `__stdcall`, empty little-endian memory image.
pub fn project(subs: Vec<Term<Sub>>, externs: Vec<ExternSymbol>, entry_points: Vec<Tid>) -> Project {
    let mut register_set = BTreeSet::new();
    for r in GPRS {
        register_set.insert(var(r, 8));
    }
    for f in FLAGS {
        register_set.insert(var(f, 1));
    }
    let mut ccs = BTreeMap::new();
    ccs.insert("__stdcall".to_string(), stdcall());
    Project {
        program: Term {
            tid: Tid::new("prog"),
            term: Program {
                subs: subs.into_iter().map(|s| (s.tid.clone(), s)).collect(),
                extern_symbols: externs.into_iter().map(|e| (e.tid.clone(), e)).collect(),
                entry_points: entry_points.into_iter().collect(),
                address_base_offset: 0,
            },
        },
        cpu_architecture: "x86_64".to_string(),
        stack_pointer_register: var("RSP", 8),
        calling_conventions: ccs,
        register_set,
        datatype_properties: datatype_properties_x64(),
        runtime_memory_image: RuntimeMemoryImage::empty(true),
    }
}
