//! Entry point for coverage-guided fuzz targets (harness/fuzz): one tape = one case of one random
//! section of a check, decoded by the same decoder and judged by the same oracle as the proptest
//! driver. Listed open known findings are tolerated in-target so a campaign is not stopped by them.

use crate::engine::{Engine, Mode, Tier};

/// Run one case. Returns `Some((signature, detail))` for a violation that is not a listed known finding.
pub fn fuzz_one(id: &str, section: &str, data: &[u8]) -> Option<(String, String)> {
    let run = crate::checks::dispatch(id).expect("check id");
    let mut eng = Engine::new(id, Tier::Quick, 1);
    eng.replay_only = true;
    eng.quiet = true;
    eng.mode = Mode::Replay { section: section.to_string(), tape: Some(data.to_vec()), index: None, path: "(fuzz)".to_string() };
    run(&mut eng);
    if let Some(m) = eng.inconclusive.first() {
        return Some(("HARNESS".to_string(), m.clone()));
    }
    eng.violations.first().map(|v| (v.signature.clone(), v.detail.clone()))
}

/// libFuzzer target body: panics (so that libFuzzer stores the tape as artifact) on a violation.
pub fn target(id: &str, section: &str, data: &[u8]) {
    if let Some((sig, detail)) = fuzz_one(id, section, data) {
        eprintln!("VIOLATION-SIGNATURE {}\n{}", sig, detail.chars().take(4000).collect::<String>());
        std::process::abort();
    }
}

/// Fuzz targets: name -> (check id, sections). With several sections the first input byte selects one.
pub const TARGETS: &[(&str, &str, &[&str])] = &[
    ("c05", "C05", &["bitvector-cells", "datadomain-cells"]),
    ("c09", "C09", &["raw-programs"]),
    ("c10", "C10", &["optimize-differential"]),
    ("c11", "C11", &["lift-block-differential"]),
    ("c12", "C12", &["lift-normalize-typing"]),
    ("c13", "C13", &["pi-soundness"]),
    ("c14", "C14", &["signature-demand"]),
    ("c15", "C15", &["null-deref-flows"]),
    ("c19", "C19", &["layouts", "bare-metal", "elf-segments", "elf-sections", "pe-sections"]),
    ("c20", "C20", &["derived-format-strings"]),
];

/// Split a raw fuzz input of `target` into (check id, section, tape).
pub fn split<'a>(target: &str, data: &'a [u8]) -> (&'static str, &'static str, &'a [u8]) {
    let (_, id, sections) = TARGETS.iter().find(|(t, _, _)| *t == target).expect("fuzz target");
    if sections.len() == 1 {
        (id, sections[0], data)
    } else {
        let k = data.first().copied().unwrap_or(0) as usize % sections.len();
        (id, sections[k], if data.is_empty() { data } else { &data[1..] })
    }
}

pub fn run_target(target: &str, data: &[u8]) {
    let (id, section, tape) = split(target, data);
    self::target(id, section, tape);
}
