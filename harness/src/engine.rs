//! Engine: drivers (proptest tape runner, sharded enumerator), statistics, known-findings
//! matching, replay files and evidence writing.

use crate::tape::{hex, unhex};
use proptest::test_runner::{Config, RngAlgorithm, TestCaseError, TestError, TestRunner};
use serde_json::{json, Value};
use std::cell::{Cell, RefCell};
use std::collections::{BTreeMap, HashSet};
use std::panic::{catch_unwind, AssertUnwindSafe};
use std::sync::atomic::{AtomicBool, Ordering};
use std::time::Instant;

/// Root for evidence, replays, regress and known findings; `VERIF_ROOT` overrides it (scratch work).
pub fn verif_dir() -> String {
    std::env::var("VERIF_ROOT").unwrap_or_else(|_| "/verif".to_string())
}

#[derive(Clone, Copy, PartialEq, Eq, Debug)]
pub enum Tier {
    Quick,
    Thorough,
}
impl Tier {
    pub fn name(self) -> &'static str {
        match self {
            Tier::Quick => "quick",
            Tier::Thorough => "thorough",
        }
    }
    /// Pick by tier.
    pub fn pick<T>(self, q: T, t: T) -> T {
        match self {
            Tier::Quick => q,
            Tier::Thorough => t,
        }
    }
}

#[derive(Clone, Debug)]
pub struct Failure {
    pub signature: String,
    pub detail: String,
}

pub type CaseResult = Result<(), Failure>;

pub fn fail<T>(signature: impl Into<String>, detail: impl Into<String>) -> Result<T, Failure> {
    Err(Failure { signature: signature.into(), detail: detail.into() })
}

// ---------------------------------------------------------------------------------------------
// Panic capture. `cut(|| ...)` runs code under test; a panic inside becomes a Failure.
// A panic outside `cut` is a harness/oracle bug (exit 2).

thread_local! {
    static IN_CUT: Cell<u32> = const { Cell::new(0) };
    static LAST_PANIC: RefCell<Option<(bool, String, String)>> = const { RefCell::new(None) };
}
static HOOK_INSTALLED: AtomicBool = AtomicBool::new(false);

pub fn install_panic_hook() {
    if HOOK_INSTALLED.swap(true, Ordering::SeqCst) {
        return;
    }
    let verbose = std::env::var("VERIF_VERBOSE").is_ok();
    std::panic::set_hook(Box::new(move |info| {
        let msg = if let Some(s) = info.payload().downcast_ref::<&str>() {
            s.to_string()
        } else if let Some(s) = info.payload().downcast_ref::<String>() {
            s.clone()
        } else {
            "<non-string panic>".to_string()
        };
        let loc = info.location().map(|l| format!("{}:{}", l.file(), l.line())).unwrap_or_default();
        let in_cut = IN_CUT.with(|c| c.get() > 0);
        if verbose || !in_cut {
            eprintln!("[panic{}] {} at {}", if in_cut { " in code under test" } else { " in HARNESS" }, msg, loc);
        }
        LAST_PANIC.with(|p| *p.borrow_mut() = Some((in_cut, msg, loc)));
    }));
}

/// Short, line-number-free description of a panic location + message for signatures.
fn panic_signature(msg: &str, loc: &str) -> String {
    let file = loc.rsplit('/').next().unwrap_or(loc);
    let file = file.split(':').next().unwrap_or(file);
    let mut m: String = msg.chars().take(60).collect();
    // strip volatile numbers
    m = m.chars().map(|c| if c.is_ascii_digit() { '#' } else { c }).collect();
    format!("panic:{}:{}", file, m)
}

/// Run code under test; panics become failures with a `panic:` signature.
pub fn cut<T>(f: impl FnOnce() -> T) -> Result<T, Failure> {
    IN_CUT.with(|c| c.set(c.get() + 1));
    let r = catch_unwind(AssertUnwindSafe(f));
    IN_CUT.with(|c| c.set(c.get() - 1));
    match r {
        Ok(v) => Ok(v),
        Err(_) => {
            let (msg, loc) = LAST_PANIC
                .with(|p| p.borrow_mut().take())
                .map(|(_, m, l)| (m, l))
                .unwrap_or_default();
            Err(Failure {
                signature: panic_signature(&msg, &loc),
                detail: format!("code under test panicked: {} at {}", msg, loc),
            })
        }
    }
}

// ---------------------------------------------------------------------------------------------
// Known findings

#[derive(Clone, Debug)]
pub struct KnownFinding {
    pub property: String,
    pub status: String,
    pub signature: String,
    pub description: String,
}

pub fn load_known_findings(property: &str) -> Vec<KnownFinding> {
    static CACHE: std::sync::Mutex<Option<BTreeMap<String, Vec<KnownFinding>>>> = std::sync::Mutex::new(None);
    {
        let g = CACHE.lock().unwrap_or_else(|e| e.into_inner());
        if let Some(m) = g.as_ref() {
            if let Some(v) = m.get(property) {
                return v.clone();
            }
        }
    }
    let v = load_known_findings_uncached(property);
    let mut g = CACHE.lock().unwrap_or_else(|e| e.into_inner());
    g.get_or_insert_with(BTreeMap::new).insert(property.to_string(), v.clone());
    v
}

fn load_known_findings_uncached(property: &str) -> Vec<KnownFinding> {
    let path = format!("{}/known_findings.json", verif_dir());
    let txt = match std::fs::read_to_string(&path) {
        Ok(t) => t,
        Err(_) => return vec![],
    };
    let v: Value = match serde_json::from_str(&txt) {
        Ok(v) => v,
        Err(e) => {
            eprintln!("known_findings.json unreadable: {}", e);
            std::process::exit(2);
        }
    };
    let mut out = vec![];
    if let Some(arr) = v.get("findings").and_then(|a| a.as_array()) {
        for f in arr {
            let g = |k: &str| f.get(k).and_then(|x| x.as_str()).unwrap_or("").to_string();
            if g("property") == property {
                out.push(KnownFinding {
                    property: g("property"),
                    status: g("status"),
                    signature: g("signature"),
                    description: g("description"),
                });
            }
        }
    }
    out
}

// ---------------------------------------------------------------------------------------------
// Statistics

#[derive(Default)]
pub struct Stats {
    /// cases run by the engine (one per tape / index)
    pub cases: u64,
    pub evaluations: u64,
    pub nontrivial_counted: u64,
    pub nontrivial_hashes: HashSet<u64>,
    pub labels: BTreeMap<String, u64>,
    pub samples: Vec<String>,
    pub known_hits: BTreeMap<String, (u64, String)>,
    pub max_samples: usize,
}

impl Stats {
    fn merge(&mut self, o: Stats) {
        self.cases += o.cases;
        self.evaluations += o.evaluations;
        self.nontrivial_counted += o.nontrivial_counted;
        self.nontrivial_hashes.extend(o.nontrivial_hashes);
        for (k, v) in o.labels {
            *self.labels.entry(k).or_insert(0) += v;
        }
        for s in o.samples {
            if self.samples.len() < self.max_samples.max(6) {
                self.samples.push(s);
            }
        }
        for (k, (n, d)) in o.known_hits {
            let e = self.known_hits.entry(k).or_insert((0, d));
            e.0 += n;
        }
    }
    pub fn distinct_nontrivial(&self) -> u64 {
        self.nontrivial_counted + self.nontrivial_hashes.len() as u64
    }
}

/// Per-case context handed to check closures.
pub struct Ctx<'a> {
    stats: &'a mut Stats,
    known: &'a [KnownFinding],
    counting: bool,
    pub seed: u64,
}

impl<'a> Ctx<'a> {
    pub fn label(&mut self, l: &str) {
        if self.counting {
            if let Some(c) = self.stats.labels.get_mut(l) {
                *c += 1;
            } else {
                self.stats.labels.insert(l.to_string(), 1);
            }
        }
    }
    pub fn label_n(&mut self, l: &str, n: u64) {
        if self.counting && n > 0 {
            if let Some(c) = self.stats.labels.get_mut(l) {
                *c += n;
            } else {
                self.stats.labels.insert(l.to_string(), n);
            }
        }
    }
    /// Count sub-evaluations beyond the one counted per case (e.g. member checks).
    pub fn extra_evaluations(&mut self, n: u64) {
        if self.counting {
            self.stats.evaluations += n;
        }
    }
    /// Mark the case non-trivial; `h` is a hash of its canonical form (distinctness by hash set).
    pub fn nontrivial(&mut self, h: u64) {
        if self.counting {
            self.stats.nontrivial_hashes.insert(h);
        }
    }
    /// Count `n` non-trivial cases that are distinct by construction (enumerations).
    pub fn nontrivial_by_construction(&mut self, n: u64) {
        if self.counting {
            self.stats.nontrivial_counted += n;
        }
    }
    pub fn want_sample(&self) -> bool {
        self.counting && self.stats.samples.len() < self.stats.max_samples
    }
    pub fn sample(&mut self, f: impl FnOnce() -> String) {
        if self.want_sample() {
            let s = f();
            self.stats.samples.push(s);
        }
    }
    pub fn is_known(&self, signature: &str) -> bool {
        self.known.iter().any(|k| k.status == "open" && k.signature == signature)
    }
    /// Report a failing clause: `Ok(())` if it is a listed open known finding (counted, search
    /// continues), `Err` otherwise.
    pub fn report(&mut self, signature: impl Into<String>, detail: impl Into<String>) -> CaseResult {
        let signature = signature.into();
        let detail = detail.into();
        if self.is_known(&signature) {
            if self.counting {
                let e = self.stats.known_hits.entry(signature).or_insert((0, detail));
                e.0 += 1;
            }
            Ok(())
        } else {
            Err(Failure { signature, detail })
        }
    }
    /// Run code under test; on panic report it (known finding => `Ok(None)`).
    pub fn cut<T>(&mut self, f: impl FnOnce() -> T) -> Result<Option<T>, Failure> {
        match cut(f) {
            Ok(v) => Ok(Some(v)),
            Err(fl) => {
                self.report(fl.signature, fl.detail)?;
                Ok(None)
            }
        }
    }
}

// ---------------------------------------------------------------------------------------------
// Engine

#[derive(Clone, Debug)]
pub struct Violation {
    pub section: String,
    pub signature: String,
    pub detail: String,
    pub replay_path: String,
}

pub enum Mode {
    Run,
    /// Replay one saved case: (section, payload)
    Replay { section: String, tape: Option<Vec<u8>>, index: Option<u64>, path: String },
}

pub struct Engine {
    /// regress audit: the `case` text stored in the replay file that is being replayed
    pub audit_case: Option<String>,
    /// regress audit results: (path, stored case text equals the current decoding)
    pub audit_out: Vec<(String, bool)>,
    pub property: String,
    pub tier: Tier,
    pub seed: u64,
    pub threads: usize,
    pub mode: Mode,
    pub known: Vec<KnownFinding>,
    pub stats: Stats,
    pub section_stats: BTreeMap<String, Value>,
    pub violations: Vec<Violation>,
    pub inconclusive: Vec<String>,
    pub exhaustive_sections: Vec<String>,
    pub rule: String,
    pub assumptions: Vec<String>,
    pub extra: BTreeMap<String, Value>,
    pub start: Instant,
    pub replayed: u64,
    pub replay_only: bool,
    /// suppress per-violation stderr output (fuzz targets)
    pub quiet: bool,
}

pub struct RandomSpec {
    /// total number of cases (split over the shards)
    pub cases: u64,
    pub max_tape: usize,
}

fn shrink_iters() -> u32 {
    std::env::var("VERIF_SHRINK_ITERS").ok().and_then(|s| s.parse().ok()).unwrap_or(600)
}
fn zero_shrink_budget() -> i64 {
    std::env::var("VERIF_ZERO_SHRINK").ok().and_then(|s| s.parse().ok()).unwrap_or(2500)
}

struct ShardOut {
    stats: Stats,
    failure: Option<(Vec<u8>, Option<u64>, Failure)>,
    harness_panic: Option<String>,
}

impl Engine {
    pub fn new(property: &str, tier: Tier, seed: u64) -> Engine {
        install_panic_hook();
        let threads = std::env::var("VERIF_THREADS").ok().and_then(|s| s.parse().ok()).unwrap_or(16usize);
        let mut stats = Stats::default();
        stats.max_samples = 8;
        Engine {
            audit_case: None,
            audit_out: vec![],
            property: property.to_string(),
            tier,
            seed,
            threads,
            mode: Mode::Run,
            known: load_known_findings(property),
            stats,
            section_stats: BTreeMap::new(),
            violations: vec![],
            inconclusive: vec![],
            exhaustive_sections: vec![],
            rule: String::new(),
            assumptions: vec![],
            extra: BTreeMap::new(),
            start: Instant::now(),
            replayed: 0,
            replay_only: false,
            quiet: false,
        }
    }

    fn new_stats(&self) -> Stats {
        let mut s = Stats::default();
        s.max_samples = 3;
        s
    }

    fn write_replay(&self, section: &str, tape: Option<&[u8]>, index: Option<u64>, fl: &Failure, case: &str) -> String {
        let dir = format!("{}/replays/{}", verif_dir(), self.property);
        let _ = std::fs::create_dir_all(&dir);
        let h = crate::tape::fnv(format!("{}|{}|{:?}|{:?}", section, fl.signature, tape.map(hex), index).as_bytes());
        let path = format!("{}/{}-{:016x}.json", dir, section.replace(|c: char| !c.is_ascii_alphanumeric(), "_"), h);
        let v = json!({
            "property": self.property,
            "section": section,
            "tape": tape.map(hex),
            "index": index,
            "signature": fl.signature,
            "detail": fl.detail,
            "case": case,
            "seed": self.seed,
            "tier": self.tier.name(),
        });
        let _ = std::fs::write(&path, serde_json::to_string_pretty(&v).unwrap());
        path
    }

    fn record_violation(&mut self, section: &str, tape: Option<&[u8]>, index: Option<u64>, fl: Failure, case: String) {
        let path = match &self.mode {
            Mode::Run => self.write_replay(section, tape, index, &fl, &case),
            Mode::Replay { path, .. } => path.clone(),
        };
        if !self.quiet {
            eprintln!("--- violation in section {}: [{}]\n{}\ncase: {}", section, fl.signature, fl.detail, case);
        }
        self.violations.push(Violation { section: section.to_string(), signature: fl.signature, detail: fl.detail, replay_path: path });
    }

    /// Random section: proptest runner over byte tapes; `f` decodes the tape and checks the case.
    /// `describe` renders the decoded case for replay files.
    pub fn random<F, D>(&mut self, section: &str, spec: RandomSpec, f: F, describe: D)
    where
        F: Fn(&[u8], &mut Ctx) -> CaseResult + Sync,
        D: Fn(&[u8]) -> String + Sync,
    {
        if let Mode::Replay { section: s, tape, .. } = &self.mode {
            if s != section {
                return;
            }
            let tape = match tape {
                Some(t) => t.clone(),
                None => return,
            };
            self.replay_one(section, Some(tape), None, |t, _i, c| f(t.unwrap(), c), |t, _| describe(t.unwrap()));
            return;
        }
        let t0 = Instant::now();
        let shards = self.threads.max(1);
        // development aid: VERIF_CASES_SCALE multiplies all random case counts
        let scale: f64 = std::env::var("VERIF_CASES_SCALE").ok().and_then(|s| s.parse().ok()).unwrap_or(1.0);
        let total_cases = ((spec.cases as f64) * scale).max(1.0) as u64;
        let per = (total_cases + shards as u64 - 1) / shards as u64;
        let known = self.known.clone();
        let seed = self.seed;
        let sec_hash = crate::tape::fnv(section.as_bytes());
        let outs: Vec<ShardOut> = std::thread::scope(|sc| {
            let mut hs = vec![];
            for shard in 0..shards {
                let f = &f;
                let known = &known;
                let max_tape = spec.max_tape;
                let mut st = self.new_stats();
                hs.push(sc.spawn(move || {
                    let mut seedbytes = [0u8; 32];
                    let s1 = crate::tape::mix64(seed ^ sec_hash);
                    let s2 = crate::tape::mix64(s1 ^ (shard as u64 + 1));
                    seedbytes[0..8].copy_from_slice(&s1.to_le_bytes());
                    seedbytes[8..16].copy_from_slice(&s2.to_le_bytes());
                    seedbytes[16..24].copy_from_slice(&seed.to_le_bytes());
                    seedbytes[24..32].copy_from_slice(&(shard as u64).to_le_bytes());
                    let cfg = Config {
                        cases: per as u32,
                        failure_persistence: None,
                        max_shrink_iters: shrink_iters(),
                        max_global_rejects: 1,
                        ..Config::default()
                    };
                    let rng = proptest::test_runner::TestRng::from_seed(RngAlgorithm::ChaCha, &seedbytes);
                    let mut runner = TestRunner::new_with_rng(cfg, rng);
                    let strat = proptest::collection::vec(proptest::num::u8::ANY, 0..=max_tape);
                    let failed = Cell::new(false);
                    let stc = RefCell::new(&mut st);
                    let last_fail: RefCell<Option<Failure>> = RefCell::new(None);
                    let harness_panic: RefCell<Option<String>> = RefCell::new(None);
                    let res = runner.run(&strat, |tape| {
                        let counting = !failed.get();
                        let mut guard = stc.borrow_mut();
                        let stats: &mut Stats = &mut **guard;
                        if counting {
                            stats.evaluations += 1;
                            stats.cases += 1;
                        }
                        let mut ctx = Ctx { stats, known, counting, seed };
                        let t_case = Instant::now();
                        let r = catch_unwind(AssertUnwindSafe(|| f(&tape, &mut ctx)));
                        let el = t_case.elapsed().as_secs_f64();
                        if el > 1.0 && counting {
                            ctx.label("slow-case>1s");
                            if std::env::var("VERIF_SLOW").is_ok() {
                                eprintln!("[slow case {:.1}s] tape {}", el, hex(&tape));
                            }
                        }
                        match r {
                            Ok(Ok(())) => Ok(()),
                            Ok(Err(fl)) => {
                                failed.set(true);
                                let m = fl.signature.clone();
                                *last_fail.borrow_mut() = Some(fl);
                                Err(TestCaseError::fail(m))
                            }
                            Err(_) => {
                                let (in_cut, msg, loc) = LAST_PANIC.with(|p| p.borrow_mut().take()).unwrap_or((false, String::new(), String::new()));
                                let _ = in_cut;
                                *harness_panic.borrow_mut() = Some(format!("{} at {}", msg, loc));
                                failed.set(true);
                                *last_fail.borrow_mut() = Some(Failure { signature: "HARNESS-PANIC".into(), detail: format!("{} at {}", msg, loc) });
                                Err(TestCaseError::fail("HARNESS-PANIC"))
                            }
                        }
                    });
                    drop(stc);
                    let mut out = ShardOut { stats: Stats::default(), failure: None, harness_panic: None };
                    match res {
                        Ok(()) => {}
                        Err(TestError::Fail(_, tape)) => {
                            // Second shrinking stage that keeps positions stable: zero out aligned
                            // chunks (large to small) and truncate, keeping the failure signature.
                            let run_on = |tp: &[u8]| -> Option<Failure> {
                                let mut scratch = Stats::default();
                                let mut ctx = Ctx { stats: &mut scratch, known, counting: false, seed };
                                match catch_unwind(AssertUnwindSafe(|| f(tp, &mut ctx))) {
                                    Ok(Err(fl)) => Some(fl),
                                    _ => None,
                                }
                            };
                            let mut tape = tape;
                            if let Some(orig) = run_on(&tape) {
                                let sig = orig.signature.clone();
                                let mut budget: i64 = zero_shrink_budget();
                                // truncate trailing zeros first
                                while tape.last() == Some(&0) {
                                    tape.pop();
                                }
                                let mut size = 512usize;
                                while size >= 1 && budget > 0 {
                                    let mut pos = 0;
                                    while pos < tape.len() && budget > 0 {
                                        let end = (pos + size).min(tape.len());
                                        if tape[pos..end].iter().any(|b| *b != 0) {
                                            let saved: Vec<u8> = tape[pos..end].to_vec();
                                            for b in &mut tape[pos..end] {
                                                *b = 0;
                                            }
                                            budget -= 1;
                                            let keep = matches!(run_on(&tape), Some(fl) if fl.signature == sig);
                                            if !keep {
                                                tape[pos..end].copy_from_slice(&saved);
                                                // for single bytes also try halving the value
                                                if size == 1 && saved[0] > 1 {
                                                    tape[pos] = saved[0] / 2;
                                                    budget -= 1;
                                                    if !matches!(run_on(&tape), Some(fl) if fl.signature == sig) {
                                                        tape[pos] = saved[0];
                                                    }
                                                }
                                            }
                                        }
                                        pos += size;
                                    }
                                    size /= 2;
                                }
                                while tape.last() == Some(&0) {
                                    tape.pop();
                                }
                            }
                            // re-run on the shrunk tape to get the matching failure text
                            let mut scratch = Stats::default();
                            let mut ctx = Ctx { stats: &mut scratch, known, counting: false, seed };
                            let r = catch_unwind(AssertUnwindSafe(|| f(&tape, &mut ctx)));
                            match r {
                                Ok(Err(fl)) => out.failure = Some((tape, None, fl)),
                                Ok(Ok(())) => {
                                    // flaky: should not happen with pure decoders
                                    out.harness_panic = Some("shrunk tape does not reproduce (non-deterministic check?)".into());
                                }
                                Err(_) => {
                                    let (_, msg, loc) = LAST_PANIC.with(|p| p.borrow_mut().take()).unwrap_or((false, String::new(), String::new()));
                                    out.harness_panic = Some(format!("harness panic on tape {}: {} at {}", hex(&tape), msg, loc));
                                }
                            }
                        }
                        Err(TestError::Abort(r)) => {
                            out.harness_panic = Some(format!("proptest aborted: {}", r));
                        }
                    }
                    out.stats = st;
                    out
                }));
            }
            hs.into_iter().map(|h| h.join().expect("shard thread")).collect()
        });
        let mut sec = self.new_stats();
        sec.max_samples = 4;
        let mut first_fail = None;
        for o in outs {
            if let Some(hp) = o.harness_panic {
                self.inconclusive.push(format!("section {}: {}", section, hp));
            }
            if first_fail.is_none() {
                if let Some(ff) = o.failure {
                    first_fail = Some(ff);
                }
            }
            sec.merge(o.stats);
        }
        self.finish_section(section, sec, t0, false);
        if let Some((tape, _, fl)) = first_fail {
            let case = describe(&tape);
            self.record_violation(section, Some(&tape), None, fl, case);
        }
    }

    fn replay_one<F, D>(&mut self, section: &str, tape: Option<Vec<u8>>, index: Option<u64>, f: F, describe: D)
    where
        F: Fn(Option<&[u8]>, Option<u64>, &mut Ctx) -> CaseResult,
        D: Fn(Option<&[u8]>, Option<u64>) -> String,
    {
        let mut st = self.new_stats();
        st.evaluations = 1;
        st.cases = 1;
        let known = self.known.clone();
        let r = {
            let mut ctx = Ctx { stats: &mut st, known: &known, counting: true, seed: self.seed };
            catch_unwind(AssertUnwindSafe(|| f(tape.as_deref(), index, &mut ctx)))
        };
        self.replayed += 1;
        if let Some(stored) = self.audit_case.take() {
            let now = describe(tape.as_deref(), index);
            let path = match &self.mode {
                Mode::Replay { path, .. } => path.clone(),
                _ => String::new(),
            };
            // lines that name files (they contain the directory the case was saved in) are not part of the case
            let norm = |t: &str| t.lines().filter(|l| !l.starts_with("files:")).collect::<Vec<_>>().join("\n").trim().to_string();
            self.audit_out.push((path, norm(&stored) == norm(&now) || stored.trim().is_empty()));
        }
        let t0 = Instant::now();
        match r {
            Ok(Ok(())) => {}
            Ok(Err(fl)) => {
                let case = describe(tape.as_deref(), index);
                self.record_violation(section, tape.as_deref(), index, fl, case);
            }
            Err(_) => {
                let (_, msg, loc) = LAST_PANIC.with(|p| p.borrow_mut().take()).unwrap_or((false, String::new(), String::new()));
                self.inconclusive.push(format!("replay: harness panic {} at {}", msg, loc));
            }
        }
        self.finish_section(section, st, t0, false);
    }

    /// Enumerated section: indices 0..total in fixed chunks over the threads. The lowest failing
    /// index is reported. All items are distinct by construction.
    pub fn enumerate<F, D>(&mut self, section: &str, total: u64, exhaustive: bool, f: F, describe: D)
    where
        F: Fn(u64, &mut Ctx) -> CaseResult + Sync,
        D: Fn(u64) -> String + Sync,
    {
        if let Mode::Replay { section: s, index, .. } = &self.mode {
            if s != section {
                return;
            }
            let index = match index {
                Some(i) => *i,
                None => return,
            };
            self.replay_one(section, None, Some(index), |_t, i, c| f(i.unwrap(), c), |_, i| describe(i.unwrap()));
            return;
        }
        let t0 = Instant::now();
        let shards = self.threads.max(1) as u64;
        let known = self.known.clone();
        let seed = self.seed;
        let stop = AtomicBool::new(false);
        // interleaved chunks of fixed size so that the partition is independent of scheduling
        let chunk: u64 = ((total / (shards * 64)).max(1)).min(1 << 16);
        let outs: Vec<ShardOut> = std::thread::scope(|sc| {
            let mut hs = vec![];
            for shard in 0..shards {
                let f = &f;
                let known = &known;
                let stop = &stop;
                let mut st = self.new_stats();
                hs.push(sc.spawn(move || {
                    let mut out = ShardOut { stats: Stats::default(), failure: None, harness_panic: None };
                    let mut base = shard * chunk;
                    'outer: while base < total {
                        if stop.load(Ordering::Relaxed) {
                            break;
                        }
                        let end = (base + chunk).min(total);
                        for i in base..end {
                            st.evaluations += 1;
                            st.cases += 1;
                            let mut ctx = Ctx { stats: &mut st, known, counting: true, seed };
                            let r = catch_unwind(AssertUnwindSafe(|| f(i, &mut ctx)));
                            match r {
                                Ok(Ok(())) => {}
                                Ok(Err(fl)) => {
                                    out.failure = Some((vec![], Some(i), fl));
                                    stop.store(true, Ordering::Relaxed);
                                    break 'outer;
                                }
                                Err(_) => {
                                    let (_, msg, loc) = LAST_PANIC.with(|p| p.borrow_mut().take()).unwrap_or((false, String::new(), String::new()));
                                    out.harness_panic = Some(format!("harness panic at index {}: {} at {}", i, msg, loc));
                                    stop.store(true, Ordering::Relaxed);
                                    break 'outer;
                                }
                            }
                        }
                        base += shards * chunk;
                    }
                    out.stats = st;
                    out
                }));
            }
            hs.into_iter().map(|h| h.join().expect("shard thread")).collect()
        });
        let mut sec = self.new_stats();
        sec.max_samples = 4;
        let mut first_fail: Option<(u64, Failure)> = None;
        for o in outs {
            if let Some(hp) = o.harness_panic {
                self.inconclusive.push(format!("section {}: {}", section, hp));
            }
            if let Some((_, Some(i), fl)) = o.failure {
                if first_fail.as_ref().map(|(j, _)| i < *j).unwrap_or(true) {
                    first_fail = Some((i, fl));
                }
            }
            sec.merge(o.stats);
        }
        let complete = first_fail.is_none() && sec.cases == total;
        self.finish_section(section, sec, t0, exhaustive && complete);
        if let Some((i, fl)) = first_fail {
            let case = describe(i);
            self.record_violation(section, None, Some(i), fl, case);
        }
    }

    fn finish_section(&mut self, section: &str, sec: Stats, t0: Instant, exhaustive: bool) {
        let v = json!({
            "cases": sec.cases,
            "evaluations": sec.evaluations,
            "distinct_nontrivial": sec.distinct_nontrivial(),
            "labels": sec.labels,
            "exhaustive": exhaustive,
            "wall_s": t0.elapsed().as_secs_f64(),
        });
        if exhaustive {
            self.exhaustive_sections.push(section.to_string());
        }
        if std::env::var("VERIF_PROGRESS").is_ok() {
            eprintln!("[{}] section {}: {}", self.property, section, v);
        }
        // merge into global stats, prefixing labels by section
        let mut sec = sec;
        let labels = std::mem::take(&mut sec.labels);
        for (k, n) in labels {
            *self.stats.labels.entry(format!("{}/{}", section, k)).or_insert(0) += n;
        }
        let samples = std::mem::take(&mut sec.samples);
        for s in samples.into_iter().take(3) {
            if self.stats.samples.len() < 40 {
                self.stats.samples.push(format!("[{}] {}", section, s));
            }
        }
        self.stats.max_samples = 40;
        self.stats.merge(sec);
        // merge with an earlier section of the same name (rare)
        self.section_stats.insert(section.to_string(), v);
    }

    pub fn label_count(&self, section: &str, label: &str) -> u64 {
        *self.stats.labels.get(&format!("{}/{}", section, label)).unwrap_or(&0)
    }

    pub fn section_evaluations(&self, section: &str) -> u64 {
        self.section_stats.get(section).and_then(|v| v.get("evaluations")).and_then(|v| v.as_u64()).unwrap_or(0)
    }
    pub fn section_cases(&self, section: &str) -> u64 {
        self.section_stats.get(section).and_then(|v| v.get("cases")).and_then(|v| v.as_u64()).unwrap_or(0)
    }

    /// Fail the run as inconclusive (exit 2) if an essential class of cases is starved
    /// (fraction of the section's cases carrying the label).
    pub fn require_fraction(&mut self, section: &str, label: &str, min_fraction: f64) {
        if matches!(self.mode, Mode::Replay { .. }) {
            return;
        }
        if self.violations.iter().any(|v| v.section == section) {
            return; // counting stopped early
        }
        let n = self.section_cases(section);
        let c = self.label_count(section, label);
        if n == 0 || (c as f64) < min_fraction * n as f64 {
            self.inconclusive.push(format!(
                "generator starvation: section {} label {} = {} of {} (< {:.3})",
                section, label, c, n, min_fraction
            ));
        }
    }

    /// Run the committed regression replays for this property (strict: same oracle).
    pub fn regress_files(&self) -> Vec<(String, String, Option<Vec<u8>>, Option<u64>)> {
        let dir = format!("{}/regress/{}", verif_dir(), self.property);
        let mut out = vec![];
        let mut names: Vec<_> = match std::fs::read_dir(&dir) {
            Ok(rd) => rd.filter_map(|e| e.ok()).map(|e| e.path()).filter(|p| p.extension().map(|x| x == "json").unwrap_or(false)).collect(),
            Err(_) => vec![],
        };
        names.sort();
        for p in names {
            if let Some(r) = read_replay(p.to_str().unwrap()) {
                out.push((p.to_string_lossy().to_string(), r.0, r.1, r.2));
            }
        }
        out
    }

    /// Write evidence, print verdict lines, return the exit code.
    pub fn finish(mut self) -> i32 {
        let wall = self.start.elapsed().as_secs_f64();
        let is_replay = self.replay_only;
        for (sig, (n, d)) in &self.stats.known_hits {
            let desc = self.known.iter().find(|k| &k.signature == sig).map(|k| k.description.clone()).unwrap_or_default();
            println!("KNOWN-FINDING: property={} signature={} hits={} {} | e.g. {}", self.property, sig, n, desc, d.replace('\n', " "));
        }
        for v in &self.violations {
            println!("VIOLATION property={} replay={}", self.property, v.replay_path);
            println!("  section={} signature={}", v.section, v.signature);
        }
        for m in &self.inconclusive {
            println!("INCONCLUSIVE property={} {}", self.property, m);
        }
        if !is_replay {
            let exhaustive_all = !self.exhaustive_sections.is_empty() && self.exhaustive_sections.len() == self.section_stats.len();
            let mut coverage = serde_json::Map::new();
            coverage.insert("evaluations".into(), json!(self.stats.evaluations));
            coverage.insert("distinct_nontrivial".into(), json!(self.stats.distinct_nontrivial()));
            coverage.insert("rule".into(), json!(self.rule));
            let samples: Vec<Value> = self.stats.samples.iter().map(|s| json!(s)).collect();
            coverage.insert("samples".into(), json!(samples));
            coverage.insert("exhaustive".into(), json!(exhaustive_all));
            coverage.insert("exhaustive_sections".into(), json!(self.exhaustive_sections));
            coverage.insert("sections".into(), json!(self.section_stats));
            coverage.insert("labels".into(), json!(self.stats.labels));
            let kh: BTreeMap<String, u64> = self.stats.known_hits.iter().map(|(k, v)| (k.clone(), v.0)).collect();
            coverage.insert("known_finding_hits_excluded".into(), json!(kh));
            coverage.insert("regression_replays".into(), json!(self.replayed));
            for (k, v) in std::mem::take(&mut self.extra) {
                coverage.insert(k, v);
            }
            let ev = json!({
                "property_id": self.property,
                "tier": self.tier.name(),
                "seed": self.seed,
                "level": "exploration",
                "coverage": Value::Object(coverage),
                "assumptions": self.assumptions,
                "wall_s": wall,
                "violations": self.violations.len(),
                "inconclusive": self.inconclusive,
            });
            let dir = format!("{}/evidence", verif_dir());
            let _ = std::fs::create_dir_all(&dir);
            let path = format!("{}/{}.json", dir, self.property);
            if let Err(e) = std::fs::write(&path, serde_json::to_string_pretty(&ev).unwrap()) {
                eprintln!("cannot write evidence {}: {}", path, e);
                return 2;
            }
        }
        if !self.violations.is_empty() {
            1
        } else if !self.inconclusive.is_empty() {
            2
        } else {
            println!(
                "OK property={} tier={} seed={} evaluations={} distinct_nontrivial={} wall_s={:.1}",
                self.property,
                self.tier.name(),
                self.seed,
                self.stats.evaluations,
                self.stats.distinct_nontrivial(),
                wall
            );
            0
        }
    }
}

pub fn read_replay(path: &str) -> Option<(String, Option<Vec<u8>>, Option<u64>)> {
    let txt = std::fs::read_to_string(path).ok()?;
    let v: Value = serde_json::from_str(&txt).ok()?;
    let section = v.get("section")?.as_str()?.to_string();
    let tape = v.get("tape").and_then(|t| t.as_str()).map(unhex);
    let index = v.get("index").and_then(|t| t.as_u64());
    Some((section, tape, index))
}

