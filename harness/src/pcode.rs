//! Harness-side P-Code: register tables with nested sub-registers, varnodes, defs, jumps,
//! a typed block generator over tapes, JSON emission in the shape `pcode::Project`
//! deserializes, and a reference P-Code interpreter over base-register byte arrays.

use crate::irinterp::{Event, State};
use crate::refsem::{self as rs, R, V};
use crate::tape::Tape;
use serde_json::{json, Value};
use std::collections::BTreeMap;

#[derive(Clone, Debug, PartialEq, Eq)]
pub struct RegEntry {
    pub name: String,
    pub base: String,
    pub lsb: usize,
    pub size: usize,
}

#[derive(Clone, Debug)]
pub struct RegTable {
    pub entries: Vec<RegEntry>,
    pub flags: Vec<String>,
    pub sp: String,
}

impl RegTable {
    pub fn get(&self, name: &str) -> &RegEntry {
        self.entries.iter().find(|e| e.name == name).expect("register in table")
    }
    pub fn bases(&self) -> Vec<&RegEntry> {
        self.entries.iter().filter(|e| e.name == e.base).collect()
    }
    pub fn to_json(&self) -> Value {
        Value::Array(self.entries.iter().map(|e| json!({"register": e.name, "base_register": e.base, "lsb": e.lsb, "size": e.size})).collect())
    }
}

/// x86-64 flavoured table with a tape-chosen set of sub-registers at aligned (lsb, size).
pub fn gen_table(t: &mut Tape) -> RegTable {
    let mut entries = vec![];
    let nb = 2 + t.below(3); // 2..4 general 8-byte bases
    let names8 = ["RAX", "RBX", "RCX", "RDX"];
    let mut bases: Vec<(String, usize)> = names8.iter().take(nb).map(|n| (n.to_string(), 8)).collect();
    bases.push(("RSP".to_string(), 8));
    let nv = t.below(3);
    for i in 0..nv {
        bases.push((format!("V{}", i), 16));
    }
    for (b, size) in &bases {
        entries.push(RegEntry { name: b.clone(), base: b.clone(), lsb: 0, size: *size });
        // candidate sub-registers
        let mut cands = vec![];
        for s in [1usize, 2, 4, 8] {
            if s >= *size {
                continue;
            }
            let mut lsb = 0;
            while lsb + s <= *size {
                cands.push((lsb, s));
                lsb += s;
            }
        }
        // always-likely classics: low half, low quarter, low byte, second byte
        let classics = [(0usize, size / 2), (0, 2), (0, 1), (1, 1)];
        for (k, (lsb, s)) in classics.iter().enumerate() {
            if *s < *size && t.prob(if k == 0 { 220 } else { 150 }) && !entries.iter().any(|e: &RegEntry| e.base == *b && e.lsb == *lsb && e.size == *s) {
                entries.push(RegEntry { name: format!("{}_{}_{}", b, lsb, s), base: b.clone(), lsb: *lsb, size: *s });
            }
        }
        let extra = t.below(4);
        for _ in 0..extra {
            let (lsb, s) = cands[t.below(cands.len())];
            if !entries.iter().any(|e| e.base == *b && e.lsb == lsb && e.size == s) {
                entries.push(RegEntry { name: format!("{}_{}_{}", b, lsb, s), base: b.clone(), lsb, size: s });
            }
        }
    }
    let flags = vec!["ZF".to_string(), "CF".to_string()];
    for f in &flags {
        entries.push(RegEntry { name: f.clone(), base: f.clone(), lsb: 0, size: 1 });
    }
    RegTable { entries, flags, sp: "RSP".to_string() }
}

#[derive(Clone, Debug, PartialEq, Eq)]
pub enum PVar {
    /// register varnode: a table name with a size (<= the register's size: same-name smaller varnode)
    Reg { name: String, size: usize },
    Temp { name: String, size: usize },
    Const { val: u128, size: usize },
    Ram { addr: u64, size: usize },
}

impl PVar {
    pub fn size(&self) -> usize {
        match self {
            PVar::Reg { size, .. } | PVar::Temp { size, .. } | PVar::Const { size, .. } | PVar::Ram { size, .. } => *size,
        }
    }
    pub fn to_json(&self) -> Value {
        match self {
            PVar::Reg { name, size } => json!({"name": name, "size": size, "is_virtual": false}),
            PVar::Temp { name, size } => json!({"name": name, "size": size, "is_virtual": true}),
            PVar::Const { val, size } => json!({"value": format!("{:x}", val & rs::mask(*size)), "size": size, "is_virtual": false}),
            PVar::Ram { addr, size } => json!({"address": format!("{:08x}", addr), "size": size, "is_virtual": false}),
        }
    }
}

#[derive(Clone, Debug)]
pub struct PDef {
    pub lhs: Option<PVar>,
    pub op: &'static str,
    pub ins: [Option<PVar>; 3],
}

#[derive(Clone, Debug)]
pub enum PJmp {
    Branch(String),
    CBranch { target: String, cond: PVar },
    BranchInd(PVar, Vec<String>),
    Call { target: String, ret: Option<String> },
    CallInd { target: PVar, ret: Option<String> },
    CallOther { desc: String, ret: Option<String> },
    Return(PVar),
}

#[derive(Clone, Debug)]
pub struct PBlk {
    pub addr: u64,
    pub defs: Vec<PDef>,
    pub jmps: Vec<PJmp>,
}

pub fn tid_json(id: &str, addr: &str) -> Value {
    json!({"id": id, "address": addr})
}
pub fn blk_id(addr: u64) -> String {
    format!("blk_{:08x}", addr)
}
fn blk_tid_json(id: &str) -> Value {
    // ids have the form blk_<addr>[_suffix]
    let addr = id.trim_start_matches("blk_").split('_').next().unwrap_or("").to_string();
    tid_json(id, &addr)
}

impl PDef {
    pub fn to_json(&self, tid: Value) -> Value {
        let mut rhs = serde_json::Map::new();
        rhs.insert("mnemonic".into(), json!(self.op));
        for (i, k) in ["input0", "input1", "input2"].iter().enumerate() {
            if let Some(v) = &self.ins[i] {
                rhs.insert((*k).into(), v.to_json());
            }
        }
        let mut term = serde_json::Map::new();
        if let Some(l) = &self.lhs {
            term.insert("lhs".into(), l.to_json());
        }
        term.insert("rhs".into(), Value::Object(rhs));
        json!({"tid": tid, "term": Value::Object(term)})
    }
}

impl PJmp {
    pub fn to_json(&self, tid: Value) -> Value {
        let direct = |id: &String| json!({"Direct": blk_tid_json(id)});
        let term = match self {
            PJmp::Branch(t) => json!({"mnemonic": "BRANCH", "goto": direct(t)}),
            PJmp::CBranch { target, cond } => json!({"mnemonic": "CBRANCH", "goto": direct(target), "condition": cond.to_json()}),
            PJmp::BranchInd(v, hints) => {
                let h: Vec<String> = hints.iter().map(|h| h.trim_start_matches("blk_").to_string()).collect();
                json!({"mnemonic": "BRANCHIND", "goto": {"Indirect": v.to_json()}, "target_hints": h})
            }
            PJmp::Call { target, ret } => json!({"mnemonic": "CALL", "call": {"target": {"Direct": tid_json(target, target.trim_start_matches("sub_"))}, "return": ret.as_ref().map(direct)}}),
            PJmp::CallInd { target, ret } => json!({"mnemonic": "CALLIND", "call": {"target": {"Indirect": target.to_json()}, "return": ret.as_ref().map(direct)}}),
            PJmp::CallOther { desc, ret } => json!({"mnemonic": "CALLOTHER", "call": {"return": ret.as_ref().map(direct), "call_string": desc}}),
            PJmp::Return(v) => json!({"mnemonic": "RETURN", "goto": {"Indirect": v.to_json()}}),
        };
        json!({"tid": tid, "term": term})
    }
}

impl PBlk {
    pub fn id(&self) -> String {
        blk_id(self.addr)
    }
    pub fn to_json(&self) -> Value {
        let a = format!("{:08x}", self.addr);
        let defs: Vec<Value> = self.defs.iter().enumerate().map(|(i, d)| d.to_json(tid_json(&format!("instr_{:08x}_{}", self.addr + (i as u64 / 4), i), &format!("{:08x}", self.addr + (i as u64 / 4))))).collect();
        let n = self.defs.len();
        let jmps: Vec<Value> = self.jmps.iter().enumerate().map(|(i, j)| j.to_json(tid_json(&format!("instr_{:08x}_{}", self.addr + 0x3f, n + i), &format!("{:08x}", self.addr + 0x3f)))).collect();
        json!({"tid": tid_json(&self.id(), &a), "term": {"defs": defs, "jmps": jmps}})
    }
}

pub struct PSub {
    pub addr: u64,
    pub name: String,
    pub blocks: Vec<PBlk>,
}

/// Whole project JSON in the shape `pcode::Project` deserializes.
pub fn project_json(table: &RegTable, subs: &[PSub], externs: Vec<Value>) -> Value {
    let subs_json: Vec<Value> = subs
        .iter()
        .map(|s| {
            json!({"tid": tid_json(&format!("sub_{:08x}", s.addr), &format!("{:08x}", s.addr)),
                   "term": {"name": s.name, "blocks": s.blocks.iter().map(|b| b.to_json()).collect::<Vec<_>>(), "calling_convention": "__stdcall"}})
        })
        .collect();
    let has = |n: &str| table.entries.iter().any(|e| e.name == n);
    let params: Vec<&str> = ["RDX", "RCX", "RBX"].iter().copied().filter(|r| has(r)).collect();
    json!({
        "program": {"tid": tid_json("prog_00000000", "00000000"),
                    "term": {"subs": subs_json, "extern_symbols": externs,
                             "entry_points": subs.iter().take(1).map(|s| tid_json(&format!("sub_{:08x}", s.addr), &format!("{:08x}", s.addr))).collect::<Vec<_>>(),
                             "image_base": "00000000"}},
        "cpu_architecture": "x86_64",
        "stack_pointer_register": {"name": table.sp, "size": 8, "is_virtual": false},
        "register_properties": table.to_json(),
        "register_calling_convention": [{
            "calling_convention": "__stdcall",
            "integer_parameter_register": params,
            "float_parameter_register": [],
            "return_register": ["RAX"],
            "float_return_register": [],
            "unaffected_register": ["RSP"],
            "killed_by_call_register": ["RAX"],
        }],
        "datatype_properties": {"char_size": 1, "double_size": 8, "float_size": 4, "integer_size": 4, "long_double_size": 8,
                                "long_long_size": 8, "long_size": 8, "pointer_size": 8, "short_size": 2},
    })
}

// ------------------------------------------------------------------------------------------
// Generator

pub struct BlockGen<'a> {
    pub table: &'a RegTable,
    /// temporaries defined so far in this block: (name, size, is_bool)
    pub temps: Vec<(String, usize, bool)>,
    pub features: Vec<&'static str>,
    pub ram_base: u64,
}

const TEMP_POOL: [(&str, usize); 7] = [("$U1", 8), ("$U2", 8), ("$U3", 4), ("$U4", 2), ("$U5", 1), ("$U6", 1), ("$U7", 16)];
const BOOL_TEMPS: [&str; 2] = ["$Ub1", "$Ub2"];

impl<'a> BlockGen<'a> {
    pub fn new(table: &'a RegTable) -> Self {
        BlockGen { table, temps: vec![], features: vec![], ram_base: 0x601000 }
    }
    fn feat(&mut self, f: &'static str) {
        if !self.features.contains(&f) {
            self.features.push(f);
        }
    }
    /// register varnodes of exactly `s` bytes that are not flags: (var, kind)
    fn reg_vars(&self, s: usize) -> Vec<(PVar, &'static str)> {
        let mut v = vec![];
        for e in &self.table.entries {
            if self.table.flags.contains(&e.name) {
                continue;
            }
            if e.size == s {
                v.push((PVar::Reg { name: e.name.clone(), size: s }, if e.name == e.base { "base" } else if e.lsb == 0 { "sub-lsb0" } else { "sub-lsb>0" }));
            } else if e.name == e.base && e.size > s {
                v.push((PVar::Reg { name: e.name.clone(), size: s }, "same-name-smaller"));
            }
        }
        v
    }
    /// an input varnode of size `s` (non-boolean integer data)
    pub fn input(&mut self, t: &mut Tape, s: usize) -> PVar {
        let k = t.below(10);
        match k {
            0..=4 => {
                let c = self.reg_vars(s);
                if !c.is_empty() {
                    // bias away from same-name-smaller (rarer in real output) but keep it frequent
                    let (v, kind) = c[t.below(c.len())].clone();
                    self.feat(match kind {
                        "base" => "in:base",
                        "sub-lsb0" => "in:sub-lsb0",
                        "sub-lsb>0" => "in:sub-lsb>0",
                        _ => "in:same-name-smaller",
                    });
                    return v;
                }
                PVar::Const { val: t.int(s.min(16)), size: s }
            }
            5 | 6 => {
                let c: Vec<(String, usize, bool)> = self.temps.iter().filter(|(_, ts, b)| *ts == s && !*b).cloned().collect();
                if !c.is_empty() {
                    let (n, ts, _) = c[t.below(c.len())].clone();
                    return PVar::Temp { name: n, size: ts };
                }
                PVar::Const { val: t.int(s.min(16)), size: s }
            }
            7 if s <= 8 => {
                self.feat("in:ram");
                PVar::Ram { addr: self.ram_base + 8 * t.below(6) as u64 + t.below(2) as u64, size: s }
            }
            _ => PVar::Const { val: t.int(s.min(16)), size: s },
        }
    }
    /// a boolean-valued input (size 1, value 0/1)
    pub fn bool_input(&mut self, t: &mut Tape) -> PVar {
        let mut c: Vec<PVar> = self.table.flags.iter().map(|f| PVar::Reg { name: f.clone(), size: 1 }).collect();
        for (n, s, b) in &self.temps {
            if *b {
                c.push(PVar::Temp { name: n.clone(), size: *s });
            }
        }
        c.push(PVar::Const { val: 0, size: 1 });
        c.push(PVar::Const { val: 1, size: 1 });
        c[t.below(c.len())].clone()
    }
    /// an output varnode of size `s` for integer data
    pub fn output(&mut self, t: &mut Tape, s: usize) -> PVar {
        let k = t.below(10);
        match k {
            0..=5 => {
                let c: Vec<(PVar, &'static str)> = self.reg_vars(s).into_iter().filter(|(v, _)| !matches!(v, PVar::Reg { name, .. } if *name == self.table.sp)).collect();
                if !c.is_empty() {
                    let (v, kind) = c[t.below(c.len())].clone();
                    self.feat(match kind {
                        "base" => "out:base",
                        "sub-lsb0" => "out:sub-lsb0",
                        "sub-lsb>0" => "out:sub-lsb>0",
                        _ => "out:same-name-smaller",
                    });
                    return v;
                }
                self.temp_out(t, s)
            }
            6 if s <= 8 => {
                self.feat("out:ram");
                PVar::Ram { addr: self.ram_base + 8 * t.below(6) as u64 + t.below(2) as u64, size: s }
            }
            _ => self.temp_out(t, s),
        }
    }
    fn temp_out(&mut self, t: &mut Tape, s: usize) -> PVar {
        let c: Vec<&(&str, usize)> = TEMP_POOL.iter().filter(|(_, ts)| *ts == s).collect();
        let name = if c.is_empty() { format!("$Ux{}", s) } else { c[t.below(c.len())].0.to_string() };
        self.temps.retain(|(n, _, _)| *n != name);
        self.temps.push((name.clone(), s, false));
        PVar::Temp { name, size: s }
    }
    fn bool_output(&mut self, t: &mut Tape) -> PVar {
        if t.flag() {
            PVar::Reg { name: self.table.flags[t.below(self.table.flags.len())].clone(), size: 1 }
        } else {
            let name = BOOL_TEMPS[t.below(2)].to_string();
            self.temps.retain(|(n, _, _)| *n != name);
            self.temps.push((name.clone(), 1, true));
            PVar::Temp { name, size: 1 }
        }
    }
    fn addr_input(&mut self, t: &mut Tape) -> PVar {
        match t.below(6) {
            0 | 1 => PVar::Reg { name: self.table.sp.clone(), size: 8 },
            2 => PVar::Const { val: (self.ram_base + 8 * t.below(6) as u64) as u128, size: 8 },
            _ => self.input(t, 8),
        }
    }

    /// Generate one def (possibly followed by a cast-to-base def); sizes obey the P-Code typing rules.
    pub fn def(&mut self, t: &mut Tape, out: &mut Vec<PDef>) {
        // stack pointer arithmetic and alignment masks (what function prologues contain)
        if t.prob(12) {
            let sp = PVar::Reg { name: self.table.sp.clone(), size: 8 };
            let d = match t.below(3) {
                0 => PDef { lhs: Some(sp.clone()), op: "INT_AND", ins: [Some(sp), Some(PVar::Const { val: (-(1i128 << (2 + t.below(5) as u32))) as u128 & rs::mask(8), size: 8 }), None] },
                1 => PDef { lhs: Some(sp.clone()), op: "INT_SUB", ins: [Some(sp), Some(PVar::Const { val: *t.choose(&[8u128, 16, 24, 0x28, 0x100]), size: 8 }), None] },
                _ => PDef { lhs: Some(sp.clone()), op: "INT_ADD", ins: [Some(sp), Some(PVar::Const { val: (-(*t.choose(&[8i128, 16, 32]))) as u128 & rs::mask(8), size: 8 }), None] },
            };
            self.feat("sp-arith-or-mask");
            out.push(d);
            return;
        }
        let s = *t.choose(&[8usize, 4, 8, 2, 1, 4, 16]);
        let k = t.below(26);
        let d = match k {
            0..=2 => {
                let i = self.input(t, s);
                PDef { lhs: Some(self.output(t, s)), op: "COPY", ins: [Some(i), None, None] }
            }
            3..=8 => {
                let s = s.min(8);
                let op = *t.choose(&["INT_ADD", "INT_SUB", "INT_XOR", "INT_AND", "INT_OR", "INT_MULT", "INT_DIV", "INT_REM", "INT_SDIV", "INT_SREM", "INT_ADD", "INT_SUB"]);
                let a = self.input(t, s);
                let b = self.input(t, s);
                PDef { lhs: Some(self.output(t, s)), op, ins: [Some(a), Some(b), None] }
            }
            9 | 10 => {
                let s = s.min(8);
                let op = *t.choose(&["INT_LEFT", "INT_RIGHT", "INT_SRIGHT"]);
                let a = self.input(t, s);
                let bs = *t.choose(&[s, 1, 4, 8]);
                let b = if t.prob(160) { PVar::Const { val: t.below(8 * s + 2) as u128, size: bs } } else { self.input(t, bs) };
                PDef { lhs: Some(self.output(t, s)), op, ins: [Some(a), Some(b), None] }
            }
            11..=13 => {
                let s = s.min(8);
                let op = *t.choose(&["INT_EQUAL", "INT_NOTEQUAL", "INT_LESS", "INT_SLESS", "INT_LESSEQUAL", "INT_SLESSEQUAL", "INT_CARRY", "INT_SCARRY", "INT_SBORROW"]);
                let a = self.input(t, s);
                let b = self.input(t, s);
                PDef { lhs: Some(self.bool_output(t)), op, ins: [Some(a), Some(b), None] }
            }
            14 => {
                let op = *t.choose(&["BOOL_AND", "BOOL_OR", "BOOL_XOR"]);
                let a = self.bool_input(t);
                let b = self.bool_input(t);
                PDef { lhs: Some(self.bool_output(t)), op, ins: [Some(a), Some(b), None] }
            }
            15 => {
                let a = self.bool_input(t);
                PDef { lhs: Some(self.bool_output(t)), op: "BOOL_NEGATE", ins: [Some(a), None, None] }
            }
            16 => {
                let s = s.min(8);
                let op = *t.choose(&["INT_NEGATE", "INT_2COMP"]);
                let a = self.input(t, s);
                PDef { lhs: Some(self.output(t, s)), op, ins: [Some(a), None, None] }
            }
            17 | 18 => {
                // extension: out strictly larger
                let is = *t.choose(&[1usize, 2, 4, 8]);
                let os: Vec<usize> = [2usize, 4, 8, 16].iter().copied().filter(|x| *x > is).collect();
                let osz = *t.choose(&os);
                let a = self.input(t, is);
                PDef { lhs: Some(self.output(t, osz)), op: if t.flag() { "INT_ZEXT" } else { "INT_SEXT" }, ins: [Some(a), None, None] }
            }
            19 => {
                let is = *t.choose(&[8usize, 4, 2, 1]);
                let osz = *t.choose(&[8usize, 4, 1, 2]);
                let a = self.input(t, is);
                PDef { lhs: Some(self.output(t, osz)), op: if t.flag() { "POPCOUNT" } else { "LZCOUNT" }, ins: [Some(a), None, None] }
            }
            20 => {
                // SUBPIECE
                let is = *t.choose(&[8usize, 16, 4, 2]);
                let osz = *t.choose(&[1usize, 2, 4, 8].iter().copied().filter(|x| *x < is).collect::<Vec<_>>());
                let low = t.below(is - osz + 1);
                let a = self.input(t, is);
                PDef { lhs: Some(self.output(t, osz)), op: "SUBPIECE", ins: [Some(a), Some(PVar::Const { val: low as u128, size: 4 }), None] }
            }
            21 => {
                // PIECE
                let hs = *t.choose(&[4usize, 1, 2, 8]);
                let ls = *t.choose(&[hs, 1, 2, 4, 8]);
                let (hs, ls) = if [2, 4, 8, 16].contains(&(hs + ls)) { (hs, ls) } else { (hs, hs) };
                let a = self.input(t, hs);
                let b = self.input(t, ls);
                PDef { lhs: Some(self.output(t, hs + ls)), op: "PIECE", ins: [Some(a), Some(b), None] }
            }
            22 | 23 => {
                let s = s.min(8);
                let a = self.addr_input(t);
                self.feat("load");
                // LOAD results go to registers or temporaries (Ghidra never loads memory-to-memory)
                let mut o = self.output(t, s);
                if matches!(o, PVar::Ram { .. }) {
                    o = self.temp_out(t, s);
                }
                PDef { lhs: Some(o), op: "LOAD", ins: [Some(PVar::Const { val: 0x1b1, size: 8 }), Some(a), None] }
            }
            _ => {
                let s = s.min(8);
                let a = self.addr_input(t);
                let v = self.input(t, s);
                self.feat("store");
                PDef { lhs: None, op: "STORE", ins: [Some(PVar::Const { val: 0x1b1, size: 8 }), Some(a), Some(v)] }
            }
        };
        // cast-to-base idiom after a write to a named sub-register
        let mut cast: Option<PDef> = None;
        if let Some(PVar::Reg { name, size }) = &d.lhs {
            let e = self.table.get(name).clone();
            if e.name != e.base && *size == e.size && t.prob(110) {
                let base = self.table.get(&e.base).clone();
                let op = *t.choose(&["INT_ZEXT", "INT_SEXT", "INT_ZEXT", "POPCOUNT"]);
                // output: the full base register; rarely a same-name smaller varnode of the base
                let out_size = if t.prob(26) && base.size / 2 > e.size { base.size / 2 } else { base.size };
                if out_size > e.size || op == "POPCOUNT" {
                    cast = Some(PDef { lhs: Some(PVar::Reg { name: base.name.clone(), size: out_size }), op, ins: [Some(PVar::Reg { name: e.name.clone(), size: e.size }), None, None] });
                    self.feat(if out_size == base.size { "cast-to-base" } else { "cast-to-same-name-smaller" });
                    if e.lsb > 0 {
                        self.feat("cast-to-base-from-lsb>0");
                    }
                    if d.op == "LOAD" {
                        self.feat("cast-to-base-after-load");
                    }
                }
            }
        }
        out.push(d);
        if let Some(c) = cast {
            out.push(c);
        }
    }

    pub fn jump_var(&mut self, t: &mut Tape, allow_ram: bool) -> PVar {
        match t.below(4) {
            0 if allow_ram => {
                self.feat("jump-through-ram");
                PVar::Ram { addr: self.ram_base + 8 * t.below(6) as u64, size: 8 }
            }
            _ => {
                let v = self.input(t, 8);
                match v {
                    PVar::Ram { .. } | PVar::Const { .. } => PVar::Reg { name: self.table.sp.clone(), size: 8 },
                    v => v,
                }
            }
        }
    }
}

// ------------------------------------------------------------------------------------------
// Reference interpreter

pub struct PState {
    pub base: BTreeMap<String, Vec<u8>>,
    pub st: State,
}

#[derive(Clone, Debug, PartialEq, Eq)]
pub enum PExit {
    Goto(String),
    Indirect(u128),
    Return(u128),
    Call { target: String, ret: Option<String> },
    CallInd { target: u128, ret: Option<String> },
    CallOther { desc: String, ret: Option<String> },
    FallOff,
}

impl PState {
    pub fn new(table: &RegTable, mem_seed: u64) -> PState {
        let mut base = BTreeMap::new();
        for b in table.bases() {
            base.insert(b.name.clone(), vec![0u8; b.size]);
        }
        PState { base, st: State::new(mem_seed) }
    }
    pub fn set_base(&mut self, name: &str, v: u128) {
        let b = self.base.get_mut(name).expect("base");
        for (i, x) in b.iter_mut().enumerate() {
            *x = if i < 16 { (v >> (8 * i)) as u8 } else { 0 };
        }
    }
    pub fn get_base(&self, name: &str) -> u128 {
        let b = &self.base[name];
        let mut v = 0u128;
        for (i, x) in b.iter().enumerate().take(16) {
            v |= (*x as u128) << (8 * i);
        }
        v
    }
    pub fn read(&mut self, table: &RegTable, v: &PVar, events: &mut Vec<Event>) -> V {
        match v {
            PVar::Const { val, size } => rs::val(*val, *size),
            PVar::Temp { name, size } => match self.st.vars.get(name) {
                Some(x) => rs::val(x.v, *size),
                None => rs::val(0, *size),
            },
            PVar::Ram { addr, size } => {
                let x = self.st.read_mem(*addr, *size);
                events.push(Event::Read { addr: *addr, size: *size, val: x });
                rs::val(x, *size)
            }
            PVar::Reg { name, size } => {
                let e = table.get(name);
                assert!(*size <= e.size);
                let b = &self.base[&e.base];
                let mut x = 0u128;
                for i in 0..*size {
                    x |= (b[e.lsb + i] as u128) << (8 * i);
                }
                rs::val(x, *size)
            }
        }
    }
    pub fn write(&mut self, table: &RegTable, v: &PVar, x: V, events: &mut Vec<Event>) {
        match v {
            PVar::Const { .. } => panic!("write to constant"),
            PVar::Temp { name, size } => {
                self.st.vars.insert(name.clone(), rs::val(x.v, *size));
            }
            PVar::Ram { addr, size } => {
                self.st.write_mem(*addr, *size, x.v);
                events.push(Event::Write { addr: *addr, size: *size, val: x.v & rs::mask(*size) });
            }
            PVar::Reg { name, size } => {
                let e = table.get(name);
                assert!(*size <= e.size);
                let b = self.base.get_mut(&e.base).expect("base");
                for i in 0..*size {
                    b[e.lsb + i] = (x.v >> (8 * i)) as u8;
                }
            }
        }
    }
}

fn total(r: R) -> V {
    match r {
        R::Val(v) => v,
        R::Undef(w) | R::Float(w) => rs::val(0, w),
    }
}

pub fn exec_def(table: &RegTable, st: &mut PState, d: &PDef, events: &mut Vec<Event>) {
    use cwe_checker_lib::intermediate_representation::{BinOpType as B, CastOpType as C, UnOpType as U};
    let bin = |n: &str| -> Option<B> {
        Some(match n {
            "PIECE" => B::Piece,
            "INT_EQUAL" => B::IntEqual,
            "INT_NOTEQUAL" => B::IntNotEqual,
            "INT_LESS" => B::IntLess,
            "INT_SLESS" => B::IntSLess,
            "INT_LESSEQUAL" => B::IntLessEqual,
            "INT_SLESSEQUAL" => B::IntSLessEqual,
            "INT_ADD" => B::IntAdd,
            "INT_SUB" => B::IntSub,
            "INT_CARRY" => B::IntCarry,
            "INT_SCARRY" => B::IntSCarry,
            "INT_SBORROW" => B::IntSBorrow,
            "INT_XOR" => B::IntXOr,
            "INT_AND" => B::IntAnd,
            "INT_OR" => B::IntOr,
            "INT_LEFT" => B::IntLeft,
            "INT_RIGHT" => B::IntRight,
            "INT_SRIGHT" => B::IntSRight,
            "INT_MULT" => B::IntMult,
            "INT_DIV" => B::IntDiv,
            "INT_REM" => B::IntRem,
            "INT_SDIV" => B::IntSDiv,
            "INT_SREM" => B::IntSRem,
            "BOOL_XOR" => B::BoolXOr,
            "BOOL_AND" => B::BoolAnd,
            "BOOL_OR" => B::BoolOr,
            _ => return None,
        })
    };
    let out_size = d.lhs.as_ref().map(|l| l.size()).unwrap_or(0);
    match d.op {
        "STORE" => {
            let a = st.read(table, d.ins[1].as_ref().unwrap(), events).v as u64;
            let v = st.read(table, d.ins[2].as_ref().unwrap(), events);
            st.st.write_mem(a, v.w, v.v);
            events.push(Event::Write { addr: a, size: v.w, val: v.v });
        }
        "LOAD" => {
            let a = st.read(table, d.ins[1].as_ref().unwrap(), events).v as u64;
            let x = st.st.read_mem(a, out_size);
            events.push(Event::Read { addr: a, size: out_size, val: x });
            st.write(table, d.lhs.as_ref().unwrap(), rs::val(x, out_size), events);
        }
        "COPY" => {
            let v = st.read(table, d.ins[0].as_ref().unwrap(), events);
            st.write(table, d.lhs.as_ref().unwrap(), v, events);
        }
        "SUBPIECE" => {
            let v = st.read(table, d.ins[0].as_ref().unwrap(), events);
            let low = match d.ins[1].as_ref().unwrap() {
                PVar::Const { val, .. } => *val as usize,
                _ => panic!("subpiece low must be constant"),
            };
            st.write(table, d.lhs.as_ref().unwrap(), rs::subpiece(v, low, out_size), events);
        }
        "INT_ZEXT" | "INT_SEXT" | "POPCOUNT" | "LZCOUNT" => {
            let v = st.read(table, d.ins[0].as_ref().unwrap(), events);
            let op = match d.op {
                "INT_ZEXT" => C::IntZExt,
                "INT_SEXT" => C::IntSExt,
                "POPCOUNT" => C::PopCount,
                _ => C::LzCount,
            };
            st.write(table, d.lhs.as_ref().unwrap(), total(rs::cast(op, v, out_size)), events);
        }
        "INT_NEGATE" | "INT_2COMP" | "BOOL_NEGATE" => {
            let v = st.read(table, d.ins[0].as_ref().unwrap(), events);
            let op = match d.op {
                "INT_NEGATE" => U::IntNegate,
                "INT_2COMP" => U::Int2Comp,
                _ => U::BoolNegate,
            };
            st.write(table, d.lhs.as_ref().unwrap(), total(rs::un(op, v)), events);
        }
        n => {
            let op = bin(n).unwrap_or_else(|| panic!("unknown mnemonic {}", n));
            let a = st.read(table, d.ins[0].as_ref().unwrap(), events);
            let b = st.read(table, d.ins[1].as_ref().unwrap(), events);
            st.write(table, d.lhs.as_ref().unwrap(), total(rs::bin(op, a, b)), events);
        }
    }
}

pub fn exec_block(table: &RegTable, st: &mut PState, b: &PBlk) -> (Vec<Event>, PExit) {
    let mut events = vec![];
    for d in &b.defs {
        exec_def(table, st, d, &mut events);
    }
    for j in &b.jmps {
        match j {
            PJmp::Branch(t) => return (events, PExit::Goto(t.clone())),
            PJmp::CBranch { target, cond } => {
                if st.read(table, cond, &mut events).v != 0 {
                    return (events, PExit::Goto(target.clone()));
                }
            }
            PJmp::BranchInd(v, _) => {
                let x = st.read(table, v, &mut events).v;
                return (events, PExit::Indirect(x));
            }
            PJmp::Return(v) => {
                let x = st.read(table, v, &mut events).v;
                return (events, PExit::Return(x));
            }
            PJmp::Call { target, ret } => return (events, PExit::Call { target: target.clone(), ret: ret.clone() }),
            PJmp::CallInd { target, ret } => {
                let x = st.read(table, target, &mut events).v;
                return (events, PExit::CallInd { target: x, ret: ret.clone() });
            }
            PJmp::CallOther { desc, ret } => return (events, PExit::CallOther { desc: desc.clone(), ret: ret.clone() }),
        }
    }
    (events, PExit::FallOff)
}
