use vharness::checks;
use vharness::engine::{read_replay, Engine, Mode, Tier};

fn usage() -> ! {
    eprintln!("usage: vcheck <ID> [--tier quick|thorough] [--seed N] [--replay FILE] [--no-regress]");
    std::process::exit(2);
}

fn main() {
    // anyhow captures a backtrace for every error when RUST_BACKTRACE is set, which makes
    // the (frequent, expected) Err results of the code under test ~20x slower.
    std::env::remove_var("RUST_BACKTRACE");
    std::env::remove_var("RUST_LIB_BACKTRACE");
    let args: Vec<String> = std::env::args().skip(1).collect();
    if args.is_empty() {
        usage();
    }
    let id = args[0].clone();
    let mut tier = match std::env::var("VERIF_TIER").ok().as_deref() {
        Some("thorough") => Tier::Thorough,
        _ => Tier::Quick,
    };
    let mut seed: u64 = std::env::var("VERIF_SEED").ok().and_then(|s| s.trim().parse::<i64>().ok()).map(|x| x as u64).unwrap_or(1);
    let mut replay: Option<String> = None;
    let mut regress = true;
    let mut audit = false;
    let mut i = 1;
    while i < args.len() {
        match args[i].as_str() {
            "--tier" => {
                i += 1;
                tier = match args.get(i).map(|s| s.as_str()) {
                    Some("quick") => Tier::Quick,
                    Some("thorough") => Tier::Thorough,
                    _ => usage(),
                }
            }
            "--seed" => {
                i += 1;
                seed = args.get(i).and_then(|s| s.parse::<i64>().ok()).map(|x| x as u64).unwrap_or_else(|| usage());
            }
            "--replay" => {
                i += 1;
                replay = Some(args.get(i).cloned().unwrap_or_else(|| usage()));
            }
            "--no-regress" => regress = false,
            "--audit-regress" => audit = true,
            "--from-artifact" => {
                // vcheck <ID> --from-artifact <target> <file>: convert a libFuzzer artifact into a replay file and replay it
                let target = args.get(i + 1).cloned().unwrap_or_else(|| usage());
                let file = args.get(i + 2).cloned().unwrap_or_else(|| usage());
                i += 2;
                let data = std::fs::read(&file).unwrap_or_else(|_| usage());
                let (aid, section, tape) = vharness::fuzz::split(&target, &data);
                if aid != id {
                    eprintln!("artifact of target {} belongs to {}", target, aid);
                    std::process::exit(2);
                }
                let dir = format!("{}/replays/{}", vharness::engine::verif_dir(), id);
                let _ = std::fs::create_dir_all(&dir);
                let path = format!("{}/fuzz-{}-{:016x}.json", dir, target, vharness::tape::fnv(&data));
                let v = serde_json::json!({"property": id, "section": section, "tape": vharness::tape::hex(tape), "index": null,
                    "signature": "(from libFuzzer artifact)", "detail": "", "case": "", "seed": seed, "tier": "thorough"});
                std::fs::write(&path, serde_json::to_string_pretty(&v).unwrap()).expect("write replay");
                replay = Some(path);
            }
            _ => usage(),
        }
        i += 1;
    }
    let run = match checks::dispatch(&id) {
        Some(r) => r,
        None => {
            eprintln!("unknown check id {}", id);
            std::process::exit(2);
        }
    };
    let mut eng = Engine::new(&id, tier, seed);
    if let Some(path) = replay {
        let (section, tape, index) = match read_replay(&path) {
            Some(r) => r,
            None => {
                eprintln!("cannot read replay file {}", path);
                std::process::exit(2);
            }
        };
        eng.replay_only = true;
        eng.mode = Mode::Replay { section, tape, index, path };
        run(&mut eng);
        if eng.replayed == 0 {
            eprintln!("replay file names a section this check does not have");
            std::process::exit(2);
        }
        std::process::exit(eng.finish());
    }
    if audit {
        // does every committed regress tape still decode into the case it was saved for?
        for (path, section, tape, index) in eng.regress_files() {
            let stored = std::fs::read_to_string(&path).ok().and_then(|t| serde_json::from_str::<serde_json::Value>(&t).ok()).and_then(|v| v["case"].as_str().map(|s| s.to_string())).unwrap_or_default();
            eng.audit_case = Some(stored);
            eng.replay_only = true;
            eng.quiet = true;
            eng.mode = Mode::Replay { section, tape, index, path };
            run(&mut eng);
        }
        for (p, same) in &eng.audit_out {
            println!("{} {}", if *same { "CURRENT" } else { "STALE  " }, p);
        }
        std::process::exit(0);
    }
    if regress {
        for (path, section, tape, index) in eng.regress_files() {
            eng.mode = Mode::Replay { section, tape, index, path };
            run(&mut eng);
        }
    }
    eng.mode = Mode::Run;
    run(&mut eng);
    std::process::exit(eng.finish());
}
