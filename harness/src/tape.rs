//! Byte tape: every structured generator is a pure decoder over a byte tape.
//! An exhausted tape yields zeros and every decoder maps 0 to its simplest choice,
//! so proptest's generic `Vec<u8>` shrinking (delete chunks, lower bytes) is
//! choice-sequence shrinking for all generators.

pub struct Tape<'a> {
    d: &'a [u8],
    p: usize,
}

/// Boundary table for integer draws, as signed values; interpreted per width.
fn boundary(idx: usize, bits: u32) -> u128 {
    let m: u128 = if bits >= 128 { u128::MAX } else { (1u128 << bits) - 1 };
    let min = 1u128 << (bits - 1);
    let max = min - 1;
    let t: [u128; 28] = [
        0,
        1,
        2,
        m,       // -1
        m - 1,   // -2
        min,     // MIN
        min + 1, // MIN+1
        max,     // MAX
        max - 1, // MAX-1
        3,
        4,
        7,
        8,
        15,
        16,
        0o177,
        0o200,
        0o777,
        1024,
        m - 1023, // -1024
        (bits / 8) as u128,
        bits as u128,
        (bits - 1) as u128,
        (bits + 1) as u128,
        min >> 1,
        (min >> 1).wrapping_sub(1),
        m - 2,
        min + 2,
    ];
    t[idx % t.len()] & m
}

impl<'a> Tape<'a> {
    pub fn new(d: &'a [u8]) -> Self {
        Tape { d, p: 0 }
    }
    pub fn exhausted(&self) -> bool {
        self.p >= self.d.len()
    }
    pub fn pos(&self) -> usize {
        self.p
    }
    pub fn byte(&mut self) -> u8 {
        let b = self.d.get(self.p).copied().unwrap_or(0);
        self.p += 1;
        b
    }
    pub fn u16(&mut self) -> u16 {
        let a = self.byte() as u16;
        let b = self.byte() as u16;
        a | (b << 8)
    }
    pub fn u32(&mut self) -> u32 {
        let a = self.u16() as u32;
        let b = self.u16() as u32;
        a | (b << 16)
    }
    pub fn u64(&mut self) -> u64 {
        let a = self.u32() as u64;
        let b = self.u32() as u64;
        a | (b << 32)
    }
    pub fn u128(&mut self) -> u128 {
        let a = self.u64() as u128;
        let b = self.u64() as u128;
        a | (b << 64)
    }
    /// Monotone index in 0..n (n >= 1); smaller bytes give smaller indices.
    pub fn below(&mut self, n: usize) -> usize {
        if n <= 1 {
            return 0;
        }
        if n <= 256 {
            (self.byte() as usize * n) >> 8
        } else if n <= 65536 {
            (self.u16() as usize * n) >> 16
        } else {
            ((self.u32() as u64 * n as u64) >> 32) as usize
        }
    }
    /// Inclusive range, monotone.
    pub fn range(&mut self, lo: i64, hi: i64) -> i64 {
        debug_assert!(hi >= lo);
        lo + self.below((hi - lo + 1) as usize) as i64
    }
    /// True with probability p/256; a zero byte gives false.
    pub fn prob(&mut self, p: u16) -> bool {
        let b = self.byte() as u16;
        b + p >= 256 && p > 0
    }
    pub fn flag(&mut self) -> bool {
        self.byte() & 1 == 1
    }
    pub fn choose<'b, T>(&mut self, xs: &'b [T]) -> &'b T {
        &xs[self.below(xs.len())]
    }
    /// Integer of `bytes` bytes (1..=16), boundary-biased (about 45 % from the boundary table,
    /// 15 % small, the rest uniform). Zero tape gives 0.
    pub fn int(&mut self, bytes: usize) -> u128 {
        let bits = (bytes * 8) as u32;
        let m: u128 = if bits >= 128 { u128::MAX } else { (1u128 << bits) - 1 };
        let sel = self.byte();
        if sel < 116 {
            boundary((sel as usize) % 29, bits)
        } else if sel < 154 {
            // small signed value in -16..=16
            let v = self.range(-16, 16);
            (v as i128 as u128) & m
        } else {
            let mut v: u128 = 0;
            for i in 0..bytes {
                v |= (self.byte() as u128) << (8 * i);
            }
            v & m
        }
    }
}

pub fn hex(d: &[u8]) -> String {
    let mut s = String::with_capacity(d.len() * 2);
    for b in d {
        s.push_str(&format!("{:02x}", b));
    }
    s
}

pub fn unhex(s: &str) -> Vec<u8> {
    let b = s.as_bytes();
    let mut v = Vec::with_capacity(b.len() / 2);
    let mut i = 0;
    while i + 1 < b.len() {
        let h = (b[i] as char).to_digit(16).unwrap_or(0) as u8;
        let l = (b[i + 1] as char).to_digit(16).unwrap_or(0) as u8;
        v.push((h << 4) | l);
        i += 2;
    }
    v
}

/// Deterministic 64-bit mixer (splitmix64) used for hashing cases and default memory contents.
pub fn mix64(mut z: u64) -> u64 {
    z = z.wrapping_add(0x9e3779b97f4a7c15);
    z = (z ^ (z >> 30)).wrapping_mul(0xbf58476d1ce4e5b9);
    z = (z ^ (z >> 27)).wrapping_mul(0x94d049bb133111eb);
    z ^ (z >> 31)
}

/// FNV-1a over bytes, for `distinct` hashing of canonical case forms.
pub fn fnv(data: &[u8]) -> u64 {
    let mut h: u64 = 0xcbf29ce484222325;
    for b in data {
        h ^= *b as u64;
        h = h.wrapping_mul(0x100000001b3);
    }
    h
}

/// Small deterministic PRNG (splitmix) for enumerator-side sampling. All seeds derive from VERIF_SEED.
#[derive(Clone)]
pub struct Sm(pub u64);
impl Sm {
    pub fn next(&mut self) -> u64 {
        self.0 = self.0.wrapping_add(0x9e3779b97f4a7c15);
        let mut z = self.0;
        z = (z ^ (z >> 30)).wrapping_mul(0xbf58476d1ce4e5b9);
        z = (z ^ (z >> 27)).wrapping_mul(0x94d049bb133111eb);
        z ^ (z >> 31)
    }
    pub fn below(&mut self, n: u64) -> u64 {
        if n == 0 {
            0
        } else {
            ((self.next() as u128 * n as u128) >> 64) as u64
        }
    }
    /// Fill a tape of the given length.
    pub fn tape(&mut self, len: usize) -> Vec<u8> {
        let mut v = Vec::with_capacity(len);
        while v.len() < len {
            let x = self.next();
            for i in 0..8 {
                if v.len() < len {
                    v.push((x >> (8 * i)) as u8);
                }
            }
        }
        v
    }
}
