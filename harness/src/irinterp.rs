//! Reference interpreter for the IR (Expression, Def, Jmp, Blk, Sub), independent of the
//! repository's evaluation code: integer semantics come from `refsem`.
//!
//! Total semantics: division/remainder by zero := 0, `Unknown` := 0, float ops := 0
//! (generators exclude float ops). Memory is a little-endian byte map with deterministic
//! default content `hash(addr, seed)`.

use crate::refsem::{self as rs, R, V};
use crate::tape::mix64;
use cwe_checker_lib::intermediate_representation::*;
use std::collections::BTreeMap;

#[derive(Clone, Debug)]
pub struct State {
    /// variable name -> (value, size in bytes)
    pub vars: BTreeMap<String, V>,
    pub mem: BTreeMap<u64, u8>,
    pub mem_seed: u64,
    /// Optional: abort the run on an access to an address in (-limit, limit) (signed)
    pub null_guard: Option<i128>,
    /// Optional: the only valid memory (half-open address ranges); any access that is not completely
    /// inside one range aborts the run (like a segmentation fault)
    pub valid_ranges: Option<Vec<(u64, u64)>>,
    /// Optional: address ranges (half-open) that count as ordinary memory; a load from any other address
    /// "poisons" its destination (the loaded value is outside what an analysis with an empty memory image
    /// models). Poison propagates through assignments, stores and loads; observers skip poisoned variables.
    pub unpoisoned_ranges: Option<Vec<(u64, u64)>>,
    pub poison_vars: std::collections::BTreeSet<String>,
    pub poison_mem: std::collections::BTreeSet<u64>,
}

#[derive(Clone, Debug, PartialEq, Eq, Hash)]
pub enum Event {
    Read { addr: u64, size: usize, val: u128 },
    Write { addr: u64, size: usize, val: u128 },
    Call { target: String, regs: Vec<u128> },
    CallInd { target: u128, regs: Vec<u128> },
    CallOther { desc: String, regs: Vec<u128> },
    BranchInd { target: u128 },
    Return { target: u128, regs: Vec<u128> },
    DeadEnd { regs: Vec<u128> },
}

impl Event {
    pub fn kind(&self) -> &'static str {
        match self {
            Event::Read { .. } => "read",
            Event::Write { .. } => "write",
            Event::Call { .. } => "call",
            Event::CallInd { .. } => "callind",
            Event::CallOther { .. } => "callother",
            Event::BranchInd { .. } => "branchind",
            Event::Return { .. } => "return",
            Event::DeadEnd { .. } => "deadend",
        }
    }
}

#[derive(Clone, Copy, Debug, PartialEq, Eq)]
pub enum Stop {
    /// the function ended with a terminal event (return, indirect jump, dead end, call without return)
    Finished,
    /// cut by the event or block budget
    Budget,
    /// aborted by the null guard
    NullAccess,
}

impl State {
    pub fn new(mem_seed: u64) -> State {
        State { vars: BTreeMap::new(), mem: BTreeMap::new(), mem_seed, null_guard: None, valid_ranges: None, unpoisoned_ranges: None, poison_vars: Default::default(), poison_mem: Default::default() }
    }
    pub fn set(&mut self, name: &str, v: u128, size: usize) {
        self.vars.insert(name.to_string(), rs::val(v, size));
    }
    pub fn get(&self, var: &Variable) -> V {
        let size = u64::from(var.size) as usize;
        match self.vars.get(&var.name) {
            Some(v) => rs::val(v.v, size),
            None => rs::val(0, size),
        }
    }
    pub fn default_byte(&self, addr: u64) -> u8 {
        (mix64(addr ^ self.mem_seed.rotate_left(17)) & 0xff) as u8
    }
    pub fn read_mem(&self, addr: u64, size: usize) -> u128 {
        let mut v: u128 = 0;
        for i in 0..size.min(16) {
            let a = addr.wrapping_add(i as u64);
            let b = self.mem.get(&a).copied().unwrap_or_else(|| self.default_byte(a));
            v |= (b as u128) << (8 * i);
        }
        v
    }
    pub fn write_mem(&mut self, addr: u64, size: usize, val: u128) {
        for i in 0..size.min(16) {
            self.mem.insert(addr.wrapping_add(i as u64), (val >> (8 * i)) as u8);
        }
    }
    pub fn eval(&self, e: &Expression) -> V {
        match e {
            Expression::Var(v) => self.get(v),
            Expression::Const(c) => crate::conv::to_v(c),
            Expression::BinOp { op, lhs, rhs } => {
                let a = self.eval(lhs);
                let b = self.eval(rhs);
                match rs::bin(*op, a, b) {
                    R::Val(v) => v,
                    R::Undef(w) | R::Float(w) => rs::val(0, w),
                }
            }
            Expression::UnOp { op, arg } => {
                let a = self.eval(arg);
                match rs::un(*op, a) {
                    R::Val(v) => v,
                    R::Undef(w) | R::Float(w) => rs::val(0, w),
                }
            }
            Expression::Cast { op, size, arg } => {
                let a = self.eval(arg);
                let w = u64::from(*size) as usize;
                match rs::cast(*op, a, w) {
                    R::Val(v) => v,
                    R::Undef(w) | R::Float(w) => rs::val(0, w),
                }
            }
            Expression::Unknown { size, .. } => rs::val(0, u64::from(*size) as usize),
            Expression::Subpiece { low_byte, size, arg } => {
                let a = self.eval(arg);
                rs::subpiece(a, u64::from(*low_byte) as usize, u64::from(*size) as usize)
            }
        }
    }
}

pub struct Limits {
    pub max_events: usize,
    pub max_blocks: usize,
}

pub struct Run {
    pub events: Vec<Event>,
    pub stop: Stop,
    /// block tids in execution order
    pub blocks: Vec<String>,
    /// return-site blocks entered through the return of a `CallOther` jump
    pub callother_returns: Vec<String>,
}

/// What to do after a call returns: deterministic havoc of all registers and temporaries.
fn havoc(state: &mut State, regs: &[Variable], event_index: usize, keep: &[String]) {
    let names: Vec<(String, usize)> = state.vars.iter().map(|(k, v)| (k.clone(), v.w)).collect();
    for (name, w) in names {
        if keep.contains(&name) {
            continue;
        }
        let h = mix64(crate::tape::fnv(name.as_bytes()) ^ (event_index as u64).wrapping_mul(0x9e3779b97f4a7c15));
        let v = if w == 1 { (h & 1) as u128 } else { ((h as u128) << 64 | mix64(h) as u128) & rs::mask(w) };
        state.vars.insert(name, rs::val(v, w));
    }
    for r in regs {
        if keep.contains(&r.name) {
            continue;
        }
        if !state.vars.contains_key(&r.name) {
            let w = u64::from(r.size) as usize;
            let h = mix64(crate::tape::fnv(r.name.as_bytes()) ^ (event_index as u64).wrapping_mul(0x9e3779b97f4a7c15));
            let v = if w == 1 { (h & 1) as u128 } else { ((h as u128) << 64 | mix64(h) as u128) & rs::mask(w) };
            state.vars.insert(r.name.clone(), rs::val(v, w));
        }
    }
}

/// Values of the physical registers in the order of `regs`.
pub fn reg_snapshot(state: &State, regs: &[Variable]) -> Vec<u128> {
    regs.iter().map(|r| state.get(r).v).collect()
}

/// Render an event with register names.
pub fn show_event(e: &Event, regs: &[Variable]) -> String {
    let named = |vals: &Vec<u128>| -> String {
        regs.iter().zip(vals.iter()).map(|(r, v)| format!("{}={:x}", r.name, v)).collect::<Vec<_>>().join(" ")
    };
    match e {
        Event::Read { addr, size, val } => format!("Read [{:x}]:{} -> {:x}", addr, size, val),
        Event::Write { addr, size, val } => format!("Write [{:x}]:{} <- {:x}", addr, size, val),
        Event::Call { target, regs } => format!("Call {} with {}", target, named(regs)),
        Event::CallInd { target, regs } => format!("CallInd {:x} with {}", target, named(regs)),
        Event::CallOther { desc, regs } => format!("CallOther {} with {}", desc, named(regs)),
        Event::BranchInd { target } => format!("BranchInd {:x}", target),
        Event::Return { target, regs } => format!("Return to {:x} with {}", target, named(regs)),
        Event::DeadEnd { regs } => format!("DeadEnd with {}", named(regs)),
    }
}

/// Callbacks for observers (e.g. C13 checks the abstract state at every block arrival).
pub trait Observer {
    /// Called on arrival at a block, before its defs run. Return false to stop the run.
    fn at_block(&mut self, _blk: &Term<Blk>, _state: &State) -> bool {
        true
    }
    /// Called for every executed `Load`/`Store` with the evaluated address, before the access happens.
    fn at_access(&mut self, _def: &Term<Def>, _addr: u64, _size: usize, _state: &State) {}
    /// Called for `Jmp::CallInd` with a return site, after the call event was recorded.
    fn at_call_ind(&mut self, _call: &Term<Jmp>, _target: u128, _state: &mut State) -> CallAction {
        CallAction::Default
    }
    /// Called for `Jmp::Call` with a return site, after the call event was recorded.
    fn at_call(&mut self, _call: &Term<Jmp>, _target: &Tid, _state: &mut State) -> CallAction {
        CallAction::Default
    }
}
/// What an observer decided about a direct call that has a return site.
pub enum CallAction {
    /// the interpreter havocs registers and temporaries and continues at the return site
    Default,
    /// the observer applied the effect of the call to the state itself; continue at the return site
    Handled,
    /// stop the run (budget / the callee did not return properly)
    Stop,
}
pub struct NoObserver;
impl Observer for NoObserver {}

/// Execute `sub` from `state`. `regs` = physical registers (snapshot + havoc set).
/// `havoc_keep` = registers that survive calls unchanged (empty for the strongest adversary).
pub fn run_sub(sub: &Term<Sub>, state: &mut State, regs: &[Variable], limits: &Limits, havoc_keep: &[String], obs: &mut dyn Observer) -> Run {
    let mut events: Vec<Event> = vec![];
    let mut blocks_run: Vec<String> = vec![];
    let mut co_returns: Vec<String> = vec![];
    let blocks: BTreeMap<&Tid, &Term<Blk>> = sub.term.blocks.iter().map(|b| (&b.tid, b)).collect();
    let mut cur: &Term<Blk> = match sub.term.blocks.first() {
        Some(b) => b,
        None => return Run { events, stop: Stop::Finished, blocks: blocks_run, callother_returns: co_returns },
    };
    let mut nblocks = 0usize;
    let ptr_null_only = |state: &State, addr: u64| -> bool {
        if let Some(limit) = state.null_guard {
            let s = addr as i64 as i128;
            s > -limit && s < limit
        } else {
            false
        }
    };
    let invalid = |state: &State, addr: u64, size: usize| -> bool {
        match &state.valid_ranges {
            Some(rs) => !rs.iter().any(|(lo, hi)| addr >= *lo && addr.checked_add(size as u64).map(|e| e <= *hi).unwrap_or(false)),
            None => false,
        }
    };
    loop {
        nblocks += 1;
        if nblocks > limits.max_blocks || events.len() >= limits.max_events {
            return Run { events, stop: Stop::Budget, blocks: blocks_run, callother_returns: co_returns };
        }
        blocks_run.push(format!("{}", cur.tid));
        if !obs.at_block(cur, state) {
            return Run { events, stop: Stop::Budget, blocks: blocks_run, callother_returns: co_returns };
        }
        for def in &cur.term.defs {
            match &def.term {
                Def::Assign { var, value } => {
                    let v = state.eval(value);
                    let w = u64::from(var.size) as usize;
                    state.vars.insert(var.name.clone(), rs::val(v.v, w));
                    if state.unpoisoned_ranges.is_some() {
                        if value.input_vars().iter().any(|x| state.poison_vars.contains(&x.name)) {
                            state.poison_vars.insert(var.name.clone());
                        } else {
                            state.poison_vars.remove(&var.name);
                        }
                    }
                }
                Def::Load { var, address } => {
                    let a = state.eval(address).v as u64;
                    let w = u64::from(var.size) as usize;
                    obs.at_access(def, a, w, state);
                    if let Some(rs_) = &state.unpoisoned_ranges {
                        let ordinary = rs_.iter().any(|(lo, hi)| a >= *lo && a.wrapping_add(w as u64) <= *hi);
                        let tainted = !ordinary || (0..w as u64).any(|i| state.poison_mem.contains(&a.wrapping_add(i))) || address.input_vars().iter().any(|x| state.poison_vars.contains(&x.name));
                        if tainted {
                            state.poison_vars.insert(var.name.clone());
                        } else {
                            state.poison_vars.remove(&var.name);
                        }
                    }
                    if ptr_null_only(state, a) || invalid(state, a, w) {
                        return Run { events, stop: Stop::NullAccess, blocks: blocks_run, callother_returns: co_returns };
                    }
                    let v = state.read_mem(a, w);
                    events.push(Event::Read { addr: a, size: w, val: v });
                    state.vars.insert(var.name.clone(), rs::val(v, w));
                }
                Def::Store { address, value } => {
                    let a = state.eval(address).v as u64;
                    let v = state.eval(value);
                    obs.at_access(def, a, v.w, state);
                    if ptr_null_only(state, a) || invalid(state, a, v.w) {
                        return Run { events, stop: Stop::NullAccess, blocks: blocks_run, callother_returns: co_returns };
                    }
                    if state.unpoisoned_ranges.is_some() {
                        let tainted = value.input_vars().iter().any(|x| state.poison_vars.contains(&x.name)) || address.input_vars().iter().any(|x| state.poison_vars.contains(&x.name));
                        for i in 0..v.w as u64 {
                            if tainted {
                                state.poison_mem.insert(a.wrapping_add(i));
                            } else {
                                state.poison_mem.remove(&a.wrapping_add(i));
                            }
                        }
                    }
                    state.write_mem(a, v.w, v.v);
                    events.push(Event::Write { addr: a, size: v.w, val: v.v });
                }
            }
        }
        // jumps
        let mut next: Option<&Tid> = None;
        let mut terminal = true;
        for jmp in &cur.term.jmps {
            match &jmp.term {
                Jmp::Branch(t) => {
                    next = Some(t);
                    terminal = false;
                    break;
                }
                Jmp::CBranch { target, condition } => {
                    if state.eval(condition).v != 0 {
                        next = Some(target);
                        terminal = false;
                        break;
                    }
                }
                Jmp::BranchInd(e) => {
                    // The jump target value is observable. Registers are only compared where the
                    // property demands it: if the block has no target hints it is a dead end of
                    // the control flow graph; if the value is the address of a hinted block the run
                    // continues there; otherwise the run stops without a register comparison.
                    let v = state.eval(e).v;
                    events.push(Event::BranchInd { target: v });
                    if cur.term.indirect_jmp_targets.is_empty() {
                        events.push(Event::DeadEnd { regs: reg_snapshot(state, regs) });
                        return Run { events, stop: Stop::Finished, blocks: blocks_run, callother_returns: co_returns };
                    }
                    let hit = cur.term.indirect_jmp_targets.iter().find(|t| u128::from_str_radix(t.address.trim_start_matches("0x"), 16).ok() == Some(v));
                    match hit {
                        Some(t) => {
                            next = Some(t);
                            terminal = false;
                            break;
                        }
                        None => return Run { events, stop: Stop::Finished, blocks: blocks_run, callother_returns: co_returns },
                    }
                }
                Jmp::Return(e) => {
                    let v = state.eval(e).v;
                    events.push(Event::Return { target: v, regs: reg_snapshot(state, regs) });
                    return Run { events, stop: Stop::Finished, blocks: blocks_run, callother_returns: co_returns };
                }
                Jmp::Call { target, return_ } => {
                    events.push(Event::Call { target: format!("{}", target), regs: reg_snapshot(state, regs) });
                    match return_ {
                        Some(r) => {
                            match obs.at_call(jmp, target, state) {
                                CallAction::Default => havoc(state, regs, events.len(), havoc_keep),
                                CallAction::Handled => {}
                                CallAction::Stop => return Run { events, stop: Stop::Budget, blocks: blocks_run, callother_returns: co_returns },
                            }
                            next = Some(r);
                            terminal = false;
                        }
                        None => return Run { events, stop: Stop::Finished, blocks: blocks_run, callother_returns: co_returns },
                    }
                    break;
                }
                Jmp::CallInd { target, return_ } => {
                    let v = state.eval(target).v;
                    events.push(Event::CallInd { target: v, regs: reg_snapshot(state, regs) });
                    match return_ {
                        Some(r) => {
                            match obs.at_call_ind(jmp, v, state) {
                                CallAction::Default => havoc(state, regs, events.len(), havoc_keep),
                                CallAction::Handled => {}
                                CallAction::Stop => return Run { events, stop: Stop::Budget, blocks: blocks_run, callother_returns: co_returns },
                            }
                            next = Some(r);
                            terminal = false;
                        }
                        None => return Run { events, stop: Stop::Finished, blocks: blocks_run, callother_returns: co_returns },
                    }
                    break;
                }
                Jmp::CallOther { description, return_ } => {
                    events.push(Event::CallOther { desc: description.clone(), regs: reg_snapshot(state, regs) });
                    match return_ {
                        Some(r) => {
                            co_returns.push(format!("{}", r));
                            havoc(state, regs, events.len(), havoc_keep);
                            next = Some(r);
                            terminal = false;
                        }
                        None => return Run { events, stop: Stop::Finished, blocks: blocks_run, callother_returns: co_returns },
                    }
                    break;
                }
            }
        }
        if terminal {
            events.push(Event::DeadEnd { regs: reg_snapshot(state, regs) });
            return Run { events, stop: Stop::Finished, blocks: blocks_run, callother_returns: co_returns };
        }
        match next.and_then(|t| blocks.get(t)) {
            Some(b) => cur = b,
            None => {
                // target outside the function: dead end
                events.push(Event::DeadEnd { regs: reg_snapshot(state, regs) });
                return Run { events, stop: Stop::Finished, blocks: blocks_run, callother_returns: co_returns };
            }
        }
    }
}


/// How a single block ends (used by block-level differential checks).
#[derive(Clone, Debug, PartialEq, Eq)]
pub enum BlockExit {
    Goto(String),
    Indirect(u128),
    Return(u128),
    Call { target: String, ret: Option<String> },
    CallInd { target: u128, ret: Option<String> },
    CallOther { desc: String, ret: Option<String> },
    FallOff,
}

/// Execute the defs and evaluate the jumps of one block.
pub fn run_block(blk: &Term<Blk>, state: &mut State) -> (Vec<Event>, BlockExit) {
    let mut events = vec![];
    for def in &blk.term.defs {
        match &def.term {
            Def::Assign { var, value } => {
                let v = state.eval(value);
                let w = u64::from(var.size) as usize;
                state.vars.insert(var.name.clone(), rs::val(v.v, w));
            }
            Def::Load { var, address } => {
                let a = state.eval(address).v as u64;
                let w = u64::from(var.size) as usize;
                let v = state.read_mem(a, w);
                events.push(Event::Read { addr: a, size: w, val: v });
                state.vars.insert(var.name.clone(), rs::val(v, w));
            }
            Def::Store { address, value } => {
                let a = state.eval(address).v as u64;
                let v = state.eval(value);
                state.write_mem(a, v.w, v.v);
                events.push(Event::Write { addr: a, size: v.w, val: v.v });
            }
        }
    }
    let t = |o: &Option<Tid>| o.as_ref().map(|t| format!("{}", t));
    for jmp in &blk.term.jmps {
        match &jmp.term {
            Jmp::Branch(tg) => return (events, BlockExit::Goto(format!("{}", tg))),
            Jmp::CBranch { target, condition } => {
                if state.eval(condition).v != 0 {
                    return (events, BlockExit::Goto(format!("{}", target)));
                }
            }
            Jmp::BranchInd(e) => return (events, BlockExit::Indirect(state.eval(e).v)),
            Jmp::Return(e) => return (events, BlockExit::Return(state.eval(e).v)),
            Jmp::Call { target, return_ } => return (events, BlockExit::Call { target: format!("{}", target), ret: t(return_) }),
            Jmp::CallInd { target, return_ } => return (events, BlockExit::CallInd { target: state.eval(target).v, ret: t(return_) }),
            Jmp::CallOther { description, return_ } => return (events, BlockExit::CallOther { desc: description.clone(), ret: t(return_) }),
        }
    }
    (events, BlockExit::FallOff)
}
