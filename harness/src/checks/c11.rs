//! C11 — lifting P-Code to the IR preserves behaviour (block-level differential:
//! own P-Code interpreter vs own IR interpreter on the lifted block).
//! C12 — lifted and normalized IR is size-consistent (own typing walk) lives in c12.rs and
//! reuses the generator of this file.

use crate::engine::{cut, CaseResult, Ctx, Engine, RandomSpec};
use crate::irinterp::{run_block, BlockExit, Event, State};
use crate::pcode::*;
use crate::tape::{fnv, Tape};
use cwe_checker_lib::intermediate_representation as ir;
use serde_json::Value;

pub struct Case {
    pub table: RegTable,
    pub block: PBlk,
    /// per state: base register values + memory seed
    pub states: Vec<(Vec<(String, u128)>, u64)>,
    pub features: Vec<&'static str>,
}

pub fn gen_jumps(g: &mut BlockGen, t: &mut Tape, targets: &[String], subs: &[String], allow_empty: bool) -> Vec<PJmp> {
    let tg = |t: &mut Tape| targets[t.below(targets.len())].clone();
    match t.below(if allow_empty { 12 } else { 11 }) {
        0 | 1 => vec![PJmp::Branch(tg(t))],
        2..=4 => {
            // condition: flag register, boolean temporary or a sub-register byte holding 0/1
            let cond = g.bool_input(t);
            let cond = match cond {
                PVar::Const { .. } => PVar::Reg { name: g.table.flags[0].clone(), size: 1 },
                c => c,
            };
            vec![PJmp::CBranch { target: tg(t), cond }, PJmp::Branch(tg(t))]
        }
        5 => {
            let v = g.jump_var(t, true);
            let nh = t.below(3);
            let hints = (0..nh).map(|_| tg(t)).collect();
            vec![PJmp::BranchInd(v, hints)]
        }
        6 => {
            let v = g.jump_var(t, false);
            vec![PJmp::Return(v)]
        }
        7 | 8 => {
            let ret = if t.prob(220) { Some(tg(t)) } else { None };
            let target = subs[t.below(subs.len())].clone();
            vec![PJmp::Call { target, ret }]
        }
        9 => {
            let v = g.jump_var(t, true);
            let ret = if t.prob(220) { Some(tg(t)) } else { None };
            vec![PJmp::CallInd { target: v, ret }]
        }
        10 => {
            let ret = if t.prob(220) { Some(tg(t)) } else { None };
            vec![PJmp::CallOther { desc: "syscall".into(), ret }]
        }
        _ => vec![],
    }
}

pub fn decode(t: &mut Tape) -> Case {
    let table = gen_table(t);
    let mut g = BlockGen::new(&table);
    let n = 1 + t.below(10);
    let mut defs = vec![];
    for _ in 0..n {
        g.def(t, &mut defs);
    }
    let targets = vec![blk_id(0x1040), blk_id(0x1080)];
    let subs = vec!["sub_00001000".to_string(), "sub_00002000".to_string()];
    let jmps = gen_jumps(&mut g, t, &targets, &subs, true);
    let features = g.features.clone();
    let block = PBlk { addr: 0x1000, defs, jmps };
    let mut states = vec![];
    for _ in 0..4 {
        let mut regs = vec![];
        for b in table.bases() {
            let v = if table.flags.contains(&b.name) {
                t.below(2) as u128
            } else if b.size > 8 {
                t.int(8) | (t.int(8) << 64)
            } else {
                t.int(b.size)
            };
            regs.push((b.name.clone(), v));
        }
        states.push((regs, t.u16() as u64));
    }
    Case { table, block, states, features }
}

pub fn lift(json: Value) -> Result<ir::Project, String> {
    let mut p: cwe_checker_lib::pcode::Project = serde_json::from_value(json).map_err(|e| format!("generated JSON rejected: {}", e))?;
    let _ = p.normalize();
    Ok(p.into_ir_project(0))
}

fn exits_equal(a: &PExit, b: &BlockExit) -> bool {
    match (a, b) {
        (PExit::Goto(x), BlockExit::Goto(y)) => x == y,
        (PExit::Indirect(x), BlockExit::Indirect(y)) => x == y,
        (PExit::Return(x), BlockExit::Return(y)) => x == y,
        (PExit::Call { target: t1, ret: r1 }, BlockExit::Call { target: t2, ret: r2 }) => t1 == t2 && r1 == r2,
        (PExit::CallInd { target: t1, ret: r1 }, BlockExit::CallInd { target: t2, ret: r2 }) => t1 == t2 && r1 == r2,
        (PExit::CallOther { desc: d1, ret: r1 }, BlockExit::CallOther { desc: d2, ret: r2 }) => d1 == d2 && r1 == r2,
        (PExit::FallOff, BlockExit::FallOff) => true,
        _ => false,
    }
}

pub fn check_case(case: &Case, ctx: &mut Ctx) -> CaseResult {
    let dummy1 = PBlk { addr: 0x1040, defs: vec![], jmps: vec![] };
    let dummy2 = PBlk { addr: 0x1080, defs: vec![], jmps: vec![] };
    let subs = vec![PSub { addr: 0x1000, name: "f".into(), blocks: vec![case.block.clone(), dummy1, dummy2] }, PSub { addr: 0x2000, name: "g".into(), blocks: vec![PBlk { addr: 0x2000, defs: vec![], jmps: vec![] }] }];
    let json = project_json(&case.table, &subs, vec![]);
    let project = match cut(|| lift(json)) {
        Ok(Ok(p)) => p,
        Ok(Err(e)) => panic!("harness generated invalid P-Code JSON: {}", e),
        Err(f) => return ctx.report(format!("C11:lift:{}", f.signature), f.detail),
    };
    let irblk = project.program.term.subs.values().find(|s| s.term.name == "f").and_then(|s| s.term.blocks.first()).expect("lifted block").clone();
    for f in &case.features {
        ctx.label(&format!("feature:{}", f));
    }
    let nontrivial = case.features.iter().any(|f| matches!(*f, "out:sub-lsb>0" | "cast-to-base" | "in:ram" | "out:ram" | "out:same-name-smaller" | "cast-to-same-name-smaller"));
    if nontrivial {
        ctx.label("nontrivial");
        ctx.nontrivial(fnv(format!("{:?}{:?}", case.block, case.table.entries).as_bytes()));
    }
    ctx.extra_evaluations(case.states.len() as u64 - 1);
    for (k, (regs, seed)) in case.states.iter().enumerate() {
        let mut ps = PState::new(&case.table, *seed);
        let mut is = State::new(*seed);
        for (n, v) in regs {
            ps.set_base(n, *v);
            let size = case.table.get(n).size;
            is.set(n, *v, size);
        }
        let (pev, pexit) = exec_block(&case.table, &mut ps, &case.block);
        let (iev, iexit) = run_block(&irblk, &mut is);
        let ctxt = |what: &str| {
            format!(
                "{} (state #{}):\n--- P-Code block:\n{}\n--- lifted IR block:\n{}--- initial base registers: {:x?}\n--- P-Code events: {:x?} exit {:x?}\n--- IR events: {:x?} exit {:x?}",
                what,
                k,
                show_block(&case.block),
                irblk.term,
                regs,
                pev,
                pexit,
                iev,
                iexit
            )
        };
        // memory writes: ordered
        let pw: Vec<&Event> = pev.iter().filter(|e| matches!(e, Event::Write { .. })).collect();
        let iw: Vec<&Event> = iev.iter().filter(|e| matches!(e, Event::Write { .. })).collect();
        if pw != iw {
            return ctx.report("C11:memory-writes-differ", ctxt("sequence of memory writes differs"));
        }
        // memory reads: multiset
        let mut pr: Vec<String> = pev.iter().filter(|e| matches!(e, Event::Read { .. })).map(|e| format!("{:?}", e)).collect();
        let mut ir_: Vec<String> = iev.iter().filter(|e| matches!(e, Event::Read { .. })).map(|e| format!("{:?}", e)).collect();
        pr.sort();
        ir_.sort();
        if pr != ir_ {
            return ctx.report("C11:memory-reads-differ", ctxt("multiset of memory reads differs"));
        }
        if !exits_equal(&pexit, &iexit) {
            return ctx.report("C11:block-exit-differs", ctxt("branch decision / jump target differs"));
        }
        for b in case.table.bases() {
            let pv = ps.get_base(&b.name);
            let iv = is.get(&ir::Variable { name: b.name.clone(), size: ir::ByteSize::new(b.size as u64), is_temp: false }).v;
            if pv != iv {
                let kind = if case.features.contains(&"cast-to-same-name-smaller") { "C11:final-register-differs:cast-to-same-name-smaller" } else { "C11:final-register-differs" };
                return ctx.report(kind, ctxt(&format!("final value of base register {} differs: P-Code {:x}, IR {:x}", b.name, pv, iv)));
            }
        }
    }
    Ok(())
}

pub fn show_var(v: &PVar) -> String {
    match v {
        PVar::Reg { name, size } => format!("{}:{}", name, size),
        PVar::Temp { name, size } => format!("{}:{}", name, size),
        PVar::Const { val, size } => format!("0x{:x}:{}", val, size),
        PVar::Ram { addr, size } => format!("ram[0x{:x}]:{}", addr, size),
    }
}

pub fn show_block(b: &PBlk) -> String {
    let mut s = String::new();
    for d in &b.defs {
        let ins: Vec<String> = d.ins.iter().flatten().map(show_var).collect();
        s.push_str(&format!("  {} = {} {}\n", d.lhs.as_ref().map(show_var).unwrap_or_else(|| "-".into()), d.op, ins.join(", ")));
    }
    for j in &b.jmps {
        s.push_str(&format!("  {:x?}\n", j));
    }
    s
}

pub fn run(eng: &mut Engine) {
    eng.rule = "cases = (register table with tape-chosen nested sub-registers, one P-Code block of 1..10 typed defs over registers / sub-registers / same-name smaller varnodes / temporaries / constants / RAM varnodes incl. LOAD, STORE and cast-to-base idioms, 0..2 jumps) x 4 initial states; the block is emitted as plugin-shaped JSON, deserialized, normalized and lifted by the real code; own P-Code interpreter (byte-array registers) vs own IR interpreter on the lifted block: final base registers, ordered memory writes, multiset of reads, branch decision / jump target must agree; non-trivial = block writes a sub-register at lsb>0 or a same-name smaller varnode, uses the cast-to-base idiom or a RAM operand; distinct by hash of table+block".into();
    eng.assumptions = vec![
        "pcode.rs interpreter + refsem are the P-Code reference semantics; irinterp the IR semantics".into(),
        "only operand kinds the plugin emits: CBRANCH/RETURN operands never in RAM, BOOL ops only on 0/1 values, P-Code size typing obeyed, same-name smaller varnodes only for base register names".into(),
    ];
    let cases = eng.tier.pick(1_000_000u64, 10_000_000u64);
    eng.random(
        "lift-block-differential",
        RandomSpec { cases, max_tape: 700 },
        |tape, ctx| {
            let mut t = Tape::new(tape);
            let case = decode(&mut t);
            ctx.sample(|| show_block(&case.block));
            check_case(&case, ctx)
        },
        |tape| {
            let case = decode(&mut Tape::new(tape));
            format!("table: {:?}\nblock:\n{}", case.table.entries.iter().map(|e| format!("{}={}[{}..+{}]", e.name, e.base, e.lsb, e.size)).collect::<Vec<_>>(), show_block(&case.block))
        },
    );
    eng.require_fraction("lift-block-differential", "nontrivial", 0.4);
    eng.require_fraction("lift-block-differential", "feature:cast-to-base", 0.05);
    eng.require_fraction("lift-block-differential", "feature:out:sub-lsb>0", 0.05);
    eng.require_fraction("lift-block-differential", "feature:in:ram", 0.1);
}
