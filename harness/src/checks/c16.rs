//! C16 — call-site checkers (CWE676, CWE782, CWE426, CWE332) report exactly the specified call sites.
//!
//! Generated: programs with a random extern table, random call sites (with / without return
//! site), internal / indirect calls as noise, internal functions that carry the *name* of a
//! configured symbol; random configurations (symbol lists, pairs; the shipped config.json for a
//! fraction of the cases). The program goes through `Project::normalize()` like in the pipeline;
//! the oracle is a set comprehension over the normalized project, written only with the public
//! IR structs.

use super::c16_prog::*;
use crate::engine::{CaseResult, Ctx, Engine, RandomSpec};
use crate::tape::{fnv, Tape};
use cwe_checker_lib::analysis::graph::get_program_cfg;
use cwe_checker_lib::checkers::{cwe_332, cwe_426, cwe_676, cwe_782};
use cwe_checker_lib::intermediate_representation::*;
use cwe_checker_lib::pipeline::AnalysisResults;
use cwe_checker_lib::utils::log::CweWarning;
use serde_json::{json, Value};
use std::collections::BTreeSet;

const POOL: &[(&str, u16, u32)] = &[
    ("ioctl", 150, 4),
    ("system", 170, 4),
    ("setuid", 140, 3),
    ("setgid", 100, 2),
    ("seteuid", 80, 2),
    ("strcpy", 140, 3),
    ("gets", 100, 2),
    ("memcpy", 100, 2),
    ("rand", 140, 1),
    ("srand", 110, 1),
    ("random", 90, 1),
    ("srandom", 80, 1),
    ("printf", 120, 2),
    ("exit", 100, 1),
];

fn profile() -> Profile<'static> {
    Profile {
        pool: POOL,
        no_return: &["exit"],
        max_subs: 4,
        max_blocks: 6,
        // None, Branch, CBranch, BranchInd, CallExt, CallInt, CallInd, CallOther, Return
        end_weights: [2, 4, 4, 1, 24, 3, 2, 1, 4],
        p_no_return_site: 50,
        p_pool_sub_name: 40,
        // only names that no check looks up by name (`find_symbol` returns the first entry)
        dup_names: &["strcpy", "gets", "memcpy", "printf"],
        p_dup: 60,
        p_cond_call: 30,
        same_call_address: true,
    }
}

#[derive(Clone, Debug, PartialEq, Eq, Hash)]
pub struct Cfg {
    pub default: bool,
    pub dangerous: Vec<String>,
    pub privilege: Vec<String>,
    pub pairs: Vec<(String, String)>,
}

#[derive(Clone, Debug, PartialEq, Eq, Hash)]
pub struct Case {
    pub prog: ProgSpec,
    pub cfg: Cfg,
}

fn name_list(t: &mut Tape) -> Vec<String> {
    let mut v = vec![];
    if !t.prob(230) {
        return v; // empty list
    }
    for (n, _, _) in POOL {
        if t.prob(110) {
            v.push(n.to_string());
        }
    }
    if t.prob(60) {
        v.push("not_imported_fn".to_string());
    }
    if t.prob(30) && !v.is_empty() {
        let d = v[t.below(v.len())].clone();
        v.push(d); // duplicate entry
    }
    v
}

fn decode_cfg(t: &mut Tape, defaults: &Cfg) -> Cfg {
    if t.prob(50) {
        return defaults.clone();
    }
    let dangerous = name_list(t);
    let privilege = name_list(t);
    let mut pairs = vec![];
    let np = t.below(4);
    let names: Vec<&str> = POOL.iter().map(|x| x.0).chain(["not_imported_fn"]).collect();
    for _ in 0..np {
        // bias to the classic pairs, otherwise arbitrary names
        let (a, b) = match t.below(5) {
            0 => ("srand", "rand"),
            1 => ("srandom", "random"),
            _ => (names[t.below(names.len())], names[t.below(names.len())]),
        };
        pairs.push((a.to_string(), b.to_string()));
    }
    Cfg { default: false, dangerous, privilege, pairs }
}

pub fn decode(t: &mut Tape, defaults: &Cfg) -> Case {
    let prog = decode_prog(t, &profile());
    let cfg = decode_cfg(t, defaults);
    Case { prog, cfg }
}

/// The relevant parts of the shipped configuration, read once.
pub fn default_cfg() -> (Cfg, Value) {
    let repo = std::env::var("VERIF_REPO").unwrap_or_else(|_| "/repo".to_string());
    let path = format!("{}/src/config.json", repo);
    let txt = std::fs::read_to_string(&path).unwrap_or_else(|e| panic!("cannot read {}: {}", path, e));
    let v: Value = serde_json::from_str(&txt).expect("config.json is JSON");
    let strs = |x: &Value| -> Vec<String> { x.as_array().map(|a| a.iter().filter_map(|s| s.as_str().map(|s| s.to_string())).collect()).unwrap_or_default() };
    let pairs = v["CWE332"]["pairs"]
        .as_array()
        .map(|a| a.iter().filter_map(|p| Some((p.get(0)?.as_str()?.to_string(), p.get(1)?.as_str()?.to_string()))).collect())
        .unwrap_or_default();
    (Cfg { default: true, dangerous: strs(&v["CWE676"]["symbols"]), privilege: strs(&v["CWE426"]["symbols"]), pairs }, v)
}

fn expected_676(p: &Project, cfg: &Cfg) -> Vec<WKey> {
    let listed: BTreeSet<&str> = cfg.dangerous.iter().map(|s| s.as_str()).collect();
    let mut v = vec![];
    for sub in p.program.term.subs.values() {
        for (_b, j, target, _r) in calls_of_sub(sub) {
            if let Some(sym) = p.program.term.extern_symbols.get(target) {
                if listed.contains(sym.name.as_str()) {
                    v.push(WKey {
                        name: cwe_676::CWE_MODULE.name.into(),
                        version: cwe_676::CWE_MODULE.version.into(),
                        addresses: vec![j.tid.address.clone()],
                        tids: vec![j.tid.to_string()],
                        symbols: vec![sub.term.name.clone()],
                        other: vec![vec!["dangerous_function".to_string(), sym.name.clone()]],
                    });
                }
            }
        }
    }
    v
}

fn expected_782(p: &Project) -> Vec<WKey> {
    let mut v = vec![];
    let ioctl = match ext_by_name(p, "ioctl") {
        Some(s) => s,
        None => return v,
    };
    for sub in p.program.term.subs.values() {
        for (_b, j, target, _r) in calls_of_sub(sub) {
            if *target == ioctl.tid {
                v.push(WKey {
                    name: cwe_782::CWE_MODULE.name.into(),
                    version: cwe_782::CWE_MODULE.version.into(),
                    addresses: vec![j.tid.address.clone()],
                    tids: vec![j.tid.to_string()],
                    symbols: vec![sub.term.name.clone()],
                    other: vec![],
                });
            }
        }
    }
    v
}

fn expected_426(p: &Project, cfg: &Cfg) -> Vec<WKey> {
    let mut v = vec![];
    let system = match ext_by_name(p, "system") {
        Some(s) => s.tid.clone(),
        None => return v,
    };
    let privs: BTreeSet<Tid> = cfg.privilege.iter().filter_map(|n| ext_by_name(p, n)).map(|s| s.tid.clone()).collect();
    for sub in p.program.term.subs.values() {
        let calls = calls_of_sub(sub);
        let calls_system = calls.iter().any(|c| *c.2 == system);
        let calls_priv = calls.iter().any(|c| privs.contains(c.2));
        if calls_system && calls_priv {
            v.push(WKey {
                name: cwe_426::CWE_MODULE.name.into(),
                version: cwe_426::CWE_MODULE.version.into(),
                addresses: vec![sub.tid.address.clone()],
                tids: vec![sub.tid.to_string()],
                symbols: vec![sub.term.name.clone()],
                other: vec![],
            });
        }
    }
    v
}

/// expected (generator, initializer) pairs, in configuration order
fn expected_332(p: &Project, cfg: &Cfg) -> Vec<(String, String)> {
    cfg.pairs.iter().filter(|(init, gen)| ext_by_name(p, gen).is_some() && ext_by_name(p, init).is_none()).map(|(i, g)| (g.clone(), i.clone())).collect()
}

fn compare(ctx: &mut Ctx, module: &str, expected: &[WKey], actual: &[CweWarning], p: &Project, cfg: &Cfg) -> CaseResult {
    let act: Vec<WKey> = actual.iter().map(wkey).collect();
    let (missing, surplus) = multiset_diff(expected, &act);
    if !missing.is_empty() {
        ctx.report(
            format!("C16:{}:missing-warning", module),
            format!("{} does not report {:?}\nreported: {:?}\nconfig: {:?}\n{}", module, missing, act, cfg, show_project(p)),
        )?;
    }
    if !surplus.is_empty() {
        ctx.report(
            format!("C16:{}:unexpected-warning", module),
            format!("{} reports {:?} which the specification does not contain\nexpected: {:?}\nconfig: {:?}\n{}", module, surplus, expected, cfg, show_project(p)),
        )?;
    }
    Ok(())
}

pub fn check(case: &Case, cfg_json: &Value, ctx: &mut Ctx) -> CaseResult {
    // the program as the pipeline presents it to the checks: built, then normalized
    let project = match ctx.cut(|| {
        let mut p = build(&case.prog);
        let _logs = p.normalize();
        p
    })? {
        Some(p) => p,
        None => return Ok(()),
    };
    let graph = match ctx.cut(|| get_program_cfg(&project.program))? {
        Some(g) => g,
        None => return Ok(()),
    };
    let binary: Vec<u8> = vec![];
    let ar = AnalysisResults::new(&binary, &graph, &project);
    let cfg = &case.cfg;

    let e676 = expected_676(&project, cfg);
    let e782 = expected_782(&project);
    let e426 = expected_426(&project, cfg);
    let e332 = expected_332(&project, cfg);

    let nonempty = [!e676.is_empty(), !e782.is_empty(), !e426.is_empty(), !e332.is_empty()];
    let k = nonempty.iter().filter(|x| **x).count();
    for (i, l) in ["cwe676-expected-nonempty", "cwe782-expected-nonempty", "cwe426-expected-nonempty", "cwe332-expected-nonempty"].iter().enumerate() {
        if nonempty[i] {
            ctx.label(l);
        }
    }
    if k == 0 {
        ctx.label("all-expected-empty");
    }
    if k >= 2 {
        ctx.label("two-or-more-checks-nonempty");
        ctx.nontrivial(fnv(format!("{:?}", case).as_bytes()));
    }
    if cfg.default {
        ctx.label("shipped-config");
    }
    let all_calls: Vec<_> = project.program.term.subs.values().flat_map(|s| calls_of_sub(s)).collect();
    if all_calls.iter().any(|c| is_extern(&project, c.2) && c.3.is_none()) {
        ctx.label("extern-call-without-return-site");
    }
    if project.program.term.subs.values().any(|s| POOL.iter().any(|p| p.0 == s.term.name)) {
        ctx.label("internal-sub-named-like-symbol");
    }
    if e426.len() < project.program.term.subs.values().filter(|s| calls_of_sub(s).iter().any(|c| ext_by_name(&project, "system").map(|x| x.tid == *c.2).unwrap_or(false))).count() {
        ctx.label("cwe426-sub-calls-system-but-not-flagged");
    }
    ctx.sample(|| format!("{:?} -> 676:{} 782:{} 426:{} 332:{}", case.cfg, e676.len(), e782.len(), e426.len(), e332.len()));
    ctx.extra_evaluations(3);

    if let Some((_l, w)) = ctx.cut(|| (cwe_676::CWE_MODULE.run)(&ar, &cfg_json["CWE676"]))? {
        compare(ctx, "CWE676", &e676, &w, &project, cfg)?;
    }
    if let Some((_l, w)) = ctx.cut(|| (cwe_782::CWE_MODULE.run)(&ar, &cfg_json["CWE782"]))? {
        compare(ctx, "CWE782", &e782, &w, &project, cfg)?;
    }
    if let Some((_l, w)) = ctx.cut(|| (cwe_426::CWE_MODULE.run)(&ar, &cfg_json["CWE426"]))? {
        compare(ctx, "CWE426", &e426, &w, &project, cfg)?;
    }
    if let Some((_l, w)) = ctx.cut(|| (cwe_332::CWE_MODULE.run)(&ar, &cfg_json["CWE332"]))? {
        // CWE332 warnings carry no structured field besides name/version: the pair is only visible
        // in the description, so that is what identifies it.
        let exp_keys: Vec<WKey> = e332
            .iter()
            .map(|_| WKey { name: cwe_332::CWE_MODULE.name.into(), version: cwe_332::CWE_MODULE.version.into(), addresses: vec![], tids: vec![], symbols: vec![], other: vec![] })
            .collect();
        compare(ctx, "CWE332", &exp_keys, &w, &project, cfg)?;
        let exp_desc: Vec<String> = e332.iter().map(|(g, i)| format!("(Insufficient Entropy in PRNG) program uses {} without calling {} before", g, i)).collect();
        let act_desc: Vec<String> = w.iter().map(|x| x.description.clone()).collect();
        let (missing, surplus) = multiset_diff(&exp_desc, &act_desc);
        if !missing.is_empty() || !surplus.is_empty() {
            ctx.report(
                "C16:CWE332:wrong-pair-named",
                format!("CWE332 names other pairs than specified: missing {:?}, unexpected {:?}\nconfig: {:?}\n{}", missing, surplus, cfg, show_project(&project)),
            )?;
        }
    }
    Ok(())
}

pub fn cfg_to_json(cfg: &Cfg) -> Value {
    json!({
        "CWE676": {"symbols": cfg.dangerous},
        "CWE782": {"symbols": []},
        "CWE426": {"symbols": cfg.privilege},
        "CWE332": {"pairs": cfg.pairs.iter().map(|(a, b)| json!([a, b])).collect::<Vec<_>>()},
    })
}

pub fn run(eng: &mut Engine) {
    eng.rule = "case = (program spec: extern table drawn from a pool of configured/unrelated names, 1..4 subs of 1..6 blocks whose ends are jumps, extern/internal/indirect calls with or without return site, returns; configuration: random symbol lists and PRNG pairs or the shipped config.json), built with irb, normalized with Project::normalize, then CWE676/CWE782/CWE426/CWE332 module functions compared as multisets of structured warning fields with set comprehensions over the normalized IR; non-trivial = at least two of the four checks have a non-empty expected warning set; distinct by hash of the decoded case".into();
    eng.assumptions = vec![
        "programs have the lifter's shape: unique tids, extern table keyed by the symbol's own tid, unique extern names, jump/return targets inside the same sub, a call is the only jump of its block".into(),
        "the free-text description is not compared, except for CWE332 where it is the only carrier of the reported pair".into(),
        "the oracle reads the normalized project (normalization itself is the subject of C09/C10)".into(),
    ];
    let (defaults, default_json) = default_cfg();
    let cases = eng.tier.pick(600_000, 6_000_000);
    eng.random(
        "callsite-checkers",
        RandomSpec { cases, max_tape: 192 },
        |tape, ctx| {
            let mut t = Tape::new(tape);
            let case = decode(&mut t, &defaults);
            if case.cfg.default {
                check(&case, &default_json, ctx)
            } else {
                let j = cfg_to_json(&case.cfg);
                check(&case, &j, ctx)
            }
        },
        |tape| {
            let case = decode(&mut Tape::new(tape), &defaults);
            format!("{:?}\n{}", case, show_project(&build(&case.prog)))
        },
    );
    // floors are relative to the section's evaluations = 4 module runs per case
    eng.require_fraction("callsite-checkers", "two-or-more-checks-nonempty", 0.04);
    eng.require_fraction("callsite-checkers", "cwe676-expected-nonempty", 0.05);
    eng.require_fraction("callsite-checkers", "cwe782-expected-nonempty", 0.04);
    eng.require_fraction("callsite-checkers", "cwe426-expected-nonempty", 0.015);
    eng.require_fraction("callsite-checkers", "cwe332-expected-nonempty", 0.02);
}
