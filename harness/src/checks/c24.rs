//! C24 — call-sequence queries return exactly the calls on source-to-target paths.
//!
//! Code under test: `analysis::callgraph::{get_program_callgraph, find_call_sequences_to_target}`.
//! Oracle: Warshall reflexive-transitive closure `R*` of the direct-call relation between internal
//! subs (own code): a direct call `u -> v` lies on a call sequence from `s` to `t` iff `R*(s,u)` and
//! `R*(v,t)`. For `s == t` this yields exactly the calls on cycles through `s` (the empty sequence
//! contains no call).

use crate::engine::{CaseResult, Ctx, Engine, RandomSpec};
use crate::irb;
use crate::tape::{fnv, Tape};
use cwe_checker_lib::analysis::callgraph::{find_call_sequences_to_target, get_program_callgraph};
use cwe_checker_lib::intermediate_representation::*;
use std::collections::BTreeSet;

#[derive(Clone, Debug, PartialEq)]
enum Item {
    /// direct call to an internal sub (index), returning to the next block or not at all
    Call { target: usize, returns: bool, conditional: bool },
    Extern { returns: bool },
    Indirect { returns: bool },
    /// conditional branch to the next block / the last block (no call)
    Cond,
}

#[derive(Clone, Debug)]
struct Case {
    subs: Vec<Vec<Item>>,
    /// sub without any block (legal for the call graph)
    empty: Vec<bool>,
}

fn decode(t: &mut Tape) -> Case {
    let n = 1 + t.below(9);
    let mut subs = vec![];
    let mut empty = vec![];
    for s in 0..n {
        let k = t.below(6);
        let mut items = vec![];
        let mut last_target: Option<usize> = None;
        for _ in 0..k {
            let it = match t.below(10) {
                0..=5 => {
                    let target = match (t.below(8), last_target) {
                        (0, Some(l)) => l,         // parallel call
                        (1, _) => s,               // self call
                        (2, _) => (s + 1) % n,     // chain / ring
                        (3, _) => (s + n - 1) % n, // back edge
                        _ => t.below(n),
                    };
                    last_target = Some(target);
                    // a conditional call (`blne f`): the call is the second jump of its block, behind a CBranch
                    Item::Call { target, returns: !t.prob(40), conditional: t.prob(50) }
                }
                6 | 7 => Item::Extern { returns: !t.prob(40) },
                8 => Item::Indirect { returns: !t.prob(40) },
                _ => Item::Cond,
            };
            items.push(it);
        }
        empty.push(k == 0 && t.prob(64));
        subs.push(items);
    }
    Case { subs, empty }
}

fn sub_tid(s: usize) -> Tid {
    irb::sub_tid(0x1000 * (s as u64 + 1))
}
fn call_tid(s: usize, b: usize) -> Tid {
    irb::instr_tid(0x1000 * (s as u64 + 1) + 0x10 * b as u64, 1)
}

fn build(c: &Case) -> Term<Program> {
    let ext_tid = irb::tid("extern_fn", "UNKNOWN");
    let mut subs = vec![];
    for (s, items) in c.subs.iter().enumerate() {
        let base = 0x1000 * (s as u64 + 1);
        let mut blocks = vec![];
        if !c.empty[s] {
            let last = items.len();
            for (b, it) in items.iter().enumerate() {
                let a = base + 0x10 * b as u64;
                let next = irb::blk_tid(base + 0x10 * (b as u64 + 1));
                let ret = |r: bool| if r { Some(next.clone()) } else { None };
                let jmps = match it {
                    Item::Call { target, returns, conditional } => {
                        let call = irb::jmp(call_tid(s, b), Jmp::Call { target: sub_tid(*target), return_: ret(*returns) });
                        if *conditional {
                            vec![irb::jmp(irb::instr_tid(a, 0), Jmp::CBranch { target: next.clone(), condition: irb::evar(&irb::var("ZF", 1)) }), call]
                        } else {
                            vec![call]
                        }
                    }
                    Item::Extern { returns } => vec![irb::jmp(call_tid(s, b), Jmp::Call { target: ext_tid.clone(), return_: ret(*returns) })],
                    Item::Indirect { returns } => {
                        vec![irb::jmp(call_tid(s, b), Jmp::CallInd { target: irb::evar(&irb::var("RBX", 8)), return_: ret(*returns) })]
                    }
                    Item::Cond => vec![
                        irb::jmp(call_tid(s, b), Jmp::CBranch { target: irb::blk_tid(base + 0x10 * last as u64), condition: irb::evar(&irb::var("ZF", 1)) }),
                        irb::jmp(irb::instr_tid(a, 2), Jmp::Branch(next.clone())),
                    ],
                };
                blocks.push(irb::blk(irb::blk_tid(a), vec![], jmps));
            }
            let a = base + 0x10 * last as u64;
            blocks.push(irb::blk(irb::blk_tid(a), vec![], vec![irb::jmp(irb::instr_tid(a, 1), Jmp::Return(irb::evar(&irb::var("RAX", 8))))]));
        }
        subs.push(irb::sub(sub_tid(s), &format!("f{}", s), blocks));
    }
    let ext = irb::extern_symbol(ext_tid, "extern_fn", &["RDI"], false);
    irb::project(subs, vec![ext], vec![sub_tid(0)]).program
}

fn check(c: &Case, ctx: &mut Ctx) -> CaseResult {
    ctx.label("cases");
    let n = c.subs.len();
    let program = build(c);
    // expected direct calls between internal subs: (caller, callee, call tid)
    let mut calls: Vec<(usize, usize, Tid)> = vec![];
    let mut noise = false;
    for (s, items) in c.subs.iter().enumerate() {
        if c.empty[s] {
            continue;
        }
        for (b, it) in items.iter().enumerate() {
            match it {
                Item::Call { target, .. } => calls.push((s, *target, call_tid(s, b))),
                Item::Extern { .. } | Item::Indirect { .. } => noise = true,
                Item::Cond => {}
            }
        }
    }
    // Warshall, reflexive
    let mut r = vec![vec![false; n]; n];
    for i in 0..n {
        r[i][i] = true;
    }
    for (u, v, _) in &calls {
        r[*u][*v] = true;
    }
    for k in 0..n {
        for i in 0..n {
            if r[i][k] {
                for j in 0..n {
                    if r[k][j] {
                        r[i][j] = true;
                    }
                }
            }
        }
    }
    let cg = match ctx.cut(|| get_program_callgraph(&program))? {
        Some(g) => g,
        None => return Ok(()),
    };
    // call graph shape: one node per sub, one edge per direct call to an internal sub
    let mut nodes: Vec<Tid> = cg.node_indices().map(|i| cg[i].clone()).collect();
    nodes.sort();
    let mut exp_nodes: Vec<Tid> = (0..n).map(sub_tid).collect();
    exp_nodes.sort();
    if nodes != exp_nodes {
        ctx.report("C24:callgraph:nodes-differ-from-subs", format!("nodes {:?}\nsubs {:?}", nodes, exp_nodes))?;
        return Ok(());
    }
    let mut edges: Vec<(Tid, Tid, Tid)> = cg
        .edge_indices()
        .map(|e| {
            let (a, b) = cg.edge_endpoints(e).expect("edge endpoints");
            (cg[a].clone(), cg[b].clone(), cg[e].tid.clone())
        })
        .collect();
    edges.sort();
    let mut exp_edges: Vec<(Tid, Tid, Tid)> = calls.iter().map(|(u, v, t)| (sub_tid(*u), sub_tid(*v), t.clone())).collect();
    exp_edges.sort();
    if edges != exp_edges {
        let kind = if edges.len() > exp_edges.len() {
            "extra-edge"
        } else if edges.len() < exp_edges.len() {
            "missing-edge"
        } else {
            "wrong-edge"
        };
        ctx.report(
            format!("C24:callgraph:edges-differ-from-direct-internal-calls:{}", kind),
            format!("edges (caller, callee, call) {:?}\nexpected {:?}", edges, exp_edges),
        )?;
        return Ok(());
    }
    // all ordered pairs
    let total_calls = calls.len();
    let mut nontrivial_pairs = 0u64;
    let mut reflexive_nonempty = 0u64;
    for s in 0..n {
        for t in 0..n {
            let expected: BTreeSet<Tid> = calls.iter().filter(|(u, v, _)| r[s][*u] && r[*v][t]).map(|(_, _, tid)| tid.clone()).collect();
            let (st, tt) = (sub_tid(s), sub_tid(t));
            let got = match ctx.cut(|| find_call_sequences_to_target(&cg, &st, &tt))? {
                Some(g) => g,
                None => continue,
            };
            if got != expected {
                let missing: Vec<&Tid> = expected.difference(&got).collect();
                let extra: Vec<&Tid> = got.difference(&expected).collect();
                let kind = match (missing.is_empty(), extra.is_empty()) {
                    (false, true) => "missing-calls",
                    (true, false) => "extra-calls",
                    _ => "missing-and-extra-calls",
                };
                let refl = if s == t { ":source-is-target" } else { "" };
                ctx.report(
                    format!("C24:call-sequences:{}{}", kind, refl),
                    format!("source f{} target f{}: missing {:?} extra {:?}\ngot {:?}\nexpected {:?}", s, t, missing, extra, got, expected),
                )?;
            }
            if !expected.is_empty() && expected.len() < total_calls {
                nontrivial_pairs += 1;
            }
            if s == t && !expected.is_empty() {
                reflexive_nonempty += 1;
            }
        }
    }
    ctx.extra_evaluations((n * n) as u64);
    ctx.label_n("pairs", (n * n) as u64);
    ctx.label_n("pairs-nontrivial", nontrivial_pairs);
    ctx.label_n("pairs-source-is-target-nonempty", reflexive_nonempty);
    if nontrivial_pairs > 0 {
        ctx.label("program-with-nontrivial-pair");
        ctx.nontrivial(fnv(format!("{:?}", c).as_bytes()));
    }
    let cyc = (0..n).any(|i| calls.iter().any(|(u, v, _)| *u == i && r[*v][i]));
    if cyc {
        ctx.label("has-call-cycle");
    }
    if calls.iter().any(|(u, v, _)| u == v) {
        ctx.label("has-self-call");
    }
    {
        let mut uv: Vec<(usize, usize)> = calls.iter().map(|(u, v, _)| (*u, *v)).collect();
        uv.sort();
        let l = uv.len();
        uv.dedup();
        if uv.len() != l {
            ctx.label("has-parallel-calls");
        }
    }
    if noise {
        ctx.label("has-extern-or-indirect-calls");
    }
    if c.empty.iter().any(|e| *e) {
        ctx.label("has-sub-without-blocks");
    }
    ctx.sample(|| format!("{:?}", c.subs));
    Ok(())
}

/// Like `Engine::require_fraction`, but relative to the number of generated cases (label "cases")
/// instead of all evaluations (which include the per-case sub-evaluations).
fn require_case_fraction(eng: &mut Engine, section: &str, label: &str, min_fraction: f64) {
    if matches!(eng.mode, crate::engine::Mode::Replay { .. }) || eng.violations.iter().any(|v| v.section == section) {
        return;
    }
    let n = eng.label_count(section, "cases");
    let c = eng.label_count(section, label);
    if n == 0 || (c as f64) < min_fraction * n as f64 {
        eng.inconclusive.push(format!("generator starvation: section {} label {} = {} of {} cases (< {:.3})", section, label, c, n, min_fraction));
    }
}

pub fn run(eng: &mut Engine) {
    eng.rule = "random programs with 1..9 subs, each with 0..5 call-site blocks (direct calls to internal subs incl. self calls, rings, back \
                edges and parallel calls; extern and indirect calls and conditional branches as noise; calls with and without return \
                block), the call graph is compared with the list of direct internal calls and ALL ordered (source, target) pairs are \
                queried. Non-trivial: programs (distinct by hash) having at least one pair whose expected call set is neither empty nor \
                the set of all calls; the number of such pairs is in the label pairs-nontrivial."
        .into();
    eng.assumptions = vec![
        "'on a path' = on a call sequence (walk, calls may repeat) from source to target: call u->v with R*(source,u) and R*(v,target), R* reflexive; for source == target exactly the calls on cycles through the function".into(),
        "call TIDs are unique; queried TIDs are subs of the program (documented panic otherwise)".into(),
    ];
    let cases = eng.tier.pick(2_000_000u64, 8_000_000u64);
    eng.random(
        "all-pairs",
        RandomSpec { cases, max_tape: 200 },
        |tape, ctx| {
            let c = decode(&mut Tape::new(tape));
            check(&c, ctx)
        },
        |tape| format!("{:?}", decode(&mut Tape::new(tape))),
    );
    require_case_fraction(eng, "all-pairs", "program-with-nontrivial-pair", 0.30);
    require_case_fraction(eng, "all-pairs", "has-call-cycle", 0.20);
    require_case_fraction(eng, "all-pairs", "has-self-call", 0.10);
    require_case_fraction(eng, "all-pairs", "has-parallel-calls", 0.10);
    require_case_fraction(eng, "all-pairs", "has-extern-or-indirect-calls", 0.20);
}
