//! C17 — reachability-based checkers (CWE367 TOCTOU, CWE243 chroot) follow their path specification.
//!
//! Generated: 1..3 subs of 1..8 blocks with branches, conditional branches, loops, indirect
//! branches with target hints, dead ends, extern calls to the configured check/use symbols,
//! `chroot`, `chdir`, privilege functions, non-returning externs, internal calls to returning and
//! non-returning subs, indirect calls, `CallOther`; random extern tables and configurations.
//! The program is normalized with `Project::normalize()` and the CFG is built with
//! `get_program_cfg` exactly like `main.rs` does. The oracle is an own worklist search over the
//! blocks of the normalized IR (it never touches the repository's graph).

use super::c16_prog::*;
use crate::engine::{cut, CaseResult, Ctx, Engine, RandomSpec};
use crate::tape::{fnv, Tape};
use cwe_checker_lib::analysis::graph::get_program_cfg;
use cwe_checker_lib::checkers::{cwe_243, cwe_367};
use cwe_checker_lib::intermediate_representation::*;
use cwe_checker_lib::pipeline::AnalysisResults;
use serde_json::{json, Value};
use std::collections::{BTreeMap, BTreeSet};

const POOL: &[(&str, u16, u32)] = &[
    ("access", 225, 10),
    ("open", 225, 10),
    ("stat", 100, 2),
    ("fopen", 100, 2),
    ("chroot", 215, 7),
    ("chdir", 180, 6),
    ("setuid", 160, 4),
    ("seteuid", 70, 1),
    ("exit", 80, 1),
    ("puts", 100, 2),
];

fn profile() -> Profile<'static> {
    Profile {
        pool: POOL,
        no_return: &["exit"],
        max_subs: 3,
        max_blocks: 8,
        // None, Branch, CBranch, BranchInd, CallExt, CallInt, CallInd, CallOther, Return
        end_weights: [2, 6, 9, 2, 28, 4, 2, 1, 4],
        p_no_return_site: 30,
        p_pool_sub_name: 20,
        dup_names: &[],
        p_dup: 0,
        p_cond_call: 0,
        same_call_address: false,
    }
}

#[derive(Clone, Debug, PartialEq, Eq, Hash)]
pub struct Cfg {
    pub default: bool,
    pub pairs: Vec<(String, String)>,
    pub privdrop: Vec<String>,
}

#[derive(Clone, Debug, PartialEq, Eq, Hash)]
pub struct Case {
    /// mode in which a `chroot` call may lack a return site (DESIGN §5 F6)
    pub chroot_noret_mode: bool,
    pub prog: ProgSpec,
    pub cfg: Cfg,
}

pub fn decode(t: &mut Tape, defaults: &Cfg) -> Case {
    let chroot_noret_mode = t.prob(26);
    let mut prog = decode_prog(t, &profile());
    if !chroot_noret_mode {
        // outside the dedicated mode every chroot call gets a return site
        let chroot = prog.externs.iter().position(|e| e.name == "chroot");
        for s in prog.subs.iter_mut() {
            for b in s.blocks.iter_mut() {
                if let End::CallExt { sym, ret } = &mut b.end {
                    if Some(*sym) == chroot && ret.is_none() {
                        *ret = Some(0);
                    }
                }
            }
        }
    }
    let cfg = if t.prob(50) {
        defaults.clone()
    } else {
        let names = ["access", "open", "stat", "fopen", "chroot", "chdir", "puts", "not_imported_fn"];
        let mut pairs = vec![];
        let np = t.below(4);
        for _ in 0..np {
            let (a, b) = match t.below(4) {
                0 | 1 => ("access", "open"),
                _ => {
                    let a = t.below(names.len());
                    // the check and the use function of a pair are different functions
                    let b = (a + 1 + t.below(names.len() - 1)) % names.len();
                    (names[a], names[b])
                }
            };
            pairs.push((a.to_string(), b.to_string()));
        }
        let mut privdrop = vec![];
        for n in ["setuid", "seteuid", "setgid", "puts"] {
            if t.prob(128) {
                privdrop.push(n.to_string());
            }
        }
        Cfg { default: false, pairs, privdrop }
    };
    Case { chroot_noret_mode, prog, cfg }
}

pub fn default_cfg() -> (Cfg, Value) {
    let repo = std::env::var("VERIF_REPO").unwrap_or_else(|_| "/repo".to_string());
    let path = format!("{}/src/config.json", repo);
    let txt = std::fs::read_to_string(&path).unwrap_or_else(|e| panic!("cannot read {}: {}", path, e));
    let v: Value = serde_json::from_str(&txt).expect("config.json is JSON");
    let pairs = v["CWE367"]["pairs"]
        .as_array()
        .map(|a| a.iter().filter_map(|p| Some((p.get(0)?.as_str()?.to_string(), p.get(1)?.as_str()?.to_string()))).collect())
        .unwrap_or_default();
    let privdrop = v["CWE243"]["priviledge_dropping_functions"].as_array().map(|a| a.iter().filter_map(|s| s.as_str().map(|s| s.to_string())).collect()).unwrap_or_default();
    (Cfg { default: true, pairs, privdrop }, v)
}

pub fn cfg_to_json(cfg: &Cfg) -> Value {
    json!({
        "CWE367": {"pairs": cfg.pairs.iter().map(|(a, b)| json!([a, b])).collect::<Vec<_>>()},
        "CWE243": {"priviledge_dropping_functions": cfg.privdrop},
    })
}

// ---------------------------------------------------------------------------------------------
// Own reachability search on the IR

pub struct Ir<'a> {
    pub p: &'a Project,
    pub blocks: BTreeMap<&'a Tid, (&'a Term<Blk>, &'a Term<Sub>)>,
    /// subs that have at least one block and contain a `Return` jump
    pub returning: BTreeSet<&'a Tid>,
}

impl<'a> Ir<'a> {
    pub fn new(p: &'a Project) -> Ir<'a> {
        let mut blocks = BTreeMap::new();
        let mut returning = BTreeSet::new();
        for sub in p.program.term.subs.values() {
            for b in &sub.term.blocks {
                blocks.insert(&b.tid, (b, sub));
                if b.term.jmps.iter().any(|j| matches!(j.term, Jmp::Return(_))) {
                    returning.insert(&sub.tid);
                }
            }
        }
        Ir { p, blocks, returning }
    }
}

#[derive(Clone, Copy)]
pub struct Rules {
    /// do not continue behind another call to the source symbol
    pub stop_at_source: bool,
    /// a sink call counts only if it has a return site (the CFG has no edge for it otherwise)
    pub sink_needs_return_site: bool,
    /// (for measuring only) also walk into the callee of internal calls
    pub enter_callees: bool,
}

pub const SPEC: Rules = Rules { stop_at_source: true, sink_needs_return_site: true, enter_callees: false };

/// All calls to `sink` that are reachable from the start of block `start` along intraprocedural
/// control flow without passing a call to `source` or an earlier call to `sink`.
pub fn reachable_sinks<'a>(ir: &Ir<'a>, start: &'a Tid, source: &Tid, sink: &Tid, rules: Rules) -> Vec<&'a Term<Jmp>> {
    let mut found = vec![];
    let mut seen: BTreeSet<&Tid> = BTreeSet::new();
    let mut work = vec![start];
    seen.insert(start);
    while let Some(bt) = work.pop() {
        let (blk, _sub) = match ir.blocks.get(bt) {
            Some(x) => *x,
            None => continue,
        };
        let mut succ: Vec<&'a Tid> = vec![];
        for j in &blk.term.jmps {
            match &j.term {
                Jmp::Branch(t) => succ.push(t),
                Jmp::CBranch { target, .. } => succ.push(target),
                Jmp::BranchInd(_) => succ.extend(blk.term.indirect_jmp_targets.iter()),
                Jmp::Call { target, return_ } => {
                    if is_extern(ir.p, target) {
                        if target == sink {
                            if return_.is_some() || !rules.sink_needs_return_site {
                                found.push(j);
                            }
                        } else if target == source && rules.stop_at_source {
                            // the path ends here
                        } else if let Some(r) = return_ {
                            succ.push(r);
                        }
                    } else {
                        if let Some(r) = return_ {
                            if ir.returning.contains(target) {
                                succ.push(r);
                            }
                        }
                        if rules.enter_callees {
                            if let Some(callee) = ir.p.program.term.subs.get(target) {
                                if let Some(b0) = callee.term.blocks.first() {
                                    succ.push(&b0.tid);
                                }
                            }
                        }
                    }
                }
                Jmp::CallInd { return_, .. } => {
                    if let Some(r) = return_ {
                        succ.push(r);
                    }
                }
                Jmp::CallOther { .. } | Jmp::Return(_) => {}
            }
        }
        for s in succ {
            if seen.insert(s) {
                work.push(s);
            }
        }
    }
    found
}

fn sub_calls(sub: &Term<Sub>, t: &Tid) -> bool {
    calls_of_sub(sub).iter().any(|c| c.2 == t)
}

/// One expected CWE367 warning: identified by the return-site block of the check call and the pair;
/// the reported use call must be one of `candidates`.
#[derive(Clone, Debug, PartialEq, Eq, PartialOrd, Ord)]
struct Toctou {
    site_tid: String,
    site_addr: String,
    source: String,
    sink: String,
}

struct Stats367 {
    expected: Vec<(Toctou, Vec<(String, String)>)>,
    differs_from_heuristic: bool,
    behind_second_source: bool,
    only_in_callee: bool,
    sink_without_return_site: bool,
    source_without_sink: bool,
}

fn expected_367(ir: &Ir, cfg: &Cfg) -> Stats367 {
    let mut st = Stats367 { expected: vec![], differs_from_heuristic: false, behind_second_source: false, only_in_callee: false, sink_without_return_site: false, source_without_sink: false };
    for (s, k) in &cfg.pairs {
        let (se, ke) = match (ext_by_name(ir.p, s), ext_by_name(ir.p, k)) {
            (Some(a), Some(b)) => (a, b),
            _ => continue,
        };
        for sub in ir.p.program.term.subs.values() {
            for (_b, _j, target, ret) in calls_of_sub(sub) {
                if *target != se.tid {
                    continue;
                }
                let r = match ret {
                    Some(r) => r,
                    None => continue, // nothing is reachable after a call without return site
                };
                let cand = reachable_sinks(ir, r, &se.tid, &ke.tid, SPEC);
                let heuristic = sub_calls(sub, &ke.tid);
                if heuristic != !cand.is_empty() {
                    st.differs_from_heuristic = true;
                }
                if cand.is_empty() {
                    st.source_without_sink = true;
                    if !reachable_sinks(ir, r, &se.tid, &ke.tid, Rules { stop_at_source: false, ..SPEC }).is_empty() {
                        st.behind_second_source = true;
                    }
                    if !reachable_sinks(ir, r, &se.tid, &ke.tid, Rules { enter_callees: true, ..SPEC }).is_empty() {
                        st.only_in_callee = true;
                    }
                    if !reachable_sinks(ir, r, &se.tid, &ke.tid, Rules { sink_needs_return_site: false, ..SPEC }).is_empty() {
                        st.sink_without_return_site = true;
                    }
                } else {
                    st.expected.push((
                        Toctou { site_tid: r.to_string(), site_addr: r.address.clone(), source: s.clone(), sink: k.clone() },
                        cand.iter().map(|j| (j.tid.to_string(), j.tid.address.clone())).collect(),
                    ));
                }
            }
        }
    }
    st
}

struct Stats243 {
    expected: Vec<WKey>,
    chroot_without_return_site: bool,
    chdir_missing: bool,
    safe_by_chdir_after: bool,
    safe_by_privdrop: bool,
    differs_from_heuristic: bool,
    chroot_calls: usize,
}

fn expected_243(ir: &Ir, cfg: &Cfg) -> Stats243 {
    let mut st = Stats243 { expected: vec![], chroot_without_return_site: false, chdir_missing: false, safe_by_chdir_after: false, safe_by_privdrop: false, differs_from_heuristic: false, chroot_calls: 0 };
    let chroot = match ext_by_name(ir.p, "chroot") {
        Some(s) => &s.tid,
        None => return st,
    };
    let chdir = ext_by_name(ir.p, "chdir").map(|s| &s.tid);
    let privs: Vec<&Tid> = cfg.privdrop.iter().filter_map(|n| ext_by_name(ir.p, n)).map(|s| &s.tid).collect();
    for sub in ir.p.program.term.subs.values() {
        for blk in &sub.term.blocks {
            // one decision per block that calls chroot (a call is the only jump of its block)
            let call = blk.term.jmps.iter().find_map(|j| match &j.term {
                Jmp::Call { target, return_ } if target == chroot => Some((j, return_.as_ref())),
                _ => None,
            });
            let (j, ret) = match call {
                Some(x) => x,
                None => continue,
            };
            st.chroot_calls += 1;
            let warn = match chdir {
                None => {
                    st.chdir_missing = true;
                    true
                }
                Some(chdir) => {
                    let after = match ret {
                        Some(r) => !reachable_sinks(ir, r, chroot, chdir, SPEC).is_empty(),
                        None => {
                            st.chroot_without_return_site = true;
                            false
                        }
                    };
                    let both = sub_calls(sub, chdir) && privs.iter().any(|p| sub_calls(sub, p));
                    if after {
                        st.safe_by_chdir_after = true;
                    } else if both {
                        st.safe_by_privdrop = true;
                    }
                    if sub_calls(sub, chdir) != after {
                        st.differs_from_heuristic = true;
                    }
                    !after && !both
                }
            };
            if warn {
                st.expected.push(WKey {
                    name: cwe_243::CWE_MODULE.name.into(),
                    version: cwe_243::CWE_MODULE.version.into(),
                    addresses: vec![j.tid.address.clone()],
                    tids: vec![j.tid.to_string()],
                    symbols: vec![sub.term.name.clone()],
                    other: vec![],
                });
            }
        }
    }
    st
}

pub fn check(case: &Case, cfg_json: &Value, ctx: &mut Ctx) -> CaseResult {
    let project = match ctx.cut(|| {
        let mut p = build(&case.prog);
        let _logs = p.normalize();
        p
    })? {
        Some(p) => p,
        None => return Ok(()),
    };
    let graph = match ctx.cut(|| get_program_cfg(&project.program))? {
        Some(g) => g,
        None => return Ok(()),
    };
    let binary: Vec<u8> = vec![];
    let ar = AnalysisResults::new(&binary, &graph, &project);
    let cfg = &case.cfg;
    let ir = Ir::new(&project);

    // sanity of the input shape (measured, not judged)
    for sub in project.program.term.subs.values() {
        for b in &sub.term.blocks {
            let two = b.term.jmps.len() == 2;
            if b.term.jmps.len() > 2 || (two && !(matches!(b.term.jmps[0].term, Jmp::CBranch { .. }) && matches!(b.term.jmps[1].term, Jmp::Branch(_)))) {
                ctx.label("unexpected-block-shape-after-normalization");
            }
        }
    }

    let s367 = expected_367(&ir, cfg);
    let s243 = expected_243(&ir, cfg);

    if !s367.expected.is_empty() {
        ctx.label("toctou-expected");
    }
    if s367.source_without_sink {
        ctx.label("toctou-check-call-without-reachable-use");
    }
    if s367.behind_second_source {
        ctx.label("toctou-use-only-behind-second-check");
    }
    if s367.only_in_callee {
        ctx.label("toctou-use-only-inside-callee");
    }
    if s367.sink_without_return_site {
        ctx.label("toctou-use-call-without-return-site-only");
    }
    if s243.chroot_calls > 0 {
        ctx.label("chroot-called");
    }
    if !s243.expected.is_empty() {
        ctx.label("chroot-warning-expected");
    }
    if s243.chdir_missing {
        ctx.label("chroot-chdir-not-imported");
    }
    if s243.safe_by_chdir_after {
        ctx.label("chroot-safe-chdir-reachable");
    }
    if s243.safe_by_privdrop {
        ctx.label("chroot-safe-chdir-and-privdrop-in-sub");
    }
    if s243.chroot_without_return_site {
        ctx.label("chroot-call-without-return-site");
    }
    if cfg.default {
        ctx.label("shipped-config");
    }
    if s367.differs_from_heuristic || s243.differs_from_heuristic {
        ctx.label("differs-from-same-sub-heuristic");
        ctx.nontrivial(fnv(format!("{:?}", case).as_bytes()));
    }
    ctx.sample(|| format!("{:?}: toctou expected {}, chroot calls {} warnings {}", case.cfg, s367.expected.len(), s243.chroot_calls, s243.expected.len()));
    ctx.extra_evaluations(1);

    // ---- CWE367
    match cut(|| (cwe_367::CWE_MODULE.run)(&ar, &cfg_json["CWE367"])) {
        Err(f) => ctx.report("C17:CWE367:panic", format!("{}\nconfig {:?}\n{}", f.detail, cfg, show_project(&project)))?,
        Ok((_logs, warnings)) => {
            let mut act_keys = vec![];
            for w in &warnings {
                if w.name != cwe_367::CWE_MODULE.name || w.version != cwe_367::CWE_MODULE.version || w.tids.len() != 2 || w.addresses.len() != 2 || w.symbols.len() != 2 || !w.other.is_empty() {
                    ctx.report("C17:CWE367:malformed-warning", format!("{:?}", w))?;
                    continue;
                }
                let key = Toctou { site_tid: w.tids[0].clone(), site_addr: w.addresses[0].clone(), source: w.symbols[0].clone(), sink: w.symbols[1].clone() };
                if let Some((_, cand)) = s367.expected.iter().find(|(k, _)| *k == key) {
                    if !cand.contains(&(w.tids[1].clone(), w.addresses[1].clone())) {
                        ctx.report(
                            "C17:CWE367:reported-use-call-not-reachable",
                            format!("warning {:?} names a use call that is not among the reachable ones {:?}\nconfig {:?}\n{}", wkey(w), cand, cfg, show_project(&project)),
                        )?;
                    }
                }
                act_keys.push(key);
            }
            let exp_keys: Vec<Toctou> = s367.expected.iter().map(|(k, _)| k.clone()).collect();
            let (missing, surplus) = multiset_diff(&exp_keys, &act_keys);
            if !missing.is_empty() {
                ctx.report(
                    "C17:CWE367:missing-warning",
                    format!("a use call is reachable from the return site of a check call, but no warning: {:?}\nreported {:?}\nconfig {:?}\n{}", missing, act_keys, cfg, show_project(&project)),
                )?;
            }
            if !surplus.is_empty() {
                ctx.report(
                    "C17:CWE367:unexpected-warning",
                    format!("warning although no use call is reachable without passing another check call: {:?}\nexpected {:?}\nconfig {:?}\n{}", surplus, exp_keys, cfg, show_project(&project)),
                )?;
            }
        }
    }

    // ---- CWE243
    match cut(|| (cwe_243::CWE_MODULE.run)(&ar, &cfg_json["CWE243"])) {
        Err(f) => {
            let sig = if s243.chroot_without_return_site { "C17:CWE243:panic-on-chroot-call-without-return-site" } else { "C17:CWE243:panic" };
            ctx.report(sig, format!("{}\nexpected warnings {:?}\nconfig {:?}\n{}", f.detail, s243.expected, cfg, show_project(&project)))?;
        }
        Ok((_logs, warnings)) => {
            let act: Vec<WKey> = warnings.iter().map(wkey).collect();
            let (missing, surplus) = multiset_diff(&s243.expected, &act);
            if !missing.is_empty() {
                ctx.report("C17:CWE243:missing-warning", format!("insecure chroot call not reported: {:?}\nreported {:?}\nconfig {:?}\n{}", missing, act, cfg, show_project(&project)))?;
            }
            if !surplus.is_empty() {
                ctx.report("C17:CWE243:unexpected-warning", format!("chroot call reported although it is secured: {:?}\nexpected {:?}\nconfig {:?}\n{}", surplus, s243.expected, cfg, show_project(&project)))?;
            }
        }
    }
    Ok(())
}

pub fn run(eng: &mut Engine) {
    eng.rule = "case = (program spec: extern table from a pool of check/use symbols, chroot, chdir, privilege functions, a non-returning extern and unrelated names; 1..3 subs of 1..8 blocks ending in branches, conditional branches, hinted indirect branches, dead ends, extern/internal/indirect calls with or without return site, CallOther, returns; configuration: random (check,use) pairs and privilege-dropping lists or the shipped config.json), normalized with Project::normalize, CFG from get_program_cfg; CWE367 and CWE243 module functions compared with an own worklist search over the normalized IR; non-trivial = for some check call / chroot call the answer differs from the heuristic 'the use function / chdir is called somewhere in the same sub'; distinct by hash of the decoded case".into();
    eng.assumptions = vec![
        "programs have the lifter's shape: unique tids, unique extern names, jump/return targets inside the same sub, a call is the only jump of its block, two-jump blocks are [CBranch, Branch]".into(),
        "the check and the use function of a configured pair are different functions".into(),
        "a CWE367 warning is identified by the block the check call returns to (tids[0]/addresses[0], as implemented), the pair (symbols) and a use call that must be one of the reachable ones".into(),
        "a use/chdir call counts as reachable only if it has a return site (the CFG has no edge for calls without one); the stronger reading is measured as label toctou-use-call-without-return-site-only".into(),
        "a chroot call may lack a return site only in a dedicated mode (about 10 % of the cases)".into(),
    ];
    let (defaults, default_json) = default_cfg();
    let cases = eng.tier.pick(600_000, 6_000_000);
    eng.random(
        "reachability-checkers",
        RandomSpec { cases, max_tape: 224 },
        |tape, ctx| {
            let mut t = Tape::new(tape);
            let case = decode(&mut t, &defaults);
            if case.cfg.default {
                check(&case, &default_json, ctx)
            } else {
                let j = cfg_to_json(&case.cfg);
                check(&case, &j, ctx)
            }
        },
        |tape| {
            let case = decode(&mut Tape::new(tape), &defaults);
            format!("{:?}\n{}", case, show_project(&build(&case.prog)))
        },
    );
    // floors are relative to the section's evaluations = 2 module runs per case
    eng.require_fraction("reachability-checkers", "toctou-expected", 0.02);
    eng.require_fraction("reachability-checkers", "toctou-check-call-without-reachable-use", 0.03);
    eng.require_fraction("reachability-checkers", "toctou-use-only-behind-second-check", 0.001);
    eng.require_fraction("reachability-checkers", "chroot-warning-expected", 0.03);
    eng.require_fraction("reachability-checkers", "chroot-safe-chdir-reachable", 0.01);
    eng.require_fraction("reachability-checkers", "chroot-safe-chdir-and-privdrop-in-sub", 0.002);
    eng.require_fraction("reachability-checkers", "differs-from-same-sub-heuristic", 0.02);
}
