//! Declarative specification of the interprocedural control flow graph (C08), reusable by C09.
//!
//! The specification is written as set comprehensions over the `Program` term (public fields
//! only, no repository logic) from the property statement and the module documentation of
//! `analysis/graph.rs`:
//!
//! * `P` (the (block, function) pairs) = least set with `(b, s)` for every block `b` listed in sub `s`,
//!   closed under: `(b, s) in P`, `t` an intraprocedural target of `b` (Branch/CBranch target,
//!   a target hint of a block ending in BranchInd, the return-to target of a Call/CallInd)
//!   implies `(block(t), s) in P`.
//! * nodes = `BlkStart(p)`, `BlkEnd(p)` for `p in P`; `CallSource{source: p, target: (entry(T), T)}`
//!   for every `Call` to a non-extern, non-empty sub `T` in the block of `p`;
//!   `CallReturn{call: p, return_: q}` for every such call that has a return target and every
//!   `q = (r, T) in P` whose block `r` contains a `Return`.
//! * edges = `Block: BlkStart(p) -> BlkEnd(p)`;
//!   `Jump(j, u): BlkEnd(p) -> BlkStart(block(t), s)` for every direct target / hint `t` of jump `j`,
//!   where `u` is the first jump of the block iff `j` is the second jump of a two-jump block;
//!   `CallCombine(c): BlkEnd(p) -> CallSource`, `Call(c): CallSource -> BlkStart(entry(T), T)`;
//!   `CrCallStub: CallSource -> CallReturn`, `CrReturnStub: BlkEnd(q) -> CallReturn`,
//!   `ReturnCombine(c): CallReturn -> BlkStart(block(ret), s)`;
//!   `ExternCallStub(c): BlkEnd(p) -> BlkStart(block(ret), s)` for every call to an extern symbol
//!   and every indirect call that has a return target; nothing else (CallOther, returns without
//!   caller, calls to empty or unknown subs, calls without return target get no return linkage).
//!
//! Note on `CrCallStub`: the module documentation of graph.rs still says the edge starts at the
//! `BlkEnd` node of the call site; the `CallSource` node was introduced later and both fixpoint
//! modules (forward: `CallCombine` forwards the value to `CallSource`, backward: `CallCombine`
//! expects a `CallFlowCombinator` merged from `Call` and `CrCallStub` at the `CallSource` node)
//! rely on the edge starting at the `CallSource` node. The specification follows the consumers.

use cwe_checker_lib::analysis::graph::{Edge, Graph, Node};
use cwe_checker_lib::intermediate_representation::*;
use petgraph::graph::NodeIndex;
use std::collections::{BTreeMap, BTreeSet, HashMap};

/// (block tid, sub tid)
pub type Pair = (Tid, Tid);

#[derive(Clone, Debug, PartialEq, Eq, PartialOrd, Ord)]
pub enum NodeKey {
    Start(Pair),
    End(Pair),
    CallSource { source: Pair, target: Pair },
    CallReturn { call: Pair, return_: Pair },
}

impl NodeKey {
    pub fn kind(&self) -> &'static str {
        match self {
            NodeKey::Start(_) => "BlkStart",
            NodeKey::End(_) => "BlkEnd",
            NodeKey::CallSource { .. } => "CallSource",
            NodeKey::CallReturn { .. } => "CallReturn",
        }
    }
}

#[derive(Clone, Debug, PartialEq, Eq, PartialOrd, Ord)]
pub enum EdgeKey {
    Block,
    Jump(Tid, Option<Tid>),
    Call(Tid),
    ExternCallStub(Tid),
    CrCallStub,
    CrReturnStub,
    CallCombine(Tid),
    ReturnCombine(Tid),
}

impl EdgeKey {
    pub fn kind(&self) -> &'static str {
        match self {
            EdgeKey::Block => "Block",
            EdgeKey::Jump(..) => "Jump",
            EdgeKey::Call(_) => "Call",
            EdgeKey::ExternCallStub(_) => "ExternCallStub",
            EdgeKey::CrCallStub => "CrCallStub",
            EdgeKey::CrReturnStub => "CrReturnStub",
            EdgeKey::CallCombine(_) => "CallCombine",
            EdgeKey::ReturnCombine(_) => "ReturnCombine",
        }
    }
}

pub type EdgeTriple = (NodeKey, NodeKey, EdgeKey);

/// Node and edge multisets (sorted vectors).
#[derive(Clone, Debug, PartialEq, Eq, Default)]
pub struct GraphSpec {
    pub nodes: Vec<NodeKey>,
    pub edges: Vec<EdgeTriple>,
}

/// Counters describing a specified graph (used for labels).
#[derive(Clone, Debug, Default)]
pub struct SpecInfo {
    /// pairs (b, s) where b is not listed in s
    pub shared_pairs: usize,
    pub call_sources: usize,
    pub call_returns: usize,
    pub extern_stubs: usize,
    pub jump_edges: usize,
    pub untaken_annotations: usize,
}

fn has_return(b: &Term<Blk>) -> bool {
    b.term.jmps.iter().any(|j| matches!(j.term, Jmp::Return(_)))
}

/// Intraprocedural successor tids of a block, as the closure of `P` needs them.
fn closure_targets(b: &Term<Blk>) -> Vec<&Tid> {
    let mut v = vec![];
    for j in &b.term.jmps {
        match &j.term {
            Jmp::Branch(t) | Jmp::CBranch { target: t, .. } => v.push(t),
            Jmp::BranchInd(_) => v.extend(b.term.indirect_jmp_targets.iter()),
            Jmp::Call { return_: Some(r), .. } | Jmp::CallInd { return_: Some(r), .. } => v.push(r),
            Jmp::Call { return_: None, .. } | Jmp::CallInd { return_: None, .. } => {}
            Jmp::CallOther { .. } | Jmp::Return(_) => {}
        }
    }
    v
}

/// The specified graph of a program. `Err` if the program is outside the specification's domain
/// (duplicate block tids, dangling intraprocedural target, more than two jumps in a block).
pub fn specify(prog: &Term<Program>) -> Result<(GraphSpec, SpecInfo), String> {
    let p = &prog.term;
    // block(t)
    let mut block: BTreeMap<&Tid, &Term<Blk>> = BTreeMap::new();
    for s in p.subs.values() {
        for b in &s.term.blocks {
            if block.insert(&b.tid, b).is_some() {
                return Err(format!("duplicate block tid {}", b.tid));
            }
            if b.term.jmps.len() > 2 {
                return Err(format!("block {} has more than two jumps", b.tid));
            }
        }
    }
    let lookup = |t: &Tid| -> Result<&Term<Blk>, String> { block.get(t).copied().ok_or_else(|| format!("dangling block tid {}", t)) };
    // P: least fixed point by naive iteration of the closure rule
    let mut pairs: BTreeSet<(&Tid, &Tid)> = BTreeSet::new();
    for s in p.subs.values() {
        for b in &s.term.blocks {
            pairs.insert((&b.tid, &s.tid));
        }
    }
    loop {
        let mut next = pairs.clone();
        for (b, s) in &pairs {
            for t in closure_targets(lookup(b)?) {
                let tb = lookup(t)?;
                next.insert((&tb.tid, *s));
            }
        }
        if next.len() == pairs.len() {
            break;
        }
        pairs = next;
    }
    let listed: BTreeSet<(&Tid, &Tid)> = p.subs.values().flat_map(|s| s.term.blocks.iter().map(move |b| (&b.tid, &s.tid))).collect();
    let mut info = SpecInfo::default();
    info.shared_pairs = pairs.iter().filter(|q| !listed.contains(q)).count();

    let key = |b: &Tid, s: &Tid| -> Pair { (b.clone(), s.clone()) };
    let mut nodes: Vec<NodeKey> = vec![];
    let mut edges: Vec<EdgeTriple> = vec![];
    for (b, s) in &pairs {
        let pk = key(b, s);
        nodes.push(NodeKey::Start(pk.clone()));
        nodes.push(NodeKey::End(pk.clone()));
        edges.push((NodeKey::Start(pk.clone()), NodeKey::End(pk.clone()), EdgeKey::Block));
        let blk = lookup(b)?;
        let jmps = &blk.term.jmps;
        for (i, j) in jmps.iter().enumerate() {
            let untaken: Option<Tid> = if jmps.len() == 2 && i == 1 { Some(jmps[0].tid.clone()) } else { None };
            let start_of = |t: &Tid| -> Result<NodeKey, String> { Ok(NodeKey::Start(key(&lookup(t)?.tid, s))) };
            match &j.term {
                Jmp::Branch(t) | Jmp::CBranch { target: t, .. } => {
                    edges.push((NodeKey::End(pk.clone()), start_of(t)?, EdgeKey::Jump(j.tid.clone(), untaken.clone())));
                    info.jump_edges += 1;
                    if untaken.is_some() {
                        info.untaken_annotations += 1;
                    }
                }
                Jmp::BranchInd(_) => {
                    for t in &blk.term.indirect_jmp_targets {
                        edges.push((NodeKey::End(pk.clone()), start_of(t)?, EdgeKey::Jump(j.tid.clone(), untaken.clone())));
                        info.jump_edges += 1;
                    }
                }
                Jmp::Call { target, return_ } => {
                    let ret_node = match return_ {
                        Some(r) => Some(start_of(r)?),
                        None => None,
                    };
                    if p.extern_symbols.contains_key(target) {
                        if let Some(rn) = ret_node {
                            edges.push((NodeKey::End(pk.clone()), rn, EdgeKey::ExternCallStub(j.tid.clone())));
                            info.extern_stubs += 1;
                        }
                    } else if let Some(callee) = p.subs.get(target) {
                        if let Some(entry) = callee.term.blocks.first() {
                            let tk = key(&entry.tid, &callee.tid);
                            let cs = NodeKey::CallSource { source: pk.clone(), target: tk.clone() };
                            nodes.push(cs.clone());
                            info.call_sources += 1;
                            edges.push((NodeKey::End(pk.clone()), cs.clone(), EdgeKey::CallCombine(j.tid.clone())));
                            edges.push((cs.clone(), NodeKey::Start(tk), EdgeKey::Call(j.tid.clone())));
                            if let Some(rn) = ret_node {
                                for (rb, rs) in pairs.iter().filter(|(_, rs)| **rs == callee.tid) {
                                    if has_return(lookup(rb)?) {
                                        let rk = key(rb, rs);
                                        let cr = NodeKey::CallReturn { call: pk.clone(), return_: rk.clone() };
                                        nodes.push(cr.clone());
                                        info.call_returns += 1;
                                        edges.push((cs.clone(), cr.clone(), EdgeKey::CrCallStub));
                                        edges.push((NodeKey::End(rk), cr.clone(), EdgeKey::CrReturnStub));
                                        edges.push((cr, rn.clone(), EdgeKey::ReturnCombine(j.tid.clone())));
                                    }
                                }
                            }
                        }
                    }
                }
                Jmp::CallInd { return_, .. } => {
                    if let Some(r) = return_ {
                        edges.push((NodeKey::End(pk.clone()), start_of(r)?, EdgeKey::ExternCallStub(j.tid.clone())));
                        info.extern_stubs += 1;
                    }
                }
                Jmp::CallOther { .. } | Jmp::Return(_) => {}
            }
        }
    }
    nodes.sort();
    edges.sort();
    Ok((GraphSpec { nodes, edges }, info))
}

fn pair_of(b: &Term<Blk>, s: &Term<Sub>) -> Pair {
    (b.tid.clone(), s.tid.clone())
}

pub fn node_key(n: &Node) -> NodeKey {
    match n {
        Node::BlkStart(b, s) => NodeKey::Start(pair_of(b, s)),
        Node::BlkEnd(b, s) => NodeKey::End(pair_of(b, s)),
        Node::CallSource { source, target } => NodeKey::CallSource { source: pair_of(source.0, source.1), target: pair_of(target.0, target.1) },
        Node::CallReturn { call, return_ } => NodeKey::CallReturn { call: pair_of(call.0, call.1), return_: pair_of(return_.0, return_.1) },
    }
}

pub fn edge_key(e: &Edge) -> EdgeKey {
    match e {
        Edge::Block => EdgeKey::Block,
        Edge::Jump(j, u) => EdgeKey::Jump(j.tid.clone(), u.map(|u| u.tid.clone())),
        Edge::Call(j) => EdgeKey::Call(j.tid.clone()),
        Edge::ExternCallStub(j) => EdgeKey::ExternCallStub(j.tid.clone()),
        Edge::CrCallStub => EdgeKey::CrCallStub,
        Edge::CrReturnStub => EdgeKey::CrReturnStub,
        Edge::CallCombine(j) => EdgeKey::CallCombine(j.tid.clone()),
        Edge::ReturnCombine(j) => EdgeKey::ReturnCombine(j.tid.clone()),
    }
}

/// Observe a built graph through its public node/edge types.
pub fn observe(g: &Graph) -> GraphSpec {
    let mut nodes: Vec<NodeKey> = g.node_indices().map(|n| node_key(&g[n])).collect();
    let mut edges: Vec<EdgeTriple> = g
        .edge_indices()
        .map(|e| {
            let (a, b) = g.edge_endpoints(e).expect("edge endpoints");
            (node_key(&g[a]), node_key(&g[b]), edge_key(&g[e]))
        })
        .collect();
    nodes.sort();
    edges.sort();
    GraphSpec { nodes, edges }
}

/// Do the term references carried by the nodes and edges point into `prog` (and to the terms
/// their tids name)? Returns a description of the first stray reference.
pub fn stray_reference(g: &Graph, prog: &Term<Program>) -> Option<String> {
    let mut blocks: HashMap<&Tid, &Term<Blk>> = HashMap::new();
    let mut jmps: HashMap<&Tid, &Term<Jmp>> = HashMap::new();
    for s in prog.term.subs.values() {
        for b in &s.term.blocks {
            blocks.entry(&b.tid).or_insert(b);
            for j in &b.term.jmps {
                jmps.entry(&j.tid).or_insert(j);
            }
        }
    }
    let okb = |b: &Term<Blk>| blocks.get(&b.tid).map(|x| std::ptr::eq(*x, b)).unwrap_or(false);
    let oks = |s: &Term<Sub>| prog.term.subs.get(&s.tid).map(|x| std::ptr::eq(x, s)).unwrap_or(false);
    let okj = |j: &Term<Jmp>| jmps.get(&j.tid).map(|x| std::ptr::eq(*x, j)).unwrap_or(false);
    for n in g.node_indices() {
        let ok = match &g[n] {
            Node::BlkStart(b, s) | Node::BlkEnd(b, s) => okb(b) && oks(s),
            Node::CallSource { source, target } => okb(source.0) && oks(source.1) && okb(target.0) && oks(target.1),
            Node::CallReturn { call, return_ } => okb(call.0) && oks(call.1) && okb(return_.0) && oks(return_.1),
        };
        if !ok {
            return Some(format!("node {:?} carries a term reference that is not the program's term of that tid", node_key(&g[n])));
        }
    }
    for e in g.edge_indices() {
        let ok = match &g[e] {
            Edge::Jump(j, u) => okj(j) && u.map(|u| okj(u)).unwrap_or(true),
            Edge::Call(j) | Edge::ExternCallStub(j) | Edge::CallCombine(j) | Edge::ReturnCombine(j) => okj(j),
            Edge::Block | Edge::CrCallStub | Edge::CrReturnStub => true,
        };
        if !ok {
            return Some(format!("edge {:?} carries a jump reference that is not the program's term of that tid", edge_key(&g[e])));
        }
    }
    None
}

/// Multiset difference a - b of two sorted vectors.
fn minus<T: Ord + Clone>(a: &[T], b: &[T]) -> Vec<T> {
    let (mut i, mut j) = (0, 0);
    let mut out = vec![];
    while i < a.len() {
        if j >= b.len() {
            out.push(a[i].clone());
            i += 1;
        } else if a[i] == b[j] {
            i += 1;
            j += 1;
        } else if a[i] < b[j] {
            out.push(a[i].clone());
            i += 1;
        } else {
            j += 1;
        }
    }
    out
}

/// Compare observed with specified multisets. `None` if equal; otherwise a stable class
/// (`missing-node:<kind>`, `extra-node:<kind>`, `jump-untaken-annotation`, `missing-edge:<kind>`,
/// `extra-edge:<kind>`) and a detailed description.
pub fn compare(spec: &GraphSpec, obs: &GraphSpec) -> Option<(String, String)> {
    if spec == obs {
        return None;
    }
    let mn = minus(&spec.nodes, &obs.nodes);
    let xn = minus(&obs.nodes, &spec.nodes);
    let me = minus(&spec.edges, &obs.edges);
    let xe = minus(&obs.edges, &spec.edges);
    let detail = format!("missing nodes {:?}\nextra nodes {:?}\nmissing edges {:?}\nextra edges {:?}", mn, xn, me, xe);
    // the annotation class: same endpoints and jump, different untaken-conditional
    for m in &me {
        if let EdgeKey::Jump(j, u) = &m.2 {
            if xe.iter().any(|x| x.0 == m.0 && x.1 == m.1 && matches!(&x.2, EdgeKey::Jump(j2, u2) if j2 == j && u2 != u)) {
                return Some(("jump-untaken-annotation".into(), detail));
            }
        }
    }
    const NK: [&str; 4] = ["BlkStart", "BlkEnd", "CallSource", "CallReturn"];
    const EK: [&str; 8] = ["Block", "Jump", "CallCombine", "Call", "ExternCallStub", "CrCallStub", "CrReturnStub", "ReturnCombine"];
    for k in NK {
        if mn.iter().any(|n| n.kind() == k) {
            return Some((format!("missing-node:{}", k), detail));
        }
    }
    for k in NK {
        if xn.iter().any(|n| n.kind() == k) {
            return Some((format!("extra-node:{}", k), detail));
        }
    }
    for k in EK {
        if me.iter().any(|e| e.2.kind() == k) {
            return Some((format!("missing-edge:{}", k), detail));
        }
    }
    for k in EK {
        if xe.iter().any(|e| e.2.kind() == k) {
            return Some((format!("extra-edge:{}", k), detail));
        }
    }
    Some(("differs".into(), detail))
}

/// Check `get_entry_nodes_of_subs`' result: exactly the non-empty subs, each mapped to the
/// `BlkStart` node of (entry block, sub).
pub fn check_entry_nodes(prog: &Term<Program>, g: &Graph, entries: &HashMap<Tid, NodeIndex>) -> Option<(String, String)> {
    let expected: BTreeMap<&Tid, NodeKey> = prog
        .term
        .subs
        .values()
        .filter_map(|s| s.term.blocks.first().map(|b| (&s.tid, NodeKey::Start((b.tid.clone(), s.tid.clone())))))
        .collect();
    let mut got: BTreeMap<&Tid, NodeKey> = BTreeMap::new();
    for (t, n) in entries {
        match g.node_weight(*n) {
            Some(w) => {
                got.insert(t, node_key(w));
            }
            None => return Some(("entry-nodes:invalid-index".into(), format!("sub {} mapped to a node index outside the graph", t))),
        }
    }
    if got != expected {
        let class = if got.len() < expected.len() {
            "entry-nodes:missing-sub"
        } else if got.len() > expected.len() {
            "entry-nodes:extra-sub"
        } else {
            "entry-nodes:wrong-node"
        };
        return Some((class.into(), format!("get_entry_nodes_of_subs = {:?}, specified {:?}", got, expected)));
    }
    None
}
