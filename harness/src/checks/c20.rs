//! C20 — format-string parsing yields the arguments the format consumes.
//!
//! Generator: format strings *derived* from the grammar
//!   fmt  ::= (literal | "%%" | spec)*
//!   spec ::= "%" flag? width? ("." digits?)? conv
//! Oracle: round trip against the generating derivation. The type/size table below is a literal
//! copy of the documented mapping (doc comments of `Datatype::from` and of
//! `parse_format_string_parameters`), it never calls the code under test.
//!
//! Code under test: `utils::arguments::parse_format_string_parameters(&str, &DatatypeProperties)
//! -> Result<Vec<(Datatype, ByteSize)>, Error>`. Callers obtain the string through
//! `read_string_until_null_terminator`, i.e. any valid UTF-8 text without NUL is in the domain.

use crate::conv::bs;
use crate::engine::{CaseResult, Ctx, Engine, RandomSpec};
use crate::tape::{fnv, Tape};
use cwe_checker_lib::intermediate_representation::{Datatype, DatatypeProperties};
use cwe_checker_lib::utils::arguments::parse_format_string_parameters;

/// Conversions without length modifier.
const SINGLE: [&str; 20] = ["d", "c", "C", "i", "o", "u", "x", "X", "e", "E", "f", "F", "g", "G", "a", "A", "n", "p", "s", "S"];
/// Conversions with length modifier that are supported (documented as Integer / Double).
const LEN_OK: [&str; 11] = ["hi", "hd", "hu", "lf", "lg", "le", "la", "lF", "lG", "lE", "lA"];
/// long / long long / long double: documented as "cannot be parsed yet" => the call must fail.
const LEN_REJECT: [&str; 14] = ["li", "ld", "lu", "lli", "lld", "llu", "Lf", "Lg", "Le", "La", "LF", "LG", "LE", "LA"];

/// What a conversion consumes, per the documentation at the pinned commit.
#[derive(Debug, Clone, Copy, PartialEq, Eq)]
enum Ty {
    /// `Datatype::Char`, size of an int (default argument promotion)
    Char,
    Integer,
    Pointer,
    Double,
    Reject,
}

fn conv_type(conv: &str) -> Ty {
    match conv {
        "c" | "C" => Ty::Char,
        "d" | "i" | "u" | "o" | "p" | "x" | "X" | "hi" | "hd" | "hu" => Ty::Integer,
        "s" | "S" | "n" => Ty::Pointer,
        "f" | "F" | "e" | "E" | "g" | "G" | "a" | "A" | "lf" | "lg" | "le" | "la" | "lF" | "lG" | "lE" | "lA" => Ty::Double,
        "li" | "ld" | "lu" | "lli" | "lld" | "llu" | "Lf" | "Lg" | "Le" | "La" | "LF" | "LG" | "LE" | "LA" => Ty::Reject,
        _ => unreachable!("conversion table of the harness is closed"),
    }
}

#[derive(Debug, Clone, PartialEq, Eq)]
enum Item {
    Lit(String),
    Esc,
    Spec { flag: Option<char>, width: String, prec: Option<String>, conv: &'static str },
}

#[derive(Debug, Clone)]
struct Case {
    items: Vec<Item>,
    /// sizes: char, double, float, integer, long double, long long, long, pointer, short
    sizes: [u64; 9],
    table: &'static str,
}

impl Case {
    fn text(&self) -> String {
        let mut s = String::new();
        for it in &self.items {
            match it {
                Item::Lit(l) => s.push_str(l),
                Item::Esc => s.push_str("%%"),
                Item::Spec { flag, width, prec, conv } => {
                    s.push('%');
                    if let Some(f) = flag {
                        s.push(*f);
                    }
                    s.push_str(width);
                    if let Some(p) = prec {
                        s.push('.');
                        s.push_str(p);
                    }
                    s.push_str(conv);
                }
            }
        }
        s
    }
    fn props(&self) -> DatatypeProperties {
        DatatypeProperties {
            char_size: bs(self.sizes[0] as usize),
            double_size: bs(self.sizes[1] as usize),
            float_size: bs(self.sizes[2] as usize),
            integer_size: bs(self.sizes[3] as usize),
            long_double_size: bs(self.sizes[4] as usize),
            long_long_size: bs(self.sizes[5] as usize),
            long_size: bs(self.sizes[6] as usize),
            pointer_size: bs(self.sizes[7] as usize),
            short_size: bs(self.sizes[8] as usize),
        }
    }
    /// Expected result from the derivation: None = must be rejected.
    fn expected(&self) -> Option<Vec<(&'static str, u64)>> {
        let mut out = vec![];
        let mut reject = false;
        for it in &self.items {
            if let Item::Spec { conv, .. } = it {
                match conv_type(conv) {
                    Ty::Char => out.push(("Char", self.sizes[3])),
                    Ty::Integer => out.push(("Integer", self.sizes[3])),
                    Ty::Pointer => out.push(("Pointer", self.sizes[7])),
                    Ty::Double => out.push(("Double", self.sizes[1])),
                    Ty::Reject => reject = true,
                }
            }
        }
        if reject {
            None
        } else {
            Some(out)
        }
    }
}

/// Literal alphabet: printable ASCII without '%', biased towards characters that look like parts of
/// a conversion (letters of the conversion class, length modifiers, digits, flags, '.').
const LOOKALIKE: &[u8] = b"dsciuxXfgeEaAnpoSCFGhlL0123456789+-#.";
const PLAIN: &[u8] = b" !\"$&'()*,/:;<=>?@BDHIJKMNOPQRTUVWYZ[\\]^_`bjkmqrtvwyz{|}~\t\n";
const UNICODE: [&str; 5] = ["\u{e9}", "\u{df}", "\u{20ac}", "\u{1f600}", "\u{4e2d}"];

fn decode_lit(t: &mut Tape) -> String {
    let n = 1 + t.below(4);
    let mut s = String::new();
    for _ in 0..n {
        let k = t.byte();
        if k < 150 {
            s.push(LOOKALIKE[t.below(LOOKALIKE.len())] as char);
        } else if k < 245 {
            s.push(PLAIN[t.below(PLAIN.len())] as char);
        } else {
            s.push_str(UNICODE[t.below(UNICODE.len())]);
        }
    }
    s
}

fn digits(t: &mut Tape, lo: usize, hi: usize) -> String {
    let n = lo + t.below(hi - lo + 1);
    let mut s = String::new();
    for _ in 0..n {
        s.push((b'0' + t.below(10) as u8) as char);
    }
    s
}

fn decode_spec(t: &mut Tape) -> Item {
    let k = t.byte();
    let conv: &'static str = if k < 140 {
        SINGLE[t.below(SINGLE.len())]
    } else if k < 205 {
        LEN_OK[t.below(LEN_OK.len())]
    } else {
        LEN_REJECT[t.below(LEN_REJECT.len())]
    };
    let flag = if t.prob(90) { Some(*t.choose(&['+', '-', '#', '0'])) } else { None };
    let width = if t.prob(100) { digits(t, 1, 3) } else { String::new() };
    let prec = if t.prob(90) { Some(digits(t, 0, 2)) } else { None };
    Item::Spec { flag, width, prec, conv }
}

const X64: [u64; 9] = [1, 8, 4, 4, 16, 8, 8, 8, 2];
const X86: [u64; 9] = [1, 8, 4, 4, 12, 8, 4, 4, 2];

fn decode(t: &mut Tape) -> Case {
    let (sizes, table) = match t.below(3) {
        0 => (X64, "x86_64"),
        1 => (X86, "x86_32"),
        _ => {
            let mut s = [0u64; 9];
            for x in s.iter_mut() {
                *x = 1 + t.below(16) as u64;
            }
            (s, "arbitrary")
        }
    };
    let n = t.below(9);
    let mut items = vec![];
    for _ in 0..n {
        let k = t.byte();
        let it = if k < 70 {
            Item::Lit(decode_lit(t))
        } else if k < 118 {
            Item::Esc
        } else {
            decode_spec(t)
        };
        items.push(it);
    }
    Case { items, sizes, table }
}

/// Model of the *defective* reading "every '%' may start a conversion, '%%' is not an escape".
/// It is used only to name a mismatch (signature), never to accept a result: a result that differs
/// from the derivation is always reported.
fn scan_without_escape(s: &str) -> Vec<String> {
    let b: Vec<char> = s.chars().collect();
    let mut out = vec![];
    let mut i = 0;
    while i < b.len() {
        if b[i] != '%' {
            i += 1;
            continue;
        }
        let mut j = i + 1;
        if j < b.len() && matches!(b[j], '+' | '-' | '#' | '0') {
            j += 1;
        }
        while j < b.len() && b[j].is_ascii_digit() {
            j += 1;
        }
        if j < b.len() && b[j] == '.' {
            j += 1;
        }
        while j < b.len() && b[j].is_ascii_digit() {
            j += 1;
        }
        let rest: String = b[j..].iter().take(3).collect();
        let mut found: Option<&'static str> = None;
        for c in SINGLE.iter() {
            if rest.starts_with(c) {
                found = Some(c);
                break;
            }
        }
        if found.is_none() {
            // the alternation lists the two-letter forms before the three-letter forms, but a
            // two-letter form is never a prefix of a three-letter one ("li" vs "lli"), so order is irrelevant
            for c in LEN_OK.iter().chain(LEN_REJECT.iter()) {
                if rest.starts_with(c) {
                    found = Some(c);
                    break;
                }
            }
        }
        match found {
            Some(c) => {
                out.push(c.to_string());
                i = j + c.chars().count();
            }
            None => i += 1,
        }
    }
    out
}

fn type_name(d: &Datatype) -> &'static str {
    match d {
        Datatype::Char => "Char",
        Datatype::Double => "Double",
        Datatype::Float => "Float",
        Datatype::Integer => "Integer",
        Datatype::LongDouble => "LongDouble",
        Datatype::LongLong => "LongLong",
        Datatype::Long => "Long",
        Datatype::Pointer => "Pointer",
        Datatype::Short => "Short",
    }
}

fn is_conv_start(c: char) -> bool {
    c.is_ascii_digit() || matches!(c, '+' | '-' | '#' | '.' | 'h' | 'l' | 'L') || SINGLE.iter().any(|s| s.starts_with(c))
}

fn check(case: &Case, ctx: &mut Ctx) -> CaseResult {
    let text = case.text();
    let props = case.props();
    let expected = case.expected();

    // classification
    let nspec = case.items.iter().filter(|i| matches!(i, Item::Spec { .. })).count();
    let nesc = case.items.iter().filter(|i| matches!(i, Item::Esc)).count();
    let lit_lookalike = case.items.iter().any(|i| matches!(i, Item::Lit(l) if l.chars().next().map(is_conv_start).unwrap_or(false)));
    let mut esc_then_convlike = false;
    for w in case.items.windows(2) {
        if matches!(w[0], Item::Esc) {
            if let Item::Lit(l) = &w[1] {
                if l.chars().next().map(is_conv_start).unwrap_or(false) {
                    esc_then_convlike = true;
                }
            }
        }
    }
    if nspec >= 2 {
        ctx.label("specs>=2");
    }
    if nspec == 0 {
        ctx.label("no-spec");
    }
    if nesc > 0 {
        ctx.label("has-escape");
    }
    if esc_then_convlike {
        ctx.label("escape-followed-by-conversion-lookalike");
    }
    if lit_lookalike {
        ctx.label("literal-starts-like-conversion");
    }
    if expected.is_none() {
        ctx.label("must-reject(long/long long/long double)");
    }
    if case.items.iter().any(|i| matches!(i, Item::Spec { flag: Some(_), .. })) {
        ctx.label("spec-with-flag");
    }
    if case.items.iter().any(|i| matches!(i, Item::Spec { width, .. } if !width.is_empty())) {
        ctx.label("spec-with-width");
    }
    if case.items.iter().any(|i| matches!(i, Item::Spec { prec: Some(_), .. })) {
        ctx.label("spec-with-precision");
    }
    if case.items.iter().any(|i| matches!(i, Item::Spec { conv, .. } if conv.len() > 1)) {
        ctx.label("spec-with-length-modifier");
    }
    if !text.is_ascii() {
        ctx.label("non-ascii-literal");
    }
    ctx.label(&format!("table-{}", case.table));
    if nspec >= 2 && (nesc > 0 || lit_lookalike) {
        ctx.nontrivial(fnv(format!("{}|{:?}", text, case.sizes).as_bytes()));
    }
    ctx.sample(|| format!("{:?} ({}) => {:?}", text, case.table, expected));

    let got = match ctx.cut(|| parse_format_string_parameters(&text, &props))? {
        Some(g) => g,
        None => return Ok(()),
    };
    let got: Option<Vec<(&'static str, u64)>> = match &got {
        Ok(v) => Some(v.iter().map(|(d, s)| (type_name(d), u64::from(*s))).collect()),
        Err(_) => None,
    };
    if got == expected {
        return Ok(());
    }
    // Mismatch. Name it.
    let detail = format!(
        "format {:?} (derivation {:?}, sizes {:?}): parser returned {}, the derivation consumes {}",
        text,
        case.items,
        case.sizes,
        match &got {
            Some(v) => format!("Ok({:?})", v),
            None => "Err".to_string(),
        },
        match &expected {
            Some(v) => format!("Ok({:?})", v),
            None => "Err (long/long long/long double form present)".to_string(),
        }
    );
    if nesc > 0 {
        // does the "no escape" reading explain the result exactly?
        let convs = scan_without_escape(&text);
        let mut reject = false;
        let mut list = vec![];
        for c in &convs {
            match conv_type(c) {
                Ty::Char => list.push(("Char", case.sizes[3])),
                Ty::Integer => list.push(("Integer", case.sizes[3])),
                Ty::Pointer => list.push(("Pointer", case.sizes[7])),
                Ty::Double => list.push(("Double", case.sizes[1])),
                Ty::Reject => reject = true,
            }
        }
        let no_escape_reading = if reject { None } else { Some(list) };
        if no_escape_reading == got {
            return ctx.report("C20:escaped-percent-starts-conversion", detail);
        }
    }
    match (&got, &expected) {
        (Some(_), None) => ctx.report("C20:unsupported-length-form-accepted", detail),
        (None, Some(_)) => ctx.report("C20:supported-format-rejected", detail),
        (Some(g), Some(e)) if g.len() != e.len() => ctx.report("C20:wrong-number-of-parameters", detail),
        (Some(g), Some(e)) => {
            let types_equal = g.iter().zip(e.iter()).all(|(a, b)| a.0 == b.0);
            if types_equal {
                ctx.report("C20:wrong-parameter-size", detail)
            } else {
                ctx.report("C20:wrong-parameter-type", detail)
            }
        }
        (None, None) => Ok(()),
    }
}

pub fn run(eng: &mut Engine) {
    // anyhow captures a backtrace for every Err when RUST_BACKTRACE is set (slowdown only)
    std::env::set_var("RUST_LIB_BACKTRACE", "0");
    eng.rule = "format strings derived from the grammar (literal | '%%' | '%' flag? width? ('.' digits?)? conv)*, 0..8 items, conversions from the 20 single letters and 25 length forms, literals biased to conversion look-alikes, 3 datatype size tables; expected list = the generating derivation. Non-trivial (distinct by text+sizes): >= 2 conversion specifications and (>= 1 '%%' escape or a literal that begins like a conversion)".into();
    eng.assumptions = vec![
        "domain = strings of the property's grammar; widths <= 3 digits, precisions <= 2 digits, literals 1..4 characters of printable ASCII (no '%'), tab/newline and five non-ASCII characters; no NUL (callers read the string up to NUL as UTF-8)".into(),
        "type table copied from the doc comment of Datatype::from: c,C -> Char (size of int), d i u o p x X hi hd hu -> Integer, s S n -> Pointer, float conversions incl. l forms -> Double, l/ll integer and L forms -> the call must return Err".into(),
        "a mismatch is named C20:escaped-percent-starts-conversion only if the result equals exactly what a scan without '%%' handling produces; it is still reported".into(),
    ];

    // 1. Exhaustive: every single specification (flag? width? precision? conv) on its own, also
    //    preceded by an escape and followed by a look-alike literal.
    let flags: [Option<char>; 5] = [None, Some('+'), Some('-'), Some('#'), Some('0')];
    let widths: [&str; 3] = ["", "5", "10"];
    let precs: [Option<&str>; 3] = [None, Some(""), Some("3")];
    let mut convs: Vec<&'static str> = vec![];
    convs.extend(SINGLE.iter());
    convs.extend(LEN_OK.iter());
    convs.extend(LEN_REJECT.iter());
    let contexts = 4u64;
    let total = (flags.len() * widths.len() * precs.len() * convs.len()) as u64 * contexts;
    let build = |i: u64| -> Case {
        let mut k = i;
        let c = (k % contexts) as usize;
        k /= contexts;
        let conv = convs[(k % convs.len() as u64) as usize];
        k /= convs.len() as u64;
        let prec = precs[(k % 3) as usize];
        k /= 3;
        let width = widths[(k % 3) as usize];
        k /= 3;
        let flag = flags[k as usize];
        let spec = Item::Spec { flag, width: width.to_string(), prec: prec.map(|s| s.to_string()), conv };
        let items = match c {
            0 => vec![spec],
            1 => vec![Item::Lit("a=".into()), spec, Item::Lit("d".into())],
            2 => vec![Item::Esc, spec.clone(), Item::Esc, Item::Lit(" x".into()), spec],
            _ => vec![spec.clone(), spec, Item::Lit("5s".into())],
        };
        Case { items, sizes: if i % 2 == 0 { X64 } else { X86 }, table: if i % 2 == 0 { "x86_64" } else { "x86_32" } }
    };
    eng.enumerate(
        "single-spec-grid",
        total,
        true,
        |i, ctx| {
            let case = build(i);
            check(&case, ctx)
        },
        |i| format!("{:?} text={:?}", build(i), build(i).text()),
    );

    // 2. Random derivations.
    let cases = eng.tier.pick(2_000_000u64, 16_000_000u64);
    eng.random(
        "derived-format-strings",
        RandomSpec { cases, max_tape: 96 },
        |tape, ctx| {
            let case = decode(&mut Tape::new(tape));
            check(&case, ctx)
        },
        |tape| {
            let c = decode(&mut Tape::new(tape));
            format!("text={:?} {:?}", c.text(), c)
        },
    );
    eng.require_fraction("derived-format-strings", "specs>=2", 0.25);
    eng.require_fraction("derived-format-strings", "has-escape", 0.25);
    eng.require_fraction("derived-format-strings", "literal-starts-like-conversion", 0.20);
    eng.require_fraction("derived-format-strings", "must-reject(long/long long/long double)", 0.10);
    eng.require_fraction("derived-format-strings", "escape-followed-by-conversion-lookalike", 0.03);
}
