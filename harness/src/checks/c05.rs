//! C05 — memory regions behave as a store of non-overlapping typed cells.
//!
//! Model-based (stateful) testing of `MemRegion<T>`: histories of at most 40 operations over two
//! regions A and B are decoded from the tape and executed on the real regions and on a plain
//! reference cell store (`Vec<Cell>`, overlap decided by scanning *all* cells). After EVERY step
//! both real regions are compared with the model (invariants, `iter()`, reads).
//!
//! The model semantics are taken from the property statement and the doc comments of the public
//! methods of `MemRegion`, not from its code paths:
//!   * write (`add` / `insert_at_byte_index`): everything overlapping `[off, off+size)` is gone,
//!     the value is stored unless it is the unknown value;
//!   * `remove(off, len)`: everything intersecting `[off, off+len)` is gone;
//!   * `merge_write_top(off, size)`: a cell with exactly this offset and size is merged with the
//!     unknown value (dropped if the result is unknown); otherwise like `remove(off, size)`;
//!   * `mark_interval_values_as_top(s, e, size)`: a write of `size` bytes to an unknown offset in
//!     `s..=e` may touch the bytes `[s, e+size)`; every cell intersecting them is merged with unknown;
//!   * `mark_all_values_as_top`: every cell is merged with unknown;
//!   * `add_offset_to_all_indices(k)`: all offsets shift by k;
//!   * `clear_top_values`: removes unknown cells (there are none; no-op), also exercised after the
//!     documented `values_mut()` use that turns a cell into the unknown value;
//!   * `merge`: a cell is kept iff both sides hold a cell with the same offset and size (value =
//!     merge of both, dropped if unknown) or it overlaps nothing on the other side (value merged
//!     with unknown, dropped if unknown);
//!   * `get(off, size)`: value of the cell with exactly that offset and size, else unknown(size);
//!     `get_unsized(off)`: value of the cell starting at off, if any.
//!
//! Two cell types: `BitvectorDomain` (unknown is maximal, merging with it erases) and
//! `DataDomain<BitvectorDomain>` (merging with unknown only sets a flag). The value models
//! (`MBv`, `MData`) are the harness' own reading of the documentation of these domains.

use crate::engine::{CaseResult, Ctx, Engine, Failure, RandomSpec};
use crate::tape::{fnv, Tape};
use cwe_checker_lib::abstract_domain::{AbstractDomain, AbstractIdentifier, BitvectorDomain, DataDomain, HasTop, MemRegion, SizedDomain};
use cwe_checker_lib::intermediate_representation::{Bitvector, ByteSize, Tid, Variable};
use std::collections::BTreeMap;
use std::fmt::Debug;

// 16: cells wider than the address size of the region (vector register values on the stack)
const SIZES: [usize; 5] = [1, 2, 4, 8, 16];
const MAX_OPS: usize = 40;
const OFF_LO: i64 = -24;
const OFF_HI: i64 = 24;

// ---------------------------------------------------------------------------------------------
// Value models

/// A model of a cell value together with the bridge to the repository's value type.
pub trait CellModel: Clone + Debug + PartialEq + Send + Sync + 'static {
    type Real: AbstractDomain + SizedDomain + HasTop + Debug + Clone;
    const NAME: &'static str;
    fn size(&self) -> usize;
    fn top(size: usize) -> Self;
    fn is_top(&self) -> bool;
    fn merge(&self, other: &Self) -> Self;
    /// A fresh value carrying `tag`; `flavor` selects the shape (0 = simplest).
    fn fresh(tag: u64, size: usize, flavor: usize) -> Self;
    const FLAVORS: usize;
    /// Build the repository value (calls repository constructors: only inside `cut`).
    fn build(&self) -> Self::Real;
    /// Observe a repository value through its public getters.
    fn observe(r: &Self::Real) -> Self;
}

fn bvu(v: u64, size: usize) -> Bitvector {
    match size {
        1 => Bitvector::from_u8(v as u8),
        2 => Bitvector::from_u16(v as u16),
        4 => Bitvector::from_u32(v as u32),
        16 => Bitvector::from_u64(v).into_zero_extend(128).unwrap(),
        _ => Bitvector::from_u64(v),
    }
}

fn bv_to_u64(b: &Bitvector) -> u64 {
    let c = crate::conv::to_v(b);
    c.v as u64
}

/// Model of `BitvectorDomain`: a known constant or unknown.
#[derive(Clone, Debug, PartialEq, Eq)]
pub struct MBv {
    size: usize,
    val: Option<u64>,
}

impl MBv {
    fn build_bv(&self) -> BitvectorDomain {
        match self.val {
            Some(v) => BitvectorDomain::Value(bvu(v, self.size)),
            None => BitvectorDomain::Top(ByteSize::new(self.size as u64)),
        }
    }
    fn observe_bv(r: &BitvectorDomain) -> MBv {
        match r {
            BitvectorDomain::Top(s) => MBv { size: u64::from(*s) as usize, val: None },
            BitvectorDomain::Value(b) => MBv { size: crate::conv::to_v(b).w, val: Some(bv_to_u64(b)) },
        }
    }
    fn merge_bv(&self, o: &MBv) -> MBv {
        // "merge two values. Returns Top if the values are not equal."
        if self == o {
            self.clone()
        } else {
            MBv { size: self.size, val: None }
        }
    }
}

impl CellModel for MBv {
    type Real = BitvectorDomain;
    const NAME: &'static str = "BitvectorDomain";
    const FLAVORS: usize = 1;
    fn size(&self) -> usize {
        self.size
    }
    fn top(size: usize) -> Self {
        MBv { size, val: None }
    }
    fn is_top(&self) -> bool {
        self.val.is_none()
    }
    fn merge(&self, other: &Self) -> Self {
        self.merge_bv(other)
    }
    fn fresh(tag: u64, size: usize, _flavor: usize) -> Self {
        MBv { size, val: Some(tag) }
    }
    fn build(&self) -> BitvectorDomain {
        self.build_bv()
    }
    fn observe(r: &BitvectorDomain) -> Self {
        MBv::observe_bv(r)
    }
}

/// Model of `DataDomain<BitvectorDomain>`: optional absolute value, offsets relative to abstract
/// identifiers (two identifiers are used), and the "contains unknown values" flag.
/// The unknown value ("Top") is: no absolute value, no relative values, flag set.
#[derive(Clone, Debug, PartialEq, Eq)]
pub struct MData {
    size: usize,
    abs: Option<MBv>,
    rel: BTreeMap<u8, MBv>,
    top: bool,
}

fn ids() -> &'static [AbstractIdentifier; 2] {
    static IDS: std::sync::OnceLock<[AbstractIdentifier; 2]> = std::sync::OnceLock::new();
    IDS.get_or_init(|| {
        let mk = |n: &str| {
            AbstractIdentifier::from_var(Tid::new("c05"), &Variable { name: n.to_string(), size: ByteSize::new(8), is_temp: false })
        };
        [mk("RA"), mk("RB")]
    })
}

impl CellModel for MData {
    type Real = DataDomain<BitvectorDomain>;
    const NAME: &'static str = "DataDomain<BitvectorDomain>";
    const FLAVORS: usize = 8;
    fn size(&self) -> usize {
        self.size
    }
    fn top(size: usize) -> Self {
        MData { size, abs: None, rel: BTreeMap::new(), top: true }
    }
    fn is_top(&self) -> bool {
        self.abs.is_none() && self.rel.is_empty() && self.top
    }
    fn merge(&self, o: &Self) -> Self {
        // union of the targets (offsets merged per identifier), merged absolute values, either flag
        let mut rel = self.rel.clone();
        for (id, off) in o.rel.iter() {
            match rel.get(id) {
                Some(mine) => {
                    let m = mine.merge_bv(off);
                    rel.insert(*id, m);
                }
                None => {
                    rel.insert(*id, off.clone());
                }
            }
        }
        let abs = match (&self.abs, &o.abs) {
            (Some(l), Some(r)) => Some(l.merge_bv(r)),
            (Some(v), None) | (None, Some(v)) => Some(v.clone()),
            (None, None) => None,
        };
        MData { size: self.size, abs, rel, top: self.top || o.top }
    }
    fn fresh(tag: u64, size: usize, flavor: usize) -> Self {
        let v = MBv { size, val: Some(tag) };
        let mut d = MData { size, abs: None, rel: BTreeMap::new(), top: false };
        match flavor {
            0 | 1 => d.abs = Some(v),
            2 => {
                d.abs = Some(v);
                d.top = true;
            }
            3 => {
                d.rel.insert(0, v);
            }
            4 => {
                d.rel.insert(1, v);
                d.top = true;
            }
            5 => {
                d.rel.insert(0, v.clone());
                d.abs = Some(v);
            }
            6 => {
                d.rel.insert(0, v.clone());
                d.rel.insert(1, MBv { size, val: None });
            }
            _ => {
                // absolute value known to exist but with unknown content, plus a target
                d.abs = Some(MBv { size, val: None });
                d.rel.insert(1, v);
            }
        }
        d
    }
    fn build(&self) -> DataDomain<BitvectorDomain> {
        let mut d: DataDomain<BitvectorDomain> = DataDomain::new_empty(ByteSize::new(self.size as u64));
        if let Some(a) = &self.abs {
            d.set_absolute_value(Some(a.build_bv()));
        }
        if !self.rel.is_empty() {
            let m: BTreeMap<AbstractIdentifier, BitvectorDomain> = self.rel.iter().map(|(k, v)| (ids()[*k as usize].clone(), v.build_bv())).collect();
            d.set_relative_values(m);
        }
        if self.top {
            d.set_contains_top_flag();
        }
        d
    }
    fn observe(r: &DataDomain<BitvectorDomain>) -> Self {
        let mut rel = BTreeMap::new();
        for (id, off) in r.get_relative_values().iter() {
            let k = if *id == ids()[0] {
                0u8
            } else if *id == ids()[1] {
                1u8
            } else {
                255u8
            };
            rel.insert(k, MBv::observe_bv(off));
        }
        MData { size: u64::from(r.bytesize()) as usize, abs: r.get_absolute_value().map(MBv::observe_bv), rel, top: r.contains_top() }
    }
}

// ---------------------------------------------------------------------------------------------
// Reference cell store

#[derive(Clone, Debug, PartialEq)]
struct Cell<M> {
    off: i64,
    size: i64,
    val: M,
}

fn overlaps(a_off: i64, a_size: i64, b_off: i64, b_size: i64) -> bool {
    a_off < b_off + b_size && b_off < a_off + a_size
}

#[derive(Clone, Debug, PartialEq)]
struct Store<M> {
    cells: Vec<Cell<M>>,
}

impl<M: CellModel> Store<M> {
    fn new() -> Self {
        Store { cells: vec![] }
    }
    fn clear(&mut self, off: i64, len: i64) {
        self.cells.retain(|c| !overlaps(c.off, c.size, off, len));
    }
    fn write(&mut self, off: i64, val: M) {
        let size = val.size() as i64;
        self.clear(off, size);
        if !val.is_top() {
            self.cells.push(Cell { off, size, val });
        }
    }
    fn weaken_where(&mut self, pred: impl Fn(&Cell<M>) -> bool) {
        let mut out = vec![];
        for c in self.cells.drain(..) {
            if pred(&c) {
                let v = c.val.merge(&M::top(c.size as usize));
                if !v.is_top() {
                    out.push(Cell { off: c.off, size: c.size, val: v });
                }
            } else {
                out.push(c);
            }
        }
        self.cells = out;
    }
    fn merge_write_top(&mut self, off: i64, size: i64) {
        if self.cells.iter().any(|c| c.off == off && c.size == size) {
            self.weaken_where(|c| c.off == off && c.size == size);
        } else {
            self.clear(off, size);
        }
    }
    fn shift(&mut self, k: i64) {
        for c in self.cells.iter_mut() {
            c.off += k;
        }
    }
    fn sorted(&self) -> Vec<Cell<M>> {
        let mut v = self.cells.clone();
        v.sort_by_key(|c| c.off);
        v
    }
    fn merged_with(&self, other: &Store<M>) -> Store<M> {
        let mut out = vec![];
        for c in self.cells.iter() {
            if let Some(d) = other.cells.iter().find(|d| d.off == c.off && d.size == c.size) {
                let v = c.val.merge(&d.val);
                if !v.is_top() {
                    out.push(Cell { off: c.off, size: c.size, val: v });
                }
            } else if !other.cells.iter().any(|d| overlaps(c.off, c.size, d.off, d.size)) {
                let v = c.val.merge(&M::top(c.size as usize));
                if !v.is_top() {
                    out.push(Cell { off: c.off, size: c.size, val: v });
                }
            }
        }
        for d in other.cells.iter() {
            if self.cells.iter().any(|c| overlaps(c.off, c.size, d.off, d.size)) {
                continue; // same (off,size) handled above; any other overlap drops the cell
            }
            let v = d.val.merge(&M::top(d.size as usize));
            if !v.is_top() {
                out.push(Cell { off: d.off, size: d.size, val: v });
            }
        }
        Store { cells: out }
    }
    fn get(&self, off: i64, size: usize) -> M {
        match self.cells.iter().find(|c| c.off == off && c.size == size as i64) {
            Some(c) => c.val.clone(),
            None => M::top(size),
        }
    }
    fn get_unsized(&self, off: i64) -> Option<M> {
        self.cells.iter().find(|c| c.off == off).map(|c| c.val.clone())
    }
}

// ---------------------------------------------------------------------------------------------
// Histories

#[derive(Clone, Debug, PartialEq)]
enum Op<M> {
    Get { r: usize, off: i64, size: usize },
    GetUnsized { r: usize, off: i64 },
    Write { r: usize, off: i64, val: M, via_add: bool },
    WriteTop { r: usize, off: i64, size: usize, via_add: bool },
    Remove { r: usize, off: i64, len: i64 },
    MergeWriteTop { r: usize, off: i64, size: usize },
    MarkInterval { r: usize, start: i64, end: i64, size: usize },
    MarkAll { r: usize },
    Shift { r: usize, k: i64 },
    ClearTop { r: usize },
    /// documented use of `values_mut()`: turn the idx-th cell (offset order) into the unknown
    /// value, then `clear_top_values()`
    PoisonAndClear { r: usize, idx: usize },
    /// region r := r.merge(other region)
    Merge { r: usize },
    /// other region := r.clone()
    CloneTo { r: usize },
}

impl<M> Op<M> {
    fn kind(&self) -> &'static str {
        match self {
            Op::Get { .. } => "get",
            Op::GetUnsized { .. } => "get_unsized",
            Op::Write { via_add: true, .. } => "add",
            Op::Write { via_add: false, .. } => "insert_at_byte_index",
            Op::WriteTop { .. } => "write-top",
            Op::Remove { .. } => "remove",
            Op::MergeWriteTop { .. } => "merge_write_top",
            Op::MarkInterval { .. } => "mark_interval_values_as_top",
            Op::MarkAll { .. } => "mark_all_values_as_top",
            Op::Shift { .. } => "add_offset_to_all_indices",
            Op::ClearTop { .. } => "clear_top_values",
            Op::PoisonAndClear { .. } => "values_mut+clear_top_values",
            Op::Merge { .. } => "merge",
            Op::CloneTo { .. } => "clone",
        }
    }
}

/// Pure decoder. The history ends when the tape is exhausted (so deleting tape chunks deletes
/// operations) or after `MAX_OPS` operations. A zero byte selects the simplest choice everywhere.
fn decode<M: CellModel>(t: &mut Tape) -> Vec<Op<M>> {
    let n = t.below(MAX_OPS + 1);
    let mut ops = vec![];
    // (offset, size) of earlier writes (decoder-side hint list; makes overlaps and exact hits frequent)
    let mut hot: Vec<(i64, usize)> = vec![];
    let mut tag: u64 = 0;
    while ops.len() < n && !t.exhausted() {
        let kind = t.below(100);
        let r = t.below(2);
        // place: anywhere in the window (22 %), near an earlier write (56 %), exactly an earlier cell (22 %)
        let place = |t: &mut Tape, hot: &Vec<(i64, usize)>| -> (i64, usize) {
            let sel = t.byte();
            if sel < 56 || hot.is_empty() {
                let v = t.range(0, OFF_HI - OFF_LO);
                // 0 -> offset 0, then -1, 1, -2, 2 ...
                let o = if v % 2 == 0 { v / 2 } else { -(v + 1) / 2 };
                (o, *t.choose(&SIZES))
            } else {
                let (base, bsize) = hot[t.below(hot.len())];
                if sel >= 200 {
                    (base, bsize)
                } else {
                    let d = *t.choose(&[0i64, 1, -1, 2, -2, 3, -3, 4, -4, 5, -5, 6, -6, 7, -7, 8, -8]);
                    ((base + d).clamp(OFF_LO, OFF_HI), *t.choose(&SIZES))
                }
            }
        };
        let op = match kind {
            0..=6 => {
                let (off, size) = place(t, &hot);
                Op::Get { r, off, size }
            }
            7..=10 => Op::GetUnsized { r, off: place(t, &hot).0 },
            11..=52 => {
                let (o, size) = place(t, &hot);
                let flavor = t.below(M::FLAVORS);
                let via_add = t.flag();
                tag += 1;
                hot.push((o, size));
                Op::Write { r, off: o, val: M::fresh(tag, size, flavor), via_add }
            }
            53..=56 => {
                let (off, size) = place(t, &hot);
                Op::WriteTop { r, off, size, via_add: t.flag() }
            }
            57..=62 => Op::Remove { r, off: place(t, &hot).0, len: t.range(1, 12) },
            63..=69 => {
                let (off, size) = place(t, &hot);
                Op::MergeWriteTop { r, off, size }
            }
            70..=75 => {
                let (start, size) = place(t, &hot);
                let end = start + t.range(0, 12);
                Op::MarkInterval { r, start, end, size }
            }
            76..=77 => Op::MarkAll { r },
            78..=82 => {
                let v = t.range(0, 16);
                let k = if v % 2 == 0 { v / 2 } else { -(v + 1) / 2 };
                for h in hot.iter_mut() {
                    // keep the hints roughly aligned with shifted cells (hint only)
                    h.0 = (h.0 + k).clamp(OFF_LO, OFF_HI);
                }
                Op::Shift { r, k }
            }
            83 => Op::ClearTop { r },
            84..=86 => Op::PoisonAndClear { r, idx: t.below(6) },
            87..=94 => Op::Merge { r },
            _ => Op::CloneTo { r },
        };
        ops.push(op);
    }
    ops
}

// ---------------------------------------------------------------------------------------------
// Execution and comparison

fn pos_bv(off: i64) -> Bitvector {
    Bitvector::from_i64(off)
}

struct Flags {
    partial_overlap_write: bool,
    multi_overlap_write: bool,
    merge_diverged: bool,
    merge_cross_overlap: bool,
    merge_same_cell_diff_value: bool,
    exact_rewrite: bool,
    clone_then_write: bool,
    merge_write_top_exact: bool,
    mark_hits: bool,
    shift_nonempty: bool,
}

/// Compare one real region with its model store. `sweep` also compares reads at all offsets of
/// the window (extended to cover every cell) and all sizes.
fn compare<M: CellModel>(real: &MemRegion<M::Real>, model: &Store<M>, name: &str, after: &str, sweep: bool, ctx: &mut Ctx) -> CaseResult {
    let observed: Vec<(i64, M, bool)> = match ctx.cut(|| real.iter().map(|(o, v)| (*o, M::observe(v), v.is_top())).collect::<Vec<_>>())? {
        Some(v) => v,
        None => return Ok(()),
    };
    // (a) invariants of the real region
    for (i, (o1, v1, real_top)) in observed.iter().enumerate() {
        if v1.is_top() || *real_top {
            ctx.report(
                format!("C05:top-cell-stored:after-{}", after),
                format!("[{}] region {} stores the unknown value at offset {}: {:?}", M::NAME, name, o1, v1),
            )?;
        }
        for (o2, v2, _) in observed.iter().skip(i + 1) {
            if overlaps(*o1, v1.size() as i64, *o2, v2.size() as i64) {
                ctx.report(
                    format!("C05:overlapping-cells:after-{}", after),
                    format!("[{}] region {} holds overlapping cells ({}, size {}) and ({}, size {})", M::NAME, name, o1, v1.size(), o2, v2.size()),
                )?;
            }
        }
    }
    // (b) iter() equals the model cell for cell
    let want = model.sorted();
    let same = want.len() == observed.len() && want.iter().zip(observed.iter()).all(|(w, (o, v, _))| w.off == *o && w.val == *v);
    if !same {
        ctx.report(
            format!("C05:iter-differs-from-model:after-{}", after),
            format!(
                "[{}] region {} after {}:\n  real : {:?}\n  model: {:?}",
                M::NAME,
                name,
                after,
                observed.iter().map(|(o, v, _)| (*o, v.clone())).collect::<Vec<_>>(),
                want.iter().map(|c| (c.off, c.val.clone())).collect::<Vec<_>>()
            ),
        )?;
        return Ok(()); // known finding: do not pile read differences on top
    }
    // (c) reads
    if sweep {
        let mut lo = OFF_LO - 2;
        let mut hi = OFF_HI + 2;
        for (o, v, _) in observed.iter() {
            lo = lo.min(*o - 9);
            hi = hi.max(*o + v.size() as i64 + 1);
        }
        let mut n = 0u64;
        for off in lo..=hi {
            for size in SIZES {
                let got = match ctx.cut(|| M::observe(&real.get(pos_bv(off), ByteSize::new(size as u64))))? {
                    Some(g) => g,
                    None => continue,
                };
                let want = model.get(off, size);
                n += 1;
                if got != want {
                    ctx.report(
                        format!("C05:get-differs-from-model:after-{}", after),
                        format!("[{}] region {}: get({}, {}) = {:?}, model {:?}", M::NAME, name, off, size, got, want),
                    )?;
                }
            }
            let got = match ctx.cut(|| real.get_unsized(pos_bv(off)).map(|v| M::observe(&v)))? {
                Some(g) => g,
                None => continue,
            };
            let want = model.get_unsized(off);
            n += 1;
            if got != want {
                ctx.report(
                    format!("C05:get_unsized-differs-from-model:after-{}", after),
                    format!("[{}] region {}: get_unsized({}) = {:?}, model {:?}", M::NAME, name, off, got, want),
                )?;
            }
        }
        ctx.label_n("reads-compared", n);
    }
    Ok(())
}

fn run_history<M: CellModel>(ops: &[Op<M>], ctx: &mut Ctx, classify: bool) -> CaseResult {
    let mut real: [MemRegion<M::Real>; 2] = match ctx.cut(|| [MemRegion::new(ByteSize::new(8)), MemRegion::new(ByteSize::new(8))])? {
        Some(r) => r,
        None => return Ok(()),
    };
    let mut model: [Store<M>; 2] = [Store::new(), Store::new()];
    let names = ["A", "B"];
    let mut fl = Flags {
        partial_overlap_write: false,
        multi_overlap_write: false,
        merge_diverged: false,
        merge_cross_overlap: false,
        merge_same_cell_diff_value: false,
        exact_rewrite: false,
        clone_then_write: false,
        merge_write_top_exact: false,
        mark_hits: false,
        shift_nonempty: false,
    };
    let mut shares_storage = false; // set by clone, cleared by the next modification
    for (step, op) in ops.iter().enumerate() {
        let kind = op.kind();
        // which regions are modified by this step (they get the full read sweep)
        let mut touched = [false, false];
        let ok: Option<()> = match op {
            Op::Get { r, off, size } => {
                let got = ctx.cut(|| M::observe(&real[*r].get(pos_bv(*off), ByteSize::new(*size as u64))))?;
                if let Some(got) = got {
                    let want = model[*r].get(*off, *size);
                    if got != want {
                        ctx.report(
                            "C05:get-differs-from-model:direct".to_string(),
                            format!("[{}] step {}: region {} get({}, {}) = {:?}, model {:?}", M::NAME, step, names[*r], off, size, got, want),
                        )?;
                    }
                }
                Some(())
            }
            Op::GetUnsized { r, off } => {
                let got = ctx.cut(|| real[*r].get_unsized(pos_bv(*off)).map(|v| M::observe(&v)))?;
                if let Some(got) = got {
                    let want = model[*r].get_unsized(*off);
                    if got != want {
                        ctx.report(
                            "C05:get_unsized-differs-from-model:direct".to_string(),
                            format!("[{}] step {}: region {} get_unsized({}) = {:?}, model {:?}", M::NAME, step, names[*r], off, got, want),
                        )?;
                    }
                }
                Some(())
            }
            Op::Write { r, off, val, via_add } => {
                let size = val.size() as i64;
                let hit: Vec<&Cell<M>> = model[*r].cells.iter().filter(|c| overlaps(c.off, c.size, *off, size)).collect();
                if hit.iter().any(|c| c.off != *off || c.size != size) {
                    fl.partial_overlap_write = true;
                }
                if hit.len() >= 2 {
                    fl.multi_overlap_write = true;
                }
                if hit.len() == 1 && hit[0].off == *off && hit[0].size == size {
                    fl.exact_rewrite = true;
                }
                if shares_storage {
                    fl.clone_then_write = true;
                }
                touched[*r] = true;
                model[*r].write(*off, val.clone());
                let reg = &mut real[*r];
                ctx.cut(|| {
                    let v = val.build();
                    if *via_add {
                        reg.add(v, pos_bv(*off))
                    } else {
                        reg.insert_at_byte_index(v, *off)
                    }
                })?
            }
            Op::WriteTop { r, off, size, via_add } => {
                touched[*r] = true;
                model[*r].write(*off, M::top(*size));
                let reg = &mut real[*r];
                ctx.cut(|| {
                    let v = M::top(*size).build();
                    if *via_add {
                        reg.add(v, pos_bv(*off))
                    } else {
                        reg.insert_at_byte_index(v, *off)
                    }
                })?
            }
            Op::Remove { r, off, len } => {
                touched[*r] = true;
                model[*r].clear(*off, *len);
                let reg = &mut real[*r];
                ctx.cut(|| reg.remove(pos_bv(*off), Bitvector::from_i64(*len)))?
            }
            Op::MergeWriteTop { r, off, size } => {
                touched[*r] = true;
                if model[*r].cells.iter().any(|c| c.off == *off && c.size == *size as i64) {
                    fl.merge_write_top_exact = true;
                }
                model[*r].merge_write_top(*off, *size as i64);
                let reg = &mut real[*r];
                ctx.cut(|| reg.merge_write_top(pos_bv(*off), ByteSize::new(*size as u64)))?
            }
            Op::MarkInterval { r, start, end, size } => {
                touched[*r] = true;
                let (s, e) = (*start, *end + *size as i64);
                if model[*r].cells.iter().any(|c| overlaps(c.off, c.size, s, e - s)) {
                    fl.mark_hits = true;
                }
                model[*r].weaken_where(|c| overlaps(c.off, c.size, s, e - s));
                let reg = &mut real[*r];
                ctx.cut(|| reg.mark_interval_values_as_top(*start, *end, ByteSize::new(*size as u64)))?
            }
            Op::MarkAll { r } => {
                touched[*r] = true;
                model[*r].weaken_where(|_| true);
                let reg = &mut real[*r];
                ctx.cut(|| reg.mark_all_values_as_top())?
            }
            Op::Shift { r, k } => {
                touched[*r] = true;
                if *k != 0 && !model[*r].cells.is_empty() {
                    fl.shift_nonempty = true;
                }
                model[*r].shift(*k);
                let reg = &mut real[*r];
                ctx.cut(|| reg.add_offset_to_all_indices(*k))?
            }
            Op::ClearTop { r } => {
                touched[*r] = true;
                let reg = &mut real[*r];
                ctx.cut(|| reg.clear_top_values())?
            }
            Op::PoisonAndClear { r, idx } => {
                touched[*r] = true;
                let sorted = model[*r].sorted();
                if let Some(c) = sorted.get(*idx) {
                    let o = c.off;
                    model[*r].cells.retain(|c| c.off != o);
                }
                let reg = &mut real[*r];
                ctx.cut(|| {
                    for (i, v) in reg.values_mut().enumerate() {
                        if i == *idx {
                            *v = v.top();
                        }
                    }
                    reg.clear_top_values();
                })?
            }
            Op::Merge { r } => {
                let o = 1 - *r;
                touched[*r] = true;
                if !model[*r].cells.is_empty() && !model[o].cells.is_empty() && model[*r].sorted() != model[o].sorted() {
                    fl.merge_diverged = true;
                    let mut cross = false;
                    let mut samecell = false;
                    for c in model[*r].cells.iter() {
                        for d in model[o].cells.iter() {
                            if overlaps(c.off, c.size, d.off, d.size) {
                                if c.off != d.off || c.size != d.size {
                                    cross = true;
                                } else if c.val != d.val {
                                    samecell = true;
                                }
                            }
                        }
                    }
                    fl.merge_cross_overlap |= cross;
                    fl.merge_same_cell_diff_value |= samecell;
                }
                model[*r] = model[*r].merged_with(&model[o]);
                let merged = {
                    let (a, b) = (&real[*r], &real[o]);
                    ctx.cut(|| a.merge(b))?
                };
                merged.map(|m| {
                    real[*r] = m;
                })
            }
            Op::CloneTo { r } => {
                let o = 1 - *r;
                touched[o] = true;
                model[o] = model[*r].clone();
                let c = {
                    let a = &real[*r];
                    ctx.cut(|| a.clone())?
                };
                c.map(|c| {
                    real[o] = c;
                })
            }
        };
        if ok.is_none() {
            // a panic listed as open known finding: the real state is no longer defined
            return Ok(());
        }
        match op {
            Op::CloneTo { .. } => shares_storage = true,
            Op::Get { .. } | Op::GetUnsized { .. } => {}
            _ => shares_storage = false,
        }
        for i in 0..2 {
            compare::<M>(&real[i], &model[i], names[i], kind, touched[i], ctx)?;
        }
    }
    // final full sweep of both regions
    for i in 0..2 {
        compare::<M>(&real[i], &model[i], names[i], "history-end", true, ctx)?;
    }
    // classification
    if !classify {
        return Ok(());
    }
    let nontrivial = fl.partial_overlap_write && fl.merge_diverged;
    if nontrivial {
        ctx.label("nontrivial:partial-overlap-write+merge-after-divergence");
        ctx.nontrivial(fnv(format!("{}{:?}", M::NAME, ops).as_bytes()));
    }
    if fl.partial_overlap_write {
        ctx.label("write-partially-overlapping-a-cell");
    }
    if fl.multi_overlap_write {
        ctx.label("write-overlapping-2+-cells");
    }
    if fl.exact_rewrite {
        ctx.label("write-exactly-over-a-cell");
    }
    if fl.merge_diverged {
        ctx.label("merge-after-divergence");
    }
    if fl.merge_cross_overlap {
        ctx.label("merge-with-cross-overlapping-cells");
    }
    if fl.merge_same_cell_diff_value {
        ctx.label("merge-same-cell-different-values");
    }
    if fl.clone_then_write {
        ctx.label("write-after-clone(shared-storage)");
    }
    if fl.merge_write_top_exact {
        ctx.label("merge_write_top-exact-cell");
    }
    if fl.mark_hits {
        ctx.label("mark_interval-hits-a-cell");
    }
    if fl.shift_nonempty {
        ctx.label("shift-of-nonempty-region");
    }
    if ops.len() >= 20 {
        ctx.label("history-20+-ops");
    }
    ctx.label_n("steps", ops.len() as u64);
    Ok(())
}

/// Delta-debugging on the decoded history (the tape shrinker cannot delete single operations
/// because operations have variable width): drop operations while the same signature is reported.
/// The minimized history is appended to the failure detail; the replay tape stays the shrunk tape.
fn minimize<M: CellModel>(ops: Vec<Op<M>>, f: Failure, ctx: &mut Ctx) -> Failure {
    let mut cur = ops;
    let mut last = f.clone();
    loop {
        let mut progress = false;
        let mut i = cur.len();
        while i > 0 {
            i -= 1;
            let mut cand = cur.clone();
            cand.remove(i);
            if let Err(g) = run_history::<M>(&cand, ctx, false) {
                if g.signature == f.signature {
                    cur = cand;
                    last = g;
                    progress = true;
                }
            }
        }
        if !progress {
            break;
        }
    }
    let mut detail = format!("{}\nminimized history with the same signature ({} operations, cell type {}):\n", f.detail, cur.len(), M::NAME);
    for (i, o) in cur.iter().enumerate() {
        detail.push_str(&format!("  {:2}: {:?}\n", i, o));
    }
    detail.push_str(&format!("  => {}", last.detail));
    Failure { signature: f.signature, detail }
}

fn section<M: CellModel>(eng: &mut Engine, name: &str, cases: u64) {
    eng.random(
        name,
        RandomSpec { cases, max_tape: 400 },
        |tape: &[u8], ctx: &mut Ctx| -> CaseResult {
            let mut t = Tape::new(tape);
            let ops: Vec<Op<M>> = decode(&mut t);
            ctx.sample(|| format!("{:?}", ops));
            match run_history::<M>(&ops, ctx, true) {
                Ok(()) => Ok(()),
                Err(f) => Err(minimize::<M>(ops, f, ctx)),
            }
        },
        |tape| {
            let ops: Vec<Op<M>> = decode(&mut Tape::new(tape));
            let mut s = format!("cell type {}; {} operations (region 0 = A, 1 = B):\n", M::NAME, ops.len());
            for (i, o) in ops.iter().enumerate() {
                s.push_str(&format!("  {:2}: {:?}\n", i, o));
            }
            s
        },
    );
    eng.require_fraction(name, "nontrivial:partial-overlap-write+merge-after-divergence", 0.20);
    eng.require_fraction(name, "write-overlapping-2+-cells", 0.05);
    eng.require_fraction(name, "merge-with-cross-overlapping-cells", 0.05);
}

pub fn run(eng: &mut Engine) {
    eng.rule = "history of <= 40 operations over two MemRegions decoded from a byte tape (writes via add/insert_at_byte_index with fresh tags, top-writes, remove, merge_write_top, mark_interval_values_as_top, mark_all_values_as_top, add_offset_to_all_indices, clear_top_values (also after values_mut), merge, clone, get, get_unsized; offsets -24..24, sizes 1/2/4/8), compared with a reference cell store after every step; non-trivial = the history contains a write that partially overlaps an existing cell of different offset/size AND a merge of two non-empty, different regions; distinct by hash of (cell type, history)".into();
    eng.assumptions = vec![
        "cell sizes > 0, offsets far from i64 overflow, mark_interval_values_as_top only with start <= end (callers pass ordered interval bounds)".into(),
        "mark_interval_values_as_top(start, end, size): end is inclusive (callers pass (offset, offset, 1) for a single byte), touched bytes are [start, end+size)".into(),
        "cell value models: BitvectorDomain (merge of different values = unknown) and DataDomain<BitvectorDomain> (union of targets, merged absolute value, or-ed flag; unknown = only the flag) as documented on these types".into(),
        "values_mut() is only used the documented way: set a cell to the unknown value, then clear_top_values()".into(),
    ];
    let total = eng.tier.pick(1_000_000u64, 20_000_000u64);
    section::<MBv>(eng, "bitvector-cells", total / 2);
    section::<MData>(eng, "datadomain-cells", total / 2);
}
