//! C15 — the NULL-dereference check (CWE476) flags exactly the unchecked flows of return values.
//! Oracle: exact exploration of the finite product (program point, set of tainted variables)
//! from each source call's return site, by the rules stated in the property.

use crate::engine::{cut, CaseResult, Ctx, Engine, RandomSpec};
use crate::irb::*;
use crate::tape::{fnv, Tape};
use cwe_checker_lib::intermediate_representation::*;
use cwe_checker_lib::pipeline::AnalysisResults;
use std::collections::{BTreeMap, BTreeSet};

pub struct Case {
    pub project: Project,
}

/// variables that may carry the tracked value
fn taint_pool() -> Vec<Variable> {
    let mut v: Vec<Variable> = ["RAX", "RBX", "RCX", "RDI", "RSI"].iter().map(|r| var(r, 8)).collect();
    v.push(tmp("$U1", 8));
    v
}
/// registers that are only ever assigned from each other / constants / loads (store values come from here)
fn clean_pool() -> Vec<Variable> {
    ["R12", "R13"].iter().map(|r| var(r, 8)).collect()
}

struct G<'a, 'b> {
    t: &'a mut Tape<'b>,
}

impl<'a, 'b> G<'a, 'b> {
    fn treg(&mut self) -> Variable {
        let p = taint_pool();
        p[self.t.below(p.len())].clone()
    }
    /// source operand: biased towards the registers that typically hold the value (RAX, RBX)
    fn tsrc(&mut self) -> Variable {
        match self.t.below(8) {
            0..=2 => var("RAX", 8),
            3 | 4 => var("RBX", 8),
            _ => self.treg(),
        }
    }
    /// destination: rarely RAX (keeps the value alive longer)
    fn tdst(&mut self) -> Variable {
        let r = self.treg();
        if r.name == "RAX" && self.t.prob(170) {
            var("RBX", 8)
        } else {
            r
        }
    }
    fn creg(&mut self) -> Variable {
        let p = clean_pool();
        p[self.t.below(p.len())].clone()
    }
    fn texpr(&mut self) -> Expression {
        use BinOpType::*;
        let r = self.tsrc();
        match self.t.below(7) {
            0 | 1 => evar(&r),
            2 => ebin(IntAdd, evar(&r), econst(*self.t.choose(&[8i128, 16, -8, 1]), 8)),
            3 => ebin(*self.t.choose(&[IntAdd, IntXOr, IntAnd]), evar(&r), evar(&self.treg())),
            4 => ecast(CastOpType::IntZExt, 8, esub(0, 4, evar(&r))),
            5 => ebin(IntAdd, evar(&r), evar(&self.creg())),
            _ => eun(UnOpType::IntNegate, evar(&r)),
        }
    }
    fn cexpr(&mut self) -> Expression {
        if self.t.flag() {
            econst(self.t.below(64) as i128, 8)
        } else {
            let r = self.creg();
            ebin(BinOpType::IntAdd, evar(&r), econst(self.t.below(16) as i128, 8))
        }
    }
    fn cond(&mut self) -> Expression {
        use BinOpType::*;
        match self.t.below(5) {
            0 => evar(&var("ZF", 1)),
            1 => eun(UnOpType::BoolNegate, evar(&var("CF", 1))),
            2 => ebin(IntEqual, evar(&self.tsrc()), econst(0, 8)),
            3 => ebin(IntNotEqual, evar(&self.creg()), econst(0, 8)),
            _ => ebin(IntSLess, evar(&self.creg()), evar(&self.creg())),
        }
    }
    fn defs(&mut self, base: u64) -> Vec<Term<Def>> {
        let n = self.t.below(4);
        let mut out = vec![];
        for i in 0..n {
            let tid = instr_tid(base + i as u64, 0);
            match self.t.below(14) {
                0..=2 => {
                    let d = self.tdst();
                    let e = self.texpr();
                    out.push(assign(tid, &d, e));
                }
                3 => {
                    // overwrite with a clean value
                    let d = self.tdst();
                    let e = self.cexpr();
                    out.push(assign(tid, &d, e));
                }
                4 => {
                    let d = self.creg();
                    let e = self.cexpr();
                    out.push(assign(tid, &d, e));
                }
                5 | 6 => {
                    // flag from a comparison on a possibly tainted or on a clean value
                    let f = var(if self.t.flag() { "ZF" } else { "CF" }, 1);
                    let e = if self.t.prob(150) { ebin(BinOpType::IntEqual, evar(&self.tsrc()), econst(0, 8)) } else { ebin(BinOpType::IntEqual, evar(&self.creg()), econst(0, 8)) };
                    out.push(assign(tid, &f, e));
                }
                7 | 8 => {
                    // load: address possibly tainted
                    let d = if self.t.prob(90) { self.tdst() } else { self.creg() };
                    let a = if self.t.prob(100) { self.texpr() } else { ebin(BinOpType::IntAdd, evar(&var("RSP", 8)), econst(*self.t.choose(&[-8i128, -16, 8, -24]), 8)) };
                    out.push(load(tid, &d, a));
                }
                9 | 10 => {
                    // store: clean value, address possibly tainted
                    let a = if self.t.prob(100) { self.texpr() } else { ebin(BinOpType::IntAdd, evar(&var("RSP", 8)), econst(*self.t.choose(&[-8i128, -16, -24]), 8)) };
                    let v = self.cexpr();
                    out.push(store(tid, a, v));
                }
                _ => {
                    let d = self.tdst();
                    let s = self.tsrc();
                    out.push(assign(tid, &d, evar(&s)));
                }
            }
        }
        out
    }
}

pub fn decode(t: &mut Tape) -> Case {
    let mut g = G { t };
    let nsubs = 1 + g.t.below(3);
    let malloc = tid("malloc", "UNKNOWN");
    let use1 = tid("use1", "UNKNOWN");
    let use2 = tid("use2", "UNKNOWN");
    let nop = tid("nop", "UNKNOWN");
    let exit = tid("exit", "UNKNOWN");
    let externs = vec![
        extern_symbol(malloc.clone(), "malloc", &["RDI"], false),
        extern_symbol(use1.clone(), "use1", &["RDI"], false),
        extern_symbol(use2.clone(), "use2", &["RDI", "RSI"], false),
        extern_symbol(nop.clone(), "nop", &[], false),
        extern_symbol(exit.clone(), "exit", &["RDI"], true),
    ];
    let mut subs = vec![];
    for si in 0..nsubs {
        let sbase = 0x1000 * (si as u64 + 1);
        let nblocks = 1 + g.t.below(7);
        let mut blocks = vec![];
        for bi in 0..nblocks {
            let bbase = sbase + 0x20 * bi as u64;
            let defs = g.defs(bbase);
            let jt = instr_tid(bbase + 0x1f, 0);
            let jt2 = instr_tid(bbase + 0x1f, 1);
            let target = |g: &mut G| blk_tid(sbase + 0x20 * g.t.below(nblocks) as u64);
            let mut pending_hints: Vec<Tid> = vec![];
            let jmps = match g.t.below(16) {
                0 | 1 => vec![jmp(jt, Jmp::Branch(target(&mut g)))],
                2..=5 => {
                    let c = g.cond();
                    let t1 = target(&mut g);
                    let t2 = target(&mut g);
                    if g.t.prob(40) {
                        // switch dispatch behind a check: the not-taken side is an indirect jump with target hints
                        let e = evar(&g.creg());
                        let t3 = target(&mut g);
                        pending_hints = vec![t2, t3];
                        vec![jmp(jt, Jmp::CBranch { target: t1, condition: c }), jmp(jt2, Jmp::BranchInd(e))]
                    } else {
                        vec![jmp(jt, Jmp::CBranch { target: t1, condition: c }), jmp(jt2, Jmp::Branch(t2))]
                    }
                }
                6..=8 => {
                    // allocation call (taint source)
                    let ret = Some(target(&mut g));
                    vec![jmp(jt, Jmp::Call { target: malloc.clone(), return_: ret })]
                }
                9 | 10 => {
                    let tg = match g.t.below(5) {
                        0 => use2.clone(),
                        1 => nop.clone(),
                        2 => exit.clone(),
                        _ => use1.clone(),
                    };
                    let ret = Some(target(&mut g));
                    vec![jmp(jt, Jmp::Call { target: tg, return_: ret })]
                }
                11 => {
                    // internal call
                    let tg = sub_tid(0x1000 * (1 + g.t.below(nsubs) as u64));
                    let ret = Some(target(&mut g));
                    vec![jmp(jt, Jmp::Call { target: tg, return_: ret })]
                }
                12 => {
                    let e = if g.t.flag() { evar(&g.creg()) } else { evar(&g.treg()) };
                    let ret = Some(target(&mut g));
                    vec![jmp(jt, Jmp::CallInd { target: e, return_: ret })]
                }
                13 | 14 => vec![jmp(jt, Jmp::Return(evar(&var("R13", 8))))],
                _ => vec![],
            };
            let mut defs = defs;
            if matches!(jmps.first().map(|j| &j.term), Some(Jmp::Call { .. }) | Some(Jmp::CallInd { .. })) {
                // x86 CALL: push the return address (the analyses model the callee's `ret` popping it)
                defs.push(assign(instr_tid(bbase + 0x1d, 0), &var("RSP", 8), ebin(BinOpType::IntSub, evar(&var("RSP", 8)), econst(8, 8))));
                defs.push(store(instr_tid(bbase + 0x1d, 1), evar(&var("RSP", 8)), econst((bbase + 0x20) as i128, 8)));
            }
            let mut b = blk(blk_tid(bbase), defs, jmps);
            for h in pending_hints {
                if !b.term.indirect_jmp_targets.contains(&h) {
                    b.term.indirect_jmp_targets.push(h);
                }
            }
            blocks.push(b);
        }
        subs.push(sub(sub_tid(sbase), &format!("f{}", si), blocks));
    }
    let project = project(subs, externs, vec![sub_tid(0x1000)]);
    Case { project }
}

type TSet = BTreeSet<String>;

fn tainted(e: &Expression, t: &TSet) -> bool {
    e.input_vars().iter().any(|v| t.contains(&v.name))
}

pub struct Spec {
    /// reachable sink tids
    pub sinks: BTreeSet<String>,
    /// some conditional block was reached both with and without a tainted condition
    pub mixed: bool,
    /// premise violated: a tainted value was stored to memory
    pub premise_broken: bool,
    /// the flow passed a join (some block reached with two different taint sets) or a loop
    pub interesting: bool,
    pub blocked_by_check: bool,
    /// number of distinct blocks the value reached
    pub blocks_reached: usize,
}

/// Exact exploration of (block, tainted set) from the return site of the source call.
pub fn explore(project: &Project, sub: &Term<Sub>, start_block: &Tid, start_taint: TSet) -> Spec {
    let program = &project.program.term;
    let blocks: BTreeMap<&Tid, &Term<Blk>> = sub.term.blocks.iter().map(|b| (&b.tid, b)).collect();
    let std_cc = project.get_standard_calling_convention().expect("cconv");
    let callee_saved = |cc: &CallingConvention, t: &TSet| -> TSet { t.iter().filter(|n| cc.callee_saved_register.iter().any(|r| &r.name == *n)).cloned().collect() };
    // does the function have an in-program caller with a return site?
    let has_caller = program.subs.values().any(|s| s.term.blocks.iter().any(|b| b.term.jmps.iter().any(|j| matches!(&j.term, Jmp::Call { target, return_: Some(_) } if *target == sub.tid))));
    let mut spec = Spec { sinks: BTreeSet::new(), mixed: false, premise_broken: false, interesting: false, blocked_by_check: false, blocks_reached: 0 };
    let mut seen: BTreeSet<(Tid, TSet)> = BTreeSet::new();
    let mut cond_seen: BTreeMap<Tid, (bool, bool)> = BTreeMap::new();
    let mut per_block: BTreeMap<Tid, BTreeSet<TSet>> = BTreeMap::new();
    let mut work = vec![(start_block.clone(), start_taint)];
    while let Some((bt, mut t)) = work.pop() {
        if t.is_empty() {
            continue;
        }
        if !seen.insert((bt.clone(), t.clone())) {
            spec.interesting = true; // revisited: loop
            continue;
        }
        let e = per_block.entry(bt.clone()).or_default();
        e.insert(t.clone());
        if e.len() > 1 {
            spec.interesting = true;
        }
        let b = match blocks.get(&bt) {
            Some(b) => *b,
            None => continue,
        };
        let mut stopped = false;
        for d in &b.term.defs {
            match &d.term {
                Def::Assign { var, value } => {
                    if tainted(value, &t) {
                        t.insert(var.name.clone());
                    } else {
                        t.remove(&var.name);
                    }
                }
                Def::Load { var, address } => {
                    if tainted(address, &t) {
                        spec.sinks.insert(format!("{}", d.tid));
                        stopped = true;
                        break;
                    }
                    t.remove(&var.name);
                }
                Def::Store { address, value } => {
                    if tainted(address, &t) {
                        spec.sinks.insert(format!("{}", d.tid));
                        stopped = true;
                        break;
                    }
                    if tainted(value, &t) {
                        spec.premise_broken = true;
                    }
                }
            }
            if t.is_empty() {
                stopped = true;
                break;
            }
        }
        if stopped {
            continue;
        }
        let mut blocked = false;
        for (ji, j) in b.term.jmps.iter().enumerate() {
            match &j.term {
                Jmp::Branch(tg) => {
                    if !blocked {
                        work.push((tg.clone(), t.clone()));
                    }
                }
                Jmp::CBranch { target, condition } => {
                    let ct = tainted(condition, &t);
                    let e = cond_seen.entry(bt.clone()).or_insert((false, false));
                    if ct {
                        e.0 = true;
                    } else {
                        e.1 = true;
                    }
                    if ct {
                        blocked = true;
                        spec.blocked_by_check = true;
                    } else {
                        work.push((target.clone(), t.clone()));
                    }
                    let _ = ji;
                }
                Jmp::BranchInd(_) => {
                    if !blocked {
                        for h in &b.term.indirect_jmp_targets {
                            work.push((h.clone(), t.clone()));
                        }
                    }
                }
                Jmp::Return(_) => {
                    if has_caller && std_cc.integer_return_register.iter().any(|r| t.contains(&r.name)) {
                        spec.sinks.insert(format!("{}", j.tid));
                    }
                }
                Jmp::Call { target, return_ } => {
                    if let Some(sym) = program.extern_symbols.get(target) {
                        let Some(ret) = return_ else { continue };
                        let hit = sym.parameters.iter().any(|p| match p {
                            Arg::Register { expr, .. } => tainted(expr, &t),
                            Arg::Stack { .. } => false,
                        });
                        if hit {
                            spec.sinks.insert(format!("{}", j.tid));
                        } else {
                            let cc = project.get_calling_convention(sym);
                            work.push((ret.clone(), callee_saved(cc, &t)));
                        }
                    } else if let Some(callee) = program.subs.get(target) {
                        if callee.term.blocks.is_empty() {
                            continue;
                        }
                        let hit = std_cc.integer_parameter_register.iter().any(|r| t.contains(&r.name));
                        if hit {
                            spec.sinks.insert(format!("{}", j.tid));
                        } else if let Some(ret) = return_ {
                            let returns = callee.term.blocks.iter().any(|cb| cb.term.jmps.iter().any(|cj| matches!(cj.term, Jmp::Return(_))));
                            if returns {
                                work.push((ret.clone(), callee_saved(std_cc, &t)));
                            }
                        }
                    }
                }
                Jmp::CallInd { return_, .. } => {
                    let Some(ret) = return_ else { continue };
                    let hit = std_cc.integer_parameter_register.iter().any(|r| t.contains(&r.name));
                    if hit {
                        spec.sinks.insert(format!("{}", j.tid));
                    } else {
                        work.push((ret.clone(), callee_saved(std_cc, &t)));
                    }
                }
                Jmp::CallOther { .. } => {}
            }
        }
    }
    spec.mixed = cond_seen.values().any(|(a, b)| *a && *b);
    spec.blocks_reached = per_block.len();
    spec
}

pub fn check_case(case: &Case, ctx: &mut Ctx) -> CaseResult {
    let mut project = case.project.clone();
    if let Err(f) = cut(|| {
        let _ = project.normalize_basic();
        let _ = project.normalize_optimize();
    }) {
        return ctx.report(format!("C15:normalize:{}", f.signature), f.detail);
    }
    // expected warnings per source call
    let mut expected: BTreeMap<String, Spec> = BTreeMap::new(); // source address -> spec
    for s in project.program.term.subs.values() {
        for b in &s.term.blocks {
            for j in &b.term.jmps {
                if let Jmp::Call { target, return_: Some(ret) } = &j.term {
                    if let Some(sym) = project.program.term.extern_symbols.get(target) {
                        if sym.name == "malloc" {
                            let mut t0 = TSet::new();
                            for rv in &sym.return_values {
                                if let Arg::Register { expr, .. } = rv {
                                    for v in expr.input_vars() {
                                        t0.insert(v.name.clone());
                                    }
                                }
                            }
                            let spec = explore(&project, s, ret, t0);
                            expected.insert(j.tid.address.clone(), spec);
                        }
                    }
                }
            }
        }
    }
    let got = match cut(|| {
        let graph = cwe_checker_lib::analysis::graph::get_program_cfg(&project.program);
        let binary: Vec<u8> = vec![];
        let ar = AnalysisResults::new(&binary, &graph, &project);
        let (sigs, _logs) = ar.compute_function_signatures();
        let ar = ar.with_function_signatures(Some(&sigs));
        let config: cwe_checker_lib::analysis::pointer_inference::Config = serde_json::from_value(serde_json::json!({"allocation_symbols": ["malloc"]})).unwrap();
        let pi = cwe_checker_lib::analysis::pointer_inference::run(&ar, config, false, false);
        let ar = ar.with_pointer_inference(Some(&pi));
        let (_logs, warnings) = (cwe_checker_lib::checkers::cwe_476::CWE_MODULE.run)(&ar, &serde_json::json!({"symbols": ["malloc"]}));
        warnings
    }) {
        Ok(w) => w,
        Err(f) => return ctx.report(format!("C15:check:{}", f.signature), format!("{}\n{}", f.detail, project.program.term)),
    };
    let mut got_map: BTreeMap<String, (String, String)> = BTreeMap::new(); // source address -> (name, sink tid)
    for w in &got {
        if w.name != "CWE476" {
            return ctx.report("C15:warning-with-wrong-name", format!("{:?}", w));
        }
        let src = match w.addresses.first() {
            Some(a) => a.clone(),
            None => return ctx.report("C15:warning-without-address", format!("{:?}", w)),
        };
        if got_map.insert(src.clone(), (w.name.clone(), w.tids.get(1).cloned().unwrap_or_default())).is_some() {
            return ctx.report("C15:duplicate-warning-for-source", format!("two warnings for the source at {}: {:?}", src, got));
        }
    }
    let show = |project: &Project| format!("{}", project.program.term);
    let mut any_expected = false;
    let mut nontrivial = false;
    for (src, spec) in &expected {
        ctx.extra_evaluations(1);
        if spec.premise_broken {
            ctx.label("premise-broken:tainted-store-value");
            continue;
        }
        let exp = !spec.sinks.is_empty();
        if exp {
            any_expected = true;
            ctx.label("source:expected-warning");
        } else {
            ctx.label("source:no-warning-expected");
        }
        if spec.mixed {
            ctx.label("source:mixed-condition-node");
        }
        if spec.blocks_reached >= 3 && (spec.interesting || spec.blocked_by_check) {
            nontrivial = true;
        }
        if spec.interesting && spec.blocked_by_check && !spec.sinks.is_empty() {
            ctx.label("source:join-or-loop+check+unchecked-sink");
        }
        match got_map.get(src) {
            Some((_, sink)) => {
                if !exp {
                    return ctx.report(
                        "C15:warning-without-unchecked-flow",
                        format!("the check reports the allocation call at {} (sink {}) but no path from it reaches a sink without passing a check\n{}", src, sink, show(&project)),
                    );
                }
                if !spec.sinks.contains(sink) {
                    return ctx.report(
                        "C15:reported-sink-not-reachable",
                        format!("warning for the source at {} names sink {}, reachable sinks are {:?}\n{}", src, sink, spec.sinks, show(&project)),
                    );
                }
            }
            None => {
                if exp {
                    if spec.mixed {
                        ctx.label("known-gap:mixed-condition-node-missed");
                        ctx.report(
                            "C15:mixed-condition-node",
                            format!("allocation call at {}: an unchecked path to {:?} exists, but a conditional block on it is also reached with a tainted condition on another path; the implementation merges before testing\n{}", src, spec.sinks, show(&project)),
                        )?;
                    } else {
                        return ctx.report(
                            "C15:missed-unchecked-flow",
                            format!("allocation call at {}: an unchecked path reaches {:?} but no warning was reported (reported: {:?})\n{}", src, spec.sinks, got_map, show(&project)),
                        );
                    }
                }
            }
        }
    }
    for src in got_map.keys() {
        if !expected.contains_key(src) {
            return ctx.report("C15:warning-for-unknown-source", format!("warning for source address {} which is not a call to the configured symbol with a return site\n{}", src, show(&project)));
        }
    }
    if any_expected {
        ctx.label("case:some-warning-expected");
    }
    if nontrivial {
        ctx.label("nontrivial");
        ctx.nontrivial(fnv(show(&project).as_bytes()));
    }
    Ok(())
}

pub fn run(eng: &mut Engine) {
    eng.rule = "cases = generated projects (1..3 functions, 1..7 blocks) with calls to the configured allocation function, register copies/arithmetic over a taint-capable pool (incl. a callee-saved register, a temporary and flags), overwrites, loads/stores whose address may depend on the value (store values only from a clean pool, so the value flows through registers only), conditionals on dependent and independent conditions, loops, extern calls with declared parameters, indirect and internal calls, returns (functions sometimes have in-program callers); pipeline as the tool runs it (normalize, CFG, signatures, pointer inference, cwe_476::check_cwe); oracle = exact exploration of (block, tainted set) per source; expected = sources with a reachable sink; non-trivial = the value reaches >= 3 blocks and the flow passes a join/loop or is stopped by a check on some path; distinct by hash of the normalized program".into();
    eng.assumptions = vec![
        "dependence is syntactic on the normalized program (an expression depends on the value iff one of its input variables does)".into(),
        "implementation is required to equal the specification on programs without a mixed conditional block; on mixed programs only soundness (reported => expected) plus the listed known finding".into(),
    ];
    let cases = eng.tier.pick(40_000u64, 1_500_000u64);
    eng.random(
        "null-deref-flows",
        RandomSpec { cases, max_tape: 700 },
        |tape, ctx| {
            let mut t = Tape::new(tape);
            let case = decode(&mut t);
            if ctx.want_sample() {
                let s = format!("{}", case.project.program.term);
                ctx.sample(|| s.chars().take(1000).collect());
            }
            check_case(&case, ctx)
        },
        |tape| format!("{}", decode(&mut Tape::new(tape)).project.program.term),
    );
    eng.require_fraction("null-deref-flows", "case:some-warning-expected", 0.15);
    eng.require_fraction("null-deref-flows", "nontrivial", 0.05);
}
