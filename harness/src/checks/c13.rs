//! C13 — pointer inference never excludes values that can occur at runtime.
//! Generated single-function programs are analysed by the real pipeline
//! (normalize, CFG, function signatures, pointer inference) and executed from many
//! initial states by the harness' own interpreter; at every block arrival each register's
//! concrete value must be represented by the analysis state of that block.

use crate::dom::IParts;
use crate::engine::{cut, CaseResult, Ctx, Engine, RandomSpec};
use crate::irb::*;
use crate::irinterp::{run_sub, CallAction, Limits, Observer, State, Stop};
use crate::refsem as rs;
use crate::tape::{fnv, Tape};
use cwe_checker_lib::abstract_domain::{AbstractDomain, AbstractIdentifier, AbstractLocation, AbstractMemoryLocation, DataDomain, IntervalDomain};
use cwe_checker_lib::analysis::graph::Node;
use cwe_checker_lib::analysis::vsa_results::VsaResult;
use cwe_checker_lib::intermediate_representation::*;
use cwe_checker_lib::pipeline::AnalysisResults;
use std::collections::BTreeMap;

const NSTATES: usize = 8;
const GLOBAL_START: u64 = 0x400;
const GLOBAL_END: u64 = 0x3000;

pub struct Case {
    /// "literal" memory model of the property statement: no memory image, every address outside (-1024,1024)
    /// is valid memory. Otherwise: a global segment + stack + parameter pages are the only valid memory.
    pub literal: bool,
    pub project: Project,
    /// (registers, mem seed, aliasing mode)
    pub states: Vec<(Vec<(String, u128, usize)>, u64, bool)>,
    pub features: Vec<&'static str>,
}

fn regs8() -> Vec<Variable> {
    ["RAX", "RBX", "RCX", "RDX", "RDI", "RSI"].iter().map(|r| var(r, 8)).collect()
}

struct G<'a, 'b> {
    t: &'a mut Tape<'b>,
    features: Vec<&'static str>,
}

impl<'a, 'b> G<'a, 'b> {
    fn feat(&mut self, f: &'static str) {
        if !self.features.contains(&f) {
            self.features.push(f);
        }
    }
    fn reg(&mut self) -> Variable {
        let r = regs8();
        r[self.t.below(r.len())].clone()
    }
    fn small(&mut self) -> i128 {
        *self.t.choose(&[0i128, 1, 2, 3, 4, 5, 7, 8, 10, 16, 31, 32, 64, 100, 255, 256, 1000, 1023, 1024, 1025, -1, -2, -8, -1024, 0x7fff_ffff, 0x8000_0000, 0xffff_ffff])
    }
    fn operand(&mut self) -> Expression {
        if self.t.prob(150) {
            let c = self.small();
            econst(c, 8)
        } else {
            let r = self.reg();
            evar(&r)
        }
    }
    fn cmp(&mut self) -> Expression {
        use BinOpType::*;
        let op = *self.t.choose(&[IntSLess, IntLess, IntSLessEqual, IntLessEqual, IntEqual, IntNotEqual, IntSLess, IntEqual]);
        let r = self.reg();
        let a = evar(&r);
        let b = self.operand();
        let e = if self.t.prob(40) { ebin(op, b, a) } else { ebin(op, a, b) };
        // sometimes compare 4-byte views
        let e = if self.t.prob(30) {
            let r2 = self.reg();
            let c = self.small();
            ebin(op, esub(0, 4, evar(&r2)), econst(c & 0xffff_ffff, 4))
        } else {
            e
        };
        if self.t.prob(50) {
            eun(UnOpType::BoolNegate, e)
        } else {
            e
        }
    }
    fn stack_addr(&mut self) -> Expression {
        let base = if self.t.prob(50) { var("RBP", 8) } else { var("RSP", 8) };
        let off = *self.t.choose(&[0i128, 8, -8, 16, -16, 24, -24, 32, -32, 4, -4, 12, 40, 48, 56, 64, -64, -40]);
        if off == 0 {
            evar(&base)
        } else {
            ebin(BinOpType::IntAdd, evar(&base), econst(off, 8))
        }
    }
    fn defs(&mut self, base: u64, first: bool) -> Vec<Term<Def>> {
        use BinOpType::*;
        let mut out = vec![];
        let n = self.t.below(6);
        if first && self.t.prob(128) {
            // frame setup
            out.push(assign(instr_tid(base + 0x30, 0), &var("RBP", 8), evar(&var("RSP", 8))));
            self.feat("frame-pointer");
        }
        for i in 0..n {
            let tid = instr_tid(base + i as u64, 0);
            match self.t.below(23) {
                0 | 1 => {
                    let r = self.reg();
                    let c = self.small();
                    out.push(assign(tid, &r, econst(c, 8)));
                }
                20 => {
                    // constants on both sides of the NULL range (joins of them give intervals that straddle it)
                    let r = self.reg();
                    let c = *self.t.choose(&[2000i128, -2000, 1500, -1500, 2048, -4096, 1024, -1024, 1023, -1023, 0x10000]);
                    out.push(assign(tid, &r, econst(c, 8)));
                    self.feat("constant-around-null-range");
                }
                21 | 22 => {
                    // access through a register (absolute addresses computed earlier, possibly joined)
                    let p = self.reg();
                    let d = self.reg();
                    let off = *self.t.choose(&[0i128, 0, 8, -8, 0x400]);
                    let a = if off == 0 { evar(&p) } else { ebin(IntAdd, evar(&p), econst(off, 8)) };
                    if self.t.flag() {
                        out.push(load(tid, &d, a));
                    } else {
                        out.push(store(tid, a, evar(&d)));
                    }
                    self.feat("access-through-register");
                }
                2 => {
                    let d = self.reg();
                    let s = self.reg();
                    out.push(assign(tid, &d, evar(&s)));
                }
                3..=6 => {
                    let d = self.reg();
                    let op = *self.t.choose(&[IntAdd, IntAdd, IntSub, IntAdd, IntAnd, IntOr, IntXOr, IntMult, IntLeft, IntRight, IntSRight]);
                    let a = if self.t.prob(170) { evar(&d) } else { evar(&self.reg()) };
                    let b = if matches!(op, IntLeft | IntRight | IntSRight) { econst(self.t.below(66) as i128, 8) } else { self.operand() };
                    if self.t.prob(200) && matches!(op, IntAdd | IntSub) {
                        self.feat("counter-like-update");
                    }
                    out.push(assign(tid, &d, ebin(op, a, b)));
                }
                7 => {
                    let d = self.reg();
                    let s = self.reg();
                    let op = if self.t.flag() { CastOpType::IntZExt } else { CastOpType::IntSExt };
                    let size = *self.t.choose(&[4usize, 1, 2]);
                    out.push(assign(tid, &d, ecast(op, 8, esub(0, size, evar(&s)))));
                    self.feat("extension-of-subpiece");
                }
                8 => {
                    let d = self.reg();
                    let op = if self.t.flag() { UnOpType::Int2Comp } else { UnOpType::IntNegate };
                    out.push(assign(tid, &d, eun(op, evar(&d))));
                }
                9..=11 => {
                    // stack store
                    let a = self.stack_addr();
                    let v = if self.t.prob(60) {
                        let c = self.small();
                        econst(c, 8)
                    } else {
                        evar(&self.reg())
                    };
                    let v = if self.t.prob(50) { esub(0, 4, v) } else { v };
                    out.push(store(tid, a, v));
                    self.feat("stack-store");
                }
                12..=14 => {
                    let a = self.stack_addr();
                    let d = self.reg();
                    if self.t.prob(40) {
                        // 4-byte load into a temporary, then extension
                        let tv = tmp("$U1", 4);
                        out.push(load(tid, &tv, a));
                        out.push(assign(instr_tid(base + i as u64, 1), &d, ecast(CastOpType::IntZExt, 8, evar(&tv))));
                    } else {
                        out.push(load(tid, &d, a));
                    }
                    self.feat("stack-load");
                }
                15 => {
                    let c = *self.t.choose(&[8i128, 16, 24, 32, 64, 0x100]);
                    let op = if self.t.prob(170) { IntSub } else { IntAdd };
                    out.push(assign(tid, &var("RSP", 8), ebin(op, evar(&var("RSP", 8)), econst(c, 8))));
                    self.feat("sp-adjust");
                }
                16 | 17 => {
                    // flag definitions
                    let f = var(if self.t.flag() { "ZF" } else { "CF" }, 1);
                    let c = self.cmp();
                    out.push(assign(tid, &f, c));
                    self.feat("flag-def");
                }
                18 => {
                    // access through a small constant address (NULL rule) or a register holding one
                    let c = *self.t.choose(&[0i128, 8, 0x10, 0x3ff, 0x400, 0x401, 0x1000, -8, -1024, -1025]);
                    let d = self.reg();
                    if self.t.flag() {
                        out.push(load(tid, &d, econst(c, 8)));
                    } else {
                        let p = self.reg();
                        out.push(assign(tid.clone(), &p, econst(c, 8)));
                        let off = *self.t.choose(&[0i128, 8, -8, 0x400]);
                        out.push(store(instr_tid(base + i as u64, 1), ebin(IntAdd, evar(&p), econst(off, 8)), evar(&d)));
                    }
                    self.feat("small-constant-address");
                }
                _ => {
                    let f1 = var("ZF", 1);
                    let f2 = var("CF", 1);
                    let op = *self.t.choose(&[BoolAnd, BoolOr, BoolXOr]);
                    out.push(assign(tid, &f1, ebin(op, evar(&f1), evar(&f2))));
                }
            }
        }
        out
    }
}

pub fn decode(t: &mut Tape) -> Case {
    let mut g = G { t, features: vec![] };
    let nblocks = 2 + g.t.below(7);
    let sbase = 0x1000u64;
    let mut blocks = vec![];
    for bi in 0..nblocks {
        let bbase = sbase + 0x40 * bi as u64;
        let mut defs = g.defs(bbase, bi == 0);
        let jt = instr_tid(bbase + 0x3f, 0);
        let jt2 = instr_tid(bbase + 0x3f, 1);
        let target = |g: &mut G| {
            // never jump to the entry block (it is executed once, at function entry)
            let k = 1 + g.t.below(nblocks - 1);
            blk_tid(sbase + 0x40 * k as u64)
        };
        let jmps = match g.t.below(10) {
            0 | 1 => vec![jmp(jt, Jmp::Branch(target(&mut g)))],
            2..=6 => {
                let cond = match g.t.below(3) {
                    0 => evar(&var("ZF", 1)),
                    1 => eun(UnOpType::BoolNegate, evar(&var("CF", 1))),
                    _ => g.cmp(),
                };
                let t1 = target(&mut g);
                let t2 = target(&mut g);
                if bi > 0 && g.t.prob(20) {
                    // conditional return: the second jump of the block is not a direct branch
                    let tv = tmp("$Ur", 8);
                    defs.push(load(instr_tid(bbase + 0x3e, 0), &tv, evar(&var("RSP", 8))));
                    defs.push(assign(instr_tid(bbase + 0x3e, 1), &var("RSP", 8), ebin(BinOpType::IntAdd, evar(&var("RSP", 8)), econst(8, 8))));
                    vec![jmp(jt, Jmp::CBranch { target: t1, condition: cond }), jmp(jt2, Jmp::Return(evar(&tv)))]
                } else {
                    vec![jmp(jt, Jmp::CBranch { target: t1, condition: cond }), jmp(jt2, Jmp::Branch(t2))]
                }
            }
            7 => {
                if bi == 0 {
                    vec![jmp(jt, Jmp::Branch(target(&mut g)))]
                } else {
                    let tv = tmp("$Ur", 8);
                    defs.push(load(instr_tid(bbase + 0x3e, 0), &tv, evar(&var("RSP", 8))));
                    defs.push(assign(instr_tid(bbase + 0x3e, 1), &var("RSP", 8), ebin(BinOpType::IntAdd, evar(&var("RSP", 8)), econst(8, 8))));
                    vec![jmp(jt, Jmp::Return(evar(&tv)))]
                }
            }
            8 => vec![jmp(jt, Jmp::Branch(target(&mut g)))],
            _ => {
                if bi == 0 {
                    vec![jmp(jt, Jmp::Branch(target(&mut g)))]
                } else {
                    vec![]
                }
            }
        };
        blocks.push(blk(blk_tid(bbase), defs, jmps));
    }
    // Structured counting loop (init / head with a bound test / body with an increment): the shape
    // that drives widening hints, widening and conditional refinement of the interval analysis.
    if nblocks >= 4 && g.t.prob(150) {
        use BinOpType::*;
        let k = 1 + g.t.below(nblocks - 3); // blocks k (init), k+1 (head), k+2 (body)
        let r = g.reg();
        // variant: the counter is also used as an absolute address scanning the global segment (downwards: past the
        // NULL range into negative addresses, so the address interval straddles the NULL range after widening)
        let mem_loop = g.t.prob(70);
        let mut up = g.t.prob(190);
        let mut step = *g.t.choose(&[1i128, 1, 2, 4, 3, 8]);
        let mut c0 = *g.t.choose(&[0i128, 1, -1, 5, -8, 100]);
        let mut n = c0 + if up { 1 } else { -1 } * step * (1 + g.t.below(12) as i128) + if g.t.prob(60) { 1 } else { 0 };
        if mem_loop {
            up = g.t.prob(70);
            step = *g.t.choose(&[8i128, 16, 8, 4]);
            if up {
                c0 = *g.t.choose(&[0x400i128, 0x800, 0x1000]);
                n = *g.t.choose(&[0x2f00i128, 0x2000, 0x1800]);
            } else {
                c0 = *g.t.choose(&[3000i128, 0x2ff0, 2048, 0x1000]);
                n = *g.t.choose(&[-2000i128, -4096, -1024, 0, 1024, -1500]);
            }
        }
        let (bt_init, bt_head, bt_body) = (sbase + 0x40 * k as u64, sbase + 0x40 * (k as u64 + 1), sbase + 0x40 * (k as u64 + 2));
        let exit_k = 1 + g.t.below(nblocks - 1);
        let exit = blk_tid(sbase + 0x40 * exit_k as u64);
        // init
        blocks[k].term.defs.push(assign(instr_tid(bt_init + 0x38, 0), &r, econst(c0, 8)));
        blocks[k].term.jmps = vec![jmp(instr_tid(bt_init + 0x3f, 0), Jmp::Branch(blk_tid(bt_head)))];
        // head: bound test in one of several syntactic forms
        let rv = evar(&r);
        let nv = econst(n, 8);
        let cond = match (up, g.t.below(6)) {
            (true, 0) => ebin(IntSLess, rv, nv),
            (true, 1) => ebin(IntLess, rv, nv),
            (true, 2) => ebin(IntNotEqual, rv, nv),
            (true, 3) => ebin(IntSLessEqual, rv, nv),
            (true, 4) => eun(UnOpType::BoolNegate, ebin(IntSLessEqual, nv, rv)),
            (true, _) => ebin(IntSLess, ecast(CastOpType::IntSExt, 8, esub(0, 4, rv)), nv),
            (false, 0) => ebin(IntSLess, nv, rv),
            (false, 1) => ebin(IntNotEqual, rv, nv),
            (false, 2) => ebin(IntSLessEqual, nv, rv),
            (false, 3) => eun(UnOpType::BoolNegate, ebin(IntSLess, rv, nv)),
            (false, _) => ebin(IntLess, nv, rv),
        };
        if g.t.prob(60) {
            // flag form: ZF computed in the head, branch on the flag
            blocks[k + 1].term.defs.push(assign(instr_tid(bt_head + 0x38, 0), &var("ZF", 1), cond));
            blocks[k + 1].term.jmps = vec![jmp(instr_tid(bt_head + 0x3f, 0), Jmp::CBranch { target: blk_tid(bt_body), condition: evar(&var("ZF", 1)) }), jmp(instr_tid(bt_head + 0x3f, 1), Jmp::Branch(exit))];
        } else {
            blocks[k + 1].term.jmps = vec![jmp(instr_tid(bt_head + 0x3f, 0), Jmp::CBranch { target: blk_tid(bt_body), condition: cond }), jmp(instr_tid(bt_head + 0x3f, 1), Jmp::Branch(exit))];
        }
        // the head must not redefine the counter
        blocks[k + 1].term.defs.retain(|d| !matches!(&d.term, Def::Assign { var, .. } | Def::Load { var, .. } if *var == r));
        if mem_loop {
            let mut d = g.reg();
            if d == r {
                d = var(if r.name == "RBX" { "RAX" } else { "RBX" }, 8);
            }
            let acc = if g.t.prob(170) { load(instr_tid(bt_body + 0x37, 0), &d, evar(&r)) } else { store(instr_tid(bt_body + 0x37, 0), evar(&r), evar(&d)) };
            blocks[k + 2].term.defs.retain(|x| !matches!(&x.term, Def::Assign { var, .. } | Def::Load { var, .. } if *var == r));
            blocks[k + 2].term.defs.insert(0, acc);
            g.feat("counting-loop-scans-global-memory");
        }
        // body: keep its defs (they may or may not touch the counter), then increment and loop
        let inc = if up { ebin(IntAdd, evar(&r), econst(step, 8)) } else { ebin(IntSub, evar(&r), econst(step, 8)) };
        blocks[k + 2].term.defs.push(assign(instr_tid(bt_body + 0x38, 0), &r, inc));
        blocks[k + 2].term.jmps = vec![jmp(instr_tid(bt_body + 0x3f, 0), Jmp::Branch(blk_tid(bt_head)))];
        g.feat("structured-counting-loop");
    }
    // Diamond that assigns two different constants (often on both sides of the NULL range) to one register,
    // followed by a memory access through that register and a later use: the shape in which an address
    // *interval* (not a single constant) meets the NULL-dereference rule and absolute-address handling.
    if nblocks >= 5 && g.t.prob(70) {
        use BinOpType::*;
        let k = 1 + g.t.below(nblocks - 4); // k: test, k+1 / k+2: arms, k+3: join with the access
        let r = g.reg();
        let consts = [2000i128, -2000, 1500, -1500, 2048, -4096, 1024, -1024, 0x1000, 0x2ff8, 8, -8, 0x400, 0x800];
        let c1 = *g.t.choose(&consts);
        let c2 = *g.t.choose(&consts);
        let b = |i: usize| sbase + 0x40 * (k + i) as u64;
        blocks[k].term.jmps = vec![
            jmp(instr_tid(b(0) + 0x3f, 0), Jmp::CBranch { target: blk_tid(b(1)), condition: evar(&var(if g.t.flag() { "ZF" } else { "CF" }, 1)) }),
            jmp(instr_tid(b(0) + 0x3f, 1), Jmp::Branch(blk_tid(b(2)))),
        ];
        blocks[k + 1].term.defs.push(assign(instr_tid(b(1) + 0x39, 0), &r, econst(c1, 8)));
        blocks[k + 1].term.jmps = vec![jmp(instr_tid(b(1) + 0x3f, 0), Jmp::Branch(blk_tid(b(3))))];
        blocks[k + 2].term.defs.push(assign(instr_tid(b(2) + 0x39, 0), &r, econst(c2, 8)));
        blocks[k + 2].term.jmps = vec![jmp(instr_tid(b(2) + 0x3f, 0), Jmp::Branch(blk_tid(b(3))))];
        let d = g.reg();
        let off = *g.t.choose(&[0i128, 0, 8, -8]);
        let a = if off == 0 { evar(&r) } else { ebin(IntAdd, evar(&r), econst(off, 8)) };
        let access = if g.t.flag() { load(instr_tid(b(3) + 0x3a, 0), &d, a) } else { store(instr_tid(b(3) + 0x3a, 0), a, evar(&d)) };
        blocks[k + 3].term.defs.insert(0, access);
        g.feat("two-constants-join-then-access");
    }
    // Pointer plus a register that is a constant on one path and unknown on the other (assigned on one side of a
    // branch only): the sum must stay "pointer plus anything", in both operand orders.
    if nblocks >= 4 && g.t.prob(60) {
        use BinOpType::*;
        let k = 1 + g.t.below(nblocks - 3); // k: test, k+1: assigns the constant, k+2: join with the addition
        let r = g.reg();
        let c = *g.t.choose(&[8i128, 16, 0, -8, 0x100, 1]);
        let b = |i: usize| sbase + 0x40 * (k + i) as u64;
        let cond = if g.t.flag() { evar(&var(if g.t.flag() { "ZF" } else { "CF" }, 1)) } else { g.cmp() };
        blocks[k].term.jmps = vec![
            jmp(instr_tid(b(0) + 0x3f, 0), Jmp::CBranch { target: blk_tid(b(2)), condition: cond }),
            jmp(instr_tid(b(0) + 0x3f, 1), Jmp::Branch(blk_tid(b(1)))),
        ];
        blocks[k].term.defs.retain(|d| !matches!(&d.term, Def::Assign { var, .. } | Def::Load { var, .. } if *var == r));
        blocks[k + 1].term.defs.push(assign(instr_tid(b(1) + 0x39, 0), &r, econst(c, 8)));
        blocks[k + 1].term.jmps = vec![jmp(instr_tid(b(1) + 0x3f, 0), Jmp::Branch(blk_tid(b(2))))];
        let base = var(*g.t.choose(&["RSP", "RBP", "RDI", "RSI", "RDX"]), 8);
        let mut d = g.reg();
        if d == r {
            d = var(if r.name == "RAX" { "RCX" } else { "RAX" }, 8);
        }
        let sum = if g.t.prob(170) { ebin(IntAdd, evar(&base), evar(&r)) } else { ebin(IntAdd, evar(&r), evar(&base)) };
        blocks[k + 2].term.defs.insert(0, assign(instr_tid(b(2) + 0x3a, 0), &d, sum));
        g.feat("pointer-plus-maybe-constant");
    }
    // Calls: extern functions (allocation, pure, pointer-taking, completely unknown) and a small internal
    // callee `g` that reads and writes through its pointer parameters, uses the red zone and the caller's
    // stack arguments and returns with a balanced stack (callee-saved registers are never written by `g`).
    let mut externs = vec![];
    let mut subs = vec![];
    if g.t.prob(110) {
        use BinOpType::*;
        g.feat("calls");
        let e_malloc = tid("ext_malloc", "UNKNOWN");
        let e_rand = tid("ext_rand", "UNKNOWN");
        let e_memfn = tid("ext_memfn", "UNKNOWN");
        let e_unk = tid("ext_unk", "UNKNOWN");
        let e_stk = tid("ext_stk", "UNKNOWN");
        externs = vec![
            extern_symbol(e_malloc.clone(), "malloc", &["RDI"], false),
            extern_symbol(e_rand.clone(), "rand", &[], false),
            extern_symbol(e_memfn.clone(), "memfn", &["RDI", "RSI"], false),
            {
                let mut u = extern_symbol(e_unk.clone(), "unk", &[], false);
                u.return_values = vec![];
                u
            },
            {
                // a function with a stack parameter (the slot above the return address)
                let mut u = extern_symbol(e_stk.clone(), "stk", &["RDI"], false);
                u.parameters.push(Arg::Stack { address: ebin(IntAdd, evar(&var("RSP", 8)), econst(8, 8)), size: ByteSize::new(8), data_type: None });
                u
            },
        ];
        let gbase = 0x2000u64;
        let with_callee = g.t.prob(170);
        if with_callee {
            g.feat("internal-callee");
            let gn = 1 + g.t.below(3);
            let cs = ["RAX", "RCX", "RDX", "RSI", "RDI"]; // caller-saved: the only registers `g` writes
            let mut gblocks = vec![];
            for bi in 0..gn {
                let bb = gbase + 0x40 * bi as u64;
                let mut defs = vec![];
                let n = g.t.below(6);
                for i in 0..n {
                    let t0 = instr_tid(bb + i as u64, 0);
                    let d = var(cs[g.t.below(cs.len())], 8);
                    let any = |g: &mut G| if g.t.prob(200) { var(["RAX", "RCX", "RDX", "RSI", "RDI"][g.t.below(5)], 8) } else { g.reg() };
                    match g.t.below(12) {
                        0 | 1 => {
                            let c = g.small();
                            defs.push(assign(t0, &d, econst(c, 8)));
                        }
                        2 | 3 => {
                            // write through a pointer parameter
                            let p = var(if g.t.flag() { "RDI" } else { "RSI" }, 8);
                            let off = *g.t.choose(&[0i128, 0, 8, -8, 16]);
                            let a = if off == 0 { evar(&p) } else { ebin(IntAdd, evar(&p), econst(off, 8)) };
                            let v = if g.t.flag() { econst(g.small(), 8) } else { evar(&any(&mut g)) };
                            defs.push(store(t0, a, v));
                        }
                        4 | 5 => {
                            let p = var(if g.t.flag() { "RDI" } else { "RSI" }, 8);
                            let off = *g.t.choose(&[0i128, 0, 8, -8, 16]);
                            let a = if off == 0 { evar(&p) } else { ebin(IntAdd, evar(&p), econst(off, 8)) };
                            defs.push(load(t0, &d, a));
                        }
                        6 => {
                            // red zone / caller's stack arguments
                            let off = *g.t.choose(&[-8i128, -16, 8, 16, 24]);
                            let a = ebin(IntAdd, evar(&var("RSP", 8)), econst(off, 8));
                            if off < 0 && g.t.flag() {
                                defs.push(store(t0, a, evar(&any(&mut g))));
                            } else {
                                defs.push(load(t0, &d, a));
                            }
                        }
                        7 | 8 => {
                            let op = *g.t.choose(&[IntAdd, IntSub, IntAnd, IntXOr, IntMult]);
                            let a = any(&mut g);
                            let b = g.operand();
                            defs.push(assign(t0, &d, ebin(op, evar(&a), b)));
                        }
                        9 => {
                            let s = any(&mut g);
                            defs.push(assign(t0, &d, evar(&s)));
                        }
                        _ => {
                            let f = var(if g.t.flag() { "ZF" } else { "CF" }, 1);
                            let c = g.cmp();
                            defs.push(assign(t0, &f, c));
                        }
                    }
                }
                let jt = instr_tid(bb + 0x3f, 0);
                let jmps = if bi + 1 == gn {
                    let tv = tmp("$Ur", 8);
                    defs.push(load(instr_tid(bb + 0x3e, 0), &tv, evar(&var("RSP", 8))));
                    defs.push(assign(instr_tid(bb + 0x3e, 1), &var("RSP", 8), ebin(IntAdd, evar(&var("RSP", 8)), econst(8, 8))));
                    vec![jmp(jt, Jmp::Return(evar(&tv)))]
                } else if g.t.flag() {
                    // forward only: no loops in the callee
                    let t1 = blk_tid(gbase + 0x40 * (bi + 1 + g.t.below(gn - bi - 1)) as u64);
                    let cond = if g.t.flag() { evar(&var("ZF", 1)) } else { g.cmp() };
                    vec![jmp(jt, Jmp::CBranch { target: t1, condition: cond }), jmp(instr_tid(bb + 0x3f, 1), Jmp::Branch(blk_tid(bb + 0x40)))]
                } else {
                    vec![jmp(jt, Jmp::Branch(blk_tid(bb + 0x40)))]
                };
                gblocks.push(blk(blk_tid(bb), defs, jmps));
            }
            subs.push(sub(sub_tid(gbase), "g", gblocks));
        }
        let ncalls = 1 + g.t.below(3);
        for _ in 0..ncalls {
            let bi = g.t.below(nblocks - 1);
            let bb = sbase + 0x40 * bi as u64;
            let target = match g.t.below(if with_callee { 9 } else { 5 }) {
                0 => e_malloc.clone(),
                1 => e_rand.clone(),
                2 => e_memfn.clone(),
                3 => e_unk.clone(),
                4 => e_stk.clone(),
                _ => sub_tid(gbase),
            };
            let indirect = g.t.prob(40);
            if target == e_stk {
                // the stack argument: written by the caller just below the return address slot
                let c = g.small();
                blocks[bi].term.defs.push(store(instr_tid(bb + 0x3c, 0), evar(&var("RSP", 8)), econst(c, 8)));
                g.feat("call-with-stack-argument");
            }
            // argument set-up: pointers into the own stack frame, copies of other registers, constants
            for (k, p) in ["RDI", "RSI"].iter().enumerate() {
                let t0 = instr_tid(bb + 0x3a + k as u64, 0);
                match g.t.below(6) {
                    0 | 1 => {
                        let base = var(if g.t.prob(60) { "RBP" } else { "RSP" }, 8);
                        let off = *g.t.choose(&[0i128, 8, 16, 24, 32, -8, -16, 64]);
                        blocks[bi].term.defs.push(assign(t0, &var(p, 8), ebin(IntAdd, evar(&base), econst(off, 8))));
                        g.feat("call-with-pointer-to-own-stack");
                    }
                    2 => {
                        let s = g.reg();
                        blocks[bi].term.defs.push(assign(t0, &var(p, 8), evar(&s)));
                    }
                    3 => {
                        let c = *g.t.choose(&[0x800i128, 0x1000, 0x2ff0, 16, 0]);
                        blocks[bi].term.defs.push(assign(t0, &var(p, 8), econst(c, 8)));
                    }
                    _ => {}
                }
            }
            // x86 CALL: push the return address
            blocks[bi].term.defs.push(assign(instr_tid(bb + 0x3d, 0), &var("RSP", 8), ebin(IntSub, evar(&var("RSP", 8)), econst(8, 8))));
            blocks[bi].term.defs.push(store(instr_tid(bb + 0x3d, 1), evar(&var("RSP", 8)), econst((bb + 0x40) as i128, 8)));
            blocks[bi].term.jmps = if indirect {
                // call through a register (function pointer): a value loaded from memory, a parameter, anything
                g.feat("indirect-call");
                let r = g.reg();
                vec![jmp(instr_tid(bb + 0x3f, 0), Jmp::CallInd { target: evar(&r), return_: Some(blk_tid(bb + 0x40)) })]
            } else {
                vec![jmp(instr_tid(bb + 0x3f, 0), Jmp::Call { target, return_: Some(blk_tid(bb + 0x40)) })]
            };
        }
    }
    let s = sub(sub_tid(sbase), "f", blocks);
    subs.insert(0, s);
    let mut project = project(subs, externs, vec![sub_tid(sbase)]);
    // a writeable global segment at low addresses just above the NULL range: absolute accesses into it are
    // valid (unknown content); every other absolute access is invalid for the analysis and aborts the concrete run
    let literal = g.t.prob(64);
    if literal {
        g.feat("literal-memory-model");
    } else {
        project.runtime_memory_image.memory_segments.push(cwe_checker_lib::utils::binary::MemorySegment {
            bytes: vec![0u8; (GLOBAL_END - GLOBAL_START) as usize],
            base_address: GLOBAL_START,
            read_flag: true,
            write_flag: true,
            execute_flag: false,
        });
    }
    // initial states
    let mut states = vec![];
    for k in 0..NSTATES {
        let aliasing = k >= NSTATES - 2;
        let mut regs: Vec<(String, u128, usize)> = vec![];
        for (i, r) in GPRS.iter().enumerate() {
            let is_param = PARAM_REGS.contains(r) || *r == "RSP";
            let v: u128 = if *r == "RSP" {
                0x7ffe_0000_0000u128 + 16 * g.t.below(4096) as u128
            } else if is_param && !aliasing {
                // pointer-like values, pairwise far apart and far from small constants
                ((0x10 + i as u128) << 40) + ((g.t.u16() as u128) << 8)
            } else if aliasing && is_param {
                // small values, equal values, values around compared constants
                match g.t.below(4) {
                    0 => g.t.below(8) as u128,
                    1 => regs.first().map(|x| x.1).unwrap_or(0),
                    2 => (g.small() as u128) & (u64::MAX as u128),
                    _ => g.t.int(8),
                }
            } else {
                // non-parameter registers: anything (boundary biased)
                match g.t.below(3) {
                    0 => (g.small() as u128) & (u64::MAX as u128),
                    _ => g.t.int(8),
                }
            };
            regs.push((r.to_string(), v, 8));
        }
        for f in FLAGS {
            regs.push((f.to_string(), g.t.below(2) as u128, 1));
        }
        states.push((regs, g.t.u16() as u64, aliasing));
    }
    Case { literal, project, states, features: g.features }
}

/// Entry-value environment for the abstract identifiers of one function activation.
struct Rho {
    sub_tid: Tid,
    /// register values at function entry
    entry: BTreeMap<String, u128>,
    /// memory at function entry
    entry_mem: State,
    lenient_empty: bool,
    /// bytes accessed by this activation, per set of abstract identifiers that the analysis computed for the
    /// access address: the same byte reached through two disjoint identifier sets means that two abstract
    /// objects denote the same memory in this run
    touched: Vec<(std::collections::BTreeSet<String>, std::collections::BTreeSet<u64>)>,
}

impl Rho {
    /// Concrete value an identifier stands for, if the harness can determine it.
    fn value(&self, id: &AbstractIdentifier) -> Option<(u128, usize)> {
        if *id.get_tid() != self.sub_tid || !id.get_path_hints().is_empty() {
            return None;
        }
        match id.get_location() {
            AbstractLocation::Register(v) => self.entry.get(&v.name).map(|x| (*x, u64::from(v.size) as usize)),
            AbstractLocation::Pointer(v, AbstractMemoryLocation::Location { offset, size }) => {
                let base = *self.entry.get(&v.name)?;
                let addr = (base as u64).wrapping_add(*offset as u64);
                let s = u64::from(*size) as usize;
                Some((self.entry_mem.read_mem(addr, s), s))
            }
            _ => None,
        }
    }
}

/// Is the concrete value `v` (width `w`) represented by the abstract value `d`?
fn represented(d: &DataDomain<IntervalDomain>, v: u128, w: usize, rho: &Rho) -> (bool, bool) {
    // returns (represented, lenient) where lenient = only represented thanks to an unknown identifier / top
    if d.contains_top() {
        return (true, true);
    }
    // In the literal memory model reads of absolute addresses outside the (empty) memory image complete, while the
    // analysis gives them no value at all (it regards them as invalid accesses); such registers are not judged.
    if rho.lenient_empty && d.is_empty() {
        return (true, true);
    }
    if let Some(a) = d.get_absolute_value() {
        let p = IParts::of(a);
        if p.w == w && p.member_u(v) {
            return (true, false);
        }
        if p.w != w {
            return (true, true);
        }
    }
    let mut lenient = false;
    for (id, off) in d.get_relative_values().iter() {
        match rho.value(id) {
            Some((base, bw)) if bw == w => {
                let p = IParts::of(off);
                if p.w != w {
                    lenient = true;
                    continue;
                }
                let diff = v.wrapping_sub(base) & rs::mask(w);
                if p.member_u(diff) {
                    return (true, false);
                }
            }
            _ => lenient = true,
        }
    }
    (lenient, lenient)
}

struct Obs<'a, 'b> {
    pi: &'b cwe_checker_lib::analysis::pointer_inference::PointerInference<'a>,
    project: &'b Project,
    nodes: &'b BTreeMap<Tid, petgraph::graph::NodeIndex>,
    regs: &'b [Variable],
    /// activation records: frames[0] is the function under test, the last one the running function
    frames: Vec<Rho>,
    lenient_empty: bool,
    seed: u64,
    failure: Option<(String, String)>,
    arrivals: u64,
    lenient: u64,
    exact: u64,
    visited: Vec<Tid>,
    extern_calls: u64,
    internal_calls: u64,
    internal_returns: u64,
    extern_writes: u64,
    checks_after_call: u64,
    after_call: bool,
    /// the last executed jump was an indirect call
    after_callind: bool,
    /// whether the analysis had a non-Top value for the target of the last indirect call
    last_callind_nontop: Option<bool>,
    /// an internal callee accessed the same byte through two different bases (two parameters that point into
    /// the same caller object, a parameter and its own stack pointer, ...): the analysis' assumption that
    /// different parameter identifiers denote different memory does not hold from then on
    aliasing_frame: bool,
}

const HEAP_START: u64 = 0x6000_0000_0000;
const HEAP_END: u64 = 0x6000_1000_0000;

impl<'a, 'b> Obs<'a, 'b> {
    fn writable(state: &State, addr: u64) -> bool {
        let s = addr as i64;
        if s > -1024 && s < 1024 {
            return false;
        }
        let rs_ = match (&state.valid_ranges, &state.unpoisoned_ranges) {
            (Some(r), _) => r,
            (None, Some(r)) => r,
            _ => return false,
        };
        rs_.iter().any(|(lo, hi)| addr >= *lo && addr.checked_add(8).map(|e| e <= *hi).unwrap_or(false))
    }

    /// One possible behaviour of an extern function that obeys the calling convention: pops the return
    /// address, clobbers every register that is not callee-saved, writes to memory reachable from its
    /// pointer parameters (one and two levels), returns a fresh pointer / NULL (malloc) or anything.
    fn extern_call(&mut self, sym: &ExternSymbol, state: &mut State) {
        use crate::tape::mix64;
        self.extern_calls += 1;
        let mut h = mix64(self.seed ^ self.extern_calls.wrapping_mul(0x9e37_79b9_7f4a_7c15) ^ 0xc13);
        let mut next = || {
            h = mix64(h.wrapping_add(0x2545_f491_4f6c_dd1d));
            h
        };
        let rsp = state.get(&var("RSP", 8)).v as u64;
        let param_regs: Vec<String> = if sym.parameters.is_empty() && sym.return_values.is_empty() {
            PARAM_REGS.iter().map(|r| r.to_string()).collect()
        } else {
            sym.parameters
                .iter()
                .filter_map(|a| match a {
                    Arg::Register { expr: Expression::Var(v), .. } => Some(v.name.clone()),
                    _ => None,
                })
                .collect()
        };
        let ptrs: Vec<u64> = param_regs.iter().map(|r| state.get(&var(r, 8)).v as u64).collect();
        // the callee owns its stack arguments and may overwrite them
        for a in &sym.parameters {
            if let Arg::Stack { address, size, .. } = a {
                let addr = state.eval(address).v as u64;
                if Self::writable(state, addr) && next() % 4 != 0 {
                    state.write_mem(addr, u64::from(*size) as usize, next() as u128);
                    self.extern_writes += 1;
                }
            }
        }
        // memory effects
        if sym.name != "malloc" && sym.name != "rand" {
            for p in ptrs {
                if !Self::writable(state, p) {
                    continue;
                }
                let inner = state.read_mem(p, 8) as u64;
                let n = 1 + (next() % 3);
                for k in 0..n {
                    let a = p.wrapping_add(8 * k);
                    if Self::writable(state, a) && next() % 4 != 0 {
                        state.write_mem(a, 8, next() as u128);
                        for i in 0..8 {
                            state.poison_mem.remove(&a.wrapping_add(i));
                        }
                        self.extern_writes += 1;
                    }
                }
                if Self::writable(state, inner) && next() % 2 == 0 {
                    state.write_mem(inner, 8, next() as u128);
                    self.extern_writes += 1;
                }
            }
        }
        // registers
        for r in self.regs {
            if CALLEE_SAVED.contains(&r.name.as_str()) || r.name == "RSP" {
                continue;
            }
            let w = u64::from(r.size) as usize;
            let v = if w == 1 { (next() & 1) as u128 } else { next() as u128 };
            state.set(&r.name, v, w);
            state.poison_vars.remove(&r.name);
        }
        let temps: Vec<String> = state.vars.keys().filter(|k| k.starts_with('$')).cloned().collect();
        for t in temps {
            state.vars.remove(&t);
        }
        let ret: u128 = match sym.name.as_str() {
            "malloc" => {
                if next() % 4 == 0 {
                    0
                } else {
                    (HEAP_START + ((self.extern_calls % 15) << 24)) as u128
                }
            }
            _ => match next() % 3 {
                0 => (next() % 16) as u128,
                _ => next() as u128,
            },
        };
        if !sym.return_values.is_empty() {
            state.set("RAX", ret, 8);
        }
        state.set("RSP", rsp.wrapping_add(8) as u128, 8);
    }
}

impl<'a, 'b> Observer for Obs<'a, 'b> {
    fn at_block(&mut self, blk: &Term<Blk>, state: &State) -> bool {
        self.arrivals += 1;
        if !self.visited.contains(&blk.tid) {
            self.visited.push(blk.tid.clone());
        }
        let node = match self.nodes.get(&blk.tid) {
            Some(n) => *n,
            None => return true, // artificial blocks without node cannot occur in this profile
        };
        let came_from_callind = std::mem::replace(&mut self.after_callind, false);
        if self.pi.get_node_value(node).is_none() {
            if came_from_callind && self.last_callind_nontop == Some(true) {
                self.failure = Some((
                    "indirect-call-with-known-target-treated-as-not-returning".into(),
                    format!("block {} is the return site of an indirect call whose target value is not Top for the analysis; the analysis has no state for it, the concrete run returned to it", blk.tid),
                ));
            } else {
                self.failure = Some(("unreachable-block-reached".into(), format!("block {} has no analysis state (considered unreachable) but the concrete run reached it", blk.tid)));
            }
            return false;
        }
        // The analysis models an indirect call with a non-Top target as not returning (open finding): the concrete
        // return is a flow the analysis deliberately ignores, so this arrival is judged under that finding's
        // signature and the run ends here.
        let off_model = came_from_callind && self.last_callind_nontop == Some(true);
        let rho = self.frames.last().expect("frame");
        for r in self.regs {
            if state.poison_vars.contains(&r.name) {
                continue;
            }
            let v = state.get(r);
            let d = match self.pi.eval_at_node(node, &Expression::Var(r.clone())) {
                Some(d) => d,
                None => continue,
            };
            let (ok, len) = represented(&d, v.v, v.w, rho);
            if !ok {
                let place = if self.frames.len() > 1 { "in a callee" } else if self.after_call { "after a call" } else { "before any call" };
                self.failure = Some((
                    if off_model { "indirect-call-with-known-target-treated-as-not-returning".to_string() } else { "register-value-not-represented".to_string() },
                    format!("({}) at block {} (function {}): register {} has concrete value {:#x} which is not represented by the analysis value {}", place, blk.tid, rho.sub_tid, r.name, v.v, d.to_json_compact()),
                ));
                return false;
            }
            if len {
                self.lenient += 1;
            } else {
                self.exact += 1;
                if self.after_call {
                    self.checks_after_call += 1;
                }
            }
        }
        !off_model
    }

    fn at_access(&mut self, def: &Term<Def>, addr: u64, size: usize, _state: &State) {
        // only activations of internal callees: the function under test starts from a state the harness chose
        if self.frames.len() < 2 {
            return;
        }
        // through which abstract objects does the analysis think this access goes?
        let d = match self.pi.eval_address_at_def(&def.tid) {
            Some(d) => d,
            None => return,
        };
        let mut ids: std::collections::BTreeSet<String> = d.get_relative_values().keys().map(|id| format!("{}", id)).collect();
        if d.get_absolute_value().is_some() {
            ids.insert("abs".to_string());
        }
        if ids.is_empty() {
            return; // Top: the analysis claims nothing
        }
        let frame = self.frames.last_mut().expect("frame");
        let bytes: Vec<u64> = (0..size as u64).map(|i| addr.wrapping_add(i)).collect();
        for (other, set) in frame.touched.iter() {
            if other.is_disjoint(&ids) && bytes.iter().any(|x| set.contains(x)) {
                self.aliasing_frame = true;
            }
        }
        match frame.touched.iter_mut().find(|(o, _)| *o == ids) {
            Some((_, set)) => set.extend(bytes),
            None => frame.touched.push((ids, bytes.into_iter().collect())),
        }
    }

    fn at_call_ind(&mut self, call: &Term<Jmp>, target_value: u128, state: &mut State) -> CallAction {
        // only a pointer-like target value can be the address of a function that returns; a call to a small
        // constant, a NULL-range value or a data address of the global segment ends the run (it would crash)
        let tv = target_value as u64;
        if tv < (1 << 32) || tv > 0x7fff_ffff_ffff {
            return CallAction::Stop;
        }
        // the called function is unknown: one behaviour that obeys the calling convention
        let unk = ExternSymbol { tid: Tid::new("indirect"), addresses: vec![], name: "indirect".into(), calling_convention: None, parameters: vec![], return_values: vec![], no_return: false, has_var_args: false };
        if let Jmp::CallInd { target, .. } = &call.term {
            // does the analysis know "at least something" about the target? (it then treats the call as not returning)
            self.last_callind_nontop = self.pi.eval_at_jmp(&call.tid, target).map(|d| !d.is_top());
        }
        self.extern_call(&unk, state);
        // an unknown function returns something in the return register
        state.set("RAX", crate::tape::mix64(self.seed ^ self.extern_calls) as u128, 8);
        self.after_call = true;
        self.after_callind = true;
        CallAction::Handled
    }

    fn at_call(&mut self, _call: &Term<Jmp>, target: &Tid, state: &mut State) -> CallAction {
        if let Some(sym) = self.project.program.term.extern_symbols.get(target) {
            let sym = sym.clone();
            self.extern_call(&sym, state);
            self.after_call = true;
            return CallAction::Handled;
        }
        let callee = match self.project.program.term.subs.get(target) {
            Some(c) if self.frames.len() < 3 && !c.term.blocks.is_empty() => c,
            _ => return CallAction::Stop,
        };
        self.internal_calls += 1;
        let rsp = state.get(&var("RSP", 8)).v as u64;
        let ret_addr = state.read_mem(rsp, 8);
        let mut entry = BTreeMap::new();
        for r in self.regs {
            entry.insert(r.name.clone(), state.get(r).v);
        }
        let mut entry_mem = State::new(state.mem_seed);
        entry_mem.mem = state.mem.clone();
        self.frames.push(Rho { sub_tid: target.clone(), entry, entry_mem, lenient_empty: self.lenient_empty, touched: vec![] });
        // P-Code temporaries do not survive instructions
        let temps: Vec<String> = state.vars.keys().filter(|k| k.starts_with('$')).cloned().collect();
        for t in temps {
            state.vars.remove(&t);
        }
        let regs = self.regs;
        let run = run_sub(callee, state, regs, &Limits { max_events: 200, max_blocks: 20 }, &[], self);
        self.frames.pop();
        if self.failure.is_some() || run.stop != Stop::Finished {
            return CallAction::Stop;
        }
        // the callee must have returned to the pushed return address with the return address popped
        let proper = matches!(run.events.last(), Some(crate::irinterp::Event::Return { target: t, .. }) if *t == ret_addr) && state.get(&var("RSP", 8)).v as u64 == rsp.wrapping_add(8);
        if !proper {
            return CallAction::Stop;
        }
        let temps: Vec<String> = state.vars.keys().filter(|k| k.starts_with('$')).cloned().collect();
        for t in temps {
            state.vars.remove(&t);
        }
        self.internal_returns += 1;
        self.after_call = true;
        CallAction::Handled
    }
}

pub fn check_case(case: &Case, ctx: &mut Ctx) -> CaseResult {
    let mut project = case.project.clone();
    if let Err(f) = cut(|| {
        let _ = project.normalize_basic();
        let _ = project.normalize_optimize();
    }) {
        return ctx.report(format!("C13:normalize:{}", f.signature), f.detail);
    }
    for f in &case.features {
        ctx.label(&format!("feature:{}", f));
    }
    let sub_tid: Tid = sub_tid(0x1000);
    let result: Result<Result<(), (String, String, bool)>, crate::engine::Failure> = cut(|| {
        let graph = cwe_checker_lib::analysis::graph::get_program_cfg(&project.program);
        let binary: Vec<u8> = vec![];
        let ar = AnalysisResults::new(&binary, &graph, &project);
        let (sigs, _logs) = ar.compute_function_signatures();
        let ar = ar.with_function_signatures(Some(&sigs));
        let config: cwe_checker_lib::analysis::pointer_inference::Config = serde_json::from_value(serde_json::json!({"allocation_symbols": ["malloc"]})).unwrap();
        let pi = cwe_checker_lib::analysis::pointer_inference::run(&ar, config, false, false);
        let unstabilized = pi.collected_logs.0.iter().any(|l| l.text.contains("did not stabilize"));
        if unstabilized {
            return Err(("unstabilized".to_string(), String::new(), false));
        }
        let mut nodes = BTreeMap::new();
        let mut stateless = 0;
        for n in graph.node_indices() {
            if let Node::BlkStart(b, _) = graph[n] {
                nodes.insert(b.tid.clone(), n);
                if pi.get_node_value(n).is_none() {
                    stateless += 1;
                }
            }
        }
        let s = match project.program.term.subs.get(&sub_tid) {
            Some(s) => s,
            None => return Ok(()),
        };
        let regs: Vec<Variable> = project.register_set.iter().cloned().collect();
        let mut stats = (0u64, 0u64, 0u64, stateless, 0usize, false, false);
        let calls = std::cell::Cell::new((0u64, 0u64, 0u64, 0u64, 0u64));
        let frame_alias = std::cell::Cell::new(false);
        // one concrete run; returns (failure, arrivals, lenient, exact, visited blocks, looped, null-abort, blocks run)
        let run_state = |regvals: &Vec<(String, u128, usize)>, seed: u64| {
            let mut st = State::new(seed);
            st.null_guard = Some(1024);
            // valid memory: the global segment, the stack area around the entry stack pointer, and a page
            // around the entry value of each parameter register (pointer parameters)
            let mut ranges: Vec<(u64, u64)> = vec![(GLOBAL_START, GLOBAL_END), (HEAP_START, HEAP_END)];
            for (n, v, _) in regvals {
                let v = *v as u64;
                if n == "RSP" {
                    ranges.push((v.saturating_sub(1 << 20), v.saturating_add(1 << 20)));
                } else if PARAM_REGS.contains(&n.as_str()) && v > (1 << 32) && v < (1 << 62) {
                    ranges.push((v - 0x1000, v + 0x1000));
                }
            }
            if !case.literal {
                st.valid_ranges = Some(ranges);
            } else {
                // literal model: everything outside the NULL range is memory, but what is loaded from outside
                // the stack / parameter pages is not modelled by the analysis (empty memory image): poisoned
                st.unpoisoned_ranges = Some(ranges.into_iter().filter(|(lo, _)| *lo != GLOBAL_START).collect());
            }
            let mut entry = BTreeMap::new();
            for (n, v, w) in regvals {
                st.set(n, *v, *w);
                entry.insert(n.clone(), *v);
            }
            let entry_mem = State::new(seed);
            let rho = Rho { sub_tid: sub_tid.clone(), entry, entry_mem, lenient_empty: case.literal, touched: vec![] };
            let mut obs = Obs {
                pi: &pi,
                project: &project,
                nodes: &nodes,
                regs: &regs,
                frames: vec![rho],
                lenient_empty: case.literal,
                seed,
                failure: None,
                arrivals: 0,
                lenient: 0,
                exact: 0,
                visited: vec![],
                extern_calls: 0,
                internal_calls: 0,
                internal_returns: 0,
                extern_writes: 0,
                checks_after_call: 0,
                after_call: false,
                after_callind: false,
                last_callind_nontop: None,
                aliasing_frame: false,
            };
            let run = run_sub(s, &mut st, &regs, &Limits { max_events: 300, max_blocks: 80 }, &[], &mut obs);
            calls.set({
                let c = calls.get();
                (c.0 + obs.extern_calls, c.1 + obs.internal_calls, c.2 + obs.internal_returns, c.3 + obs.extern_writes, c.4 + obs.checks_after_call)
            });
            let looped = run.blocks.len() > obs.visited.len();
            let failure = obs.failure.take().map(|(sig, detail)| {
                (sig, format!("{}\ninitial registers: {:x?}\nblocks run: {:?}", detail, regvals.iter().map(|(n, v, _)| (n.as_str(), *v)).collect::<Vec<_>>(), run.blocks.iter().take(30).collect::<Vec<_>>()))
            });
            frame_alias.set(obs.aliasing_frame);
            (failure, obs.arrivals, obs.lenient, obs.exact, obs.visited.len(), looped, run.stop == Stop::NullAccess)
        };
        // separated states first, aliasing states last
        for (regvals, seed, aliasing) in case.states.iter() {
            let (failure, arrivals, lenient, exact, visited, looped, null_abort) = run_state(regvals, *seed);
            stats.0 += arrivals;
            stats.1 += lenient;
            stats.2 += exact;
            stats.4 = stats.4.max(visited);
            if looped {
                stats.5 = true; // some block executed more than once: a loop was taken
            }
            if null_abort {
                stats.6 = true;
            }
            if let Some((sig, detail)) = failure {
                if sig.starts_with("indirect-call-") {
                    // its own class, independent of the initial state
                    return Err((sig, detail, false));
                }
                if frame_alias.get() {
                    // the callee's parameters aliased each other at run time; this cannot be undone by changing
                    // the initial state (the caller computes the pointers), so the failure is attributed to the
                    // same documented assumption without a de-aliasing re-run
                    return Err((sig, format!("(an internal callee accessed the same memory through two different parameter / stack bases)\n{}", detail), true));
                }
                if *aliasing {
                    // Does the failure disappear when the aliasing is removed (parameter registers replaced by
                    // pairwise distant pointer-like values, everything else unchanged)? Only then it is attributed
                    // to the analysis' documented assumption that different identifiers denote different values.
                    let mut de = regvals.clone();
                    for (i, (n, v, _)) in de.iter_mut().enumerate() {
                        if PARAM_REGS.contains(&n.as_str()) {
                            *v = ((0x10 + i as u128) << 40) + 0x5500;
                        }
                    }
                    if let (Some((sig2, detail2)), ..) = run_state(&de, *seed) {
                        return Err((sig2, format!("(found in an aliasing state; still fails with the aliasing removed)\n{}", detail2), false));
                    }
                }
                return Err((sig, detail, *aliasing));
            }
        }
        let c = calls.get();
        Err(("stats".to_string(), format!("{} {} {} {} {} {} {} {} {} {} {} {}", stats.0, stats.1, stats.2, stats.3, stats.4, stats.5, stats.6, c.0, c.1, c.2, c.3, c.4), false))
    });
    match result {
        Err(f) if case.features.contains(&"calls") => {
            ctx.label(&format!("observation-beyond-the-property-domain(program-with-calls):analysis:{}", f.signature));
            Ok(())
        }
        Err(f) => ctx.report(format!("C13:analysis:{}", f.signature), format!("{}\n{}", f.detail, project.program.term)),
        Ok(Ok(())) => Ok(()),
        Ok(Err((sig, detail, aliasing))) => {
            if sig == "unstabilized" {
                ctx.label("premise-failed:fixpoint-not-stabilized");
                return Ok(());
            }
            if sig == "stats" {
                let v: Vec<&str> = detail.split(' ').collect();
                let arrivals: u64 = v[0].parse().unwrap();
                let lenient: u64 = v[1].parse().unwrap();
                let exact: u64 = v[2].parse().unwrap();
                ctx.extra_evaluations(arrivals);
                ctx.label_n("register-checks:lenient(top/unknown-id)", lenient);
                ctx.label_n("register-checks:decided-by-interval", exact);
                if v[3] != "0" {
                    ctx.label("analysis-pruned-some-block");
                }
                let visited: usize = v[4].parse().unwrap();
                let looped = v[5] == "true";
                if looped {
                    ctx.label("loop-executed");
                }
                if v[6] == "true" {
                    ctx.label("run-aborted-at-null-access");
                }
                let n = |i: usize| -> u64 { v[i].parse().unwrap() };
                if n(7) > 0 {
                    ctx.label("extern-call-executed");
                }
                if n(8) > 0 {
                    ctx.label("internal-call-executed");
                }
                if n(9) > 0 {
                    ctx.label("internal-callee-returned-properly");
                }
                if n(10) > 0 {
                    ctx.label("extern-function-wrote-through-pointer-parameter");
                }
                ctx.label_n("register-checks:decided-by-interval-after-a-call", n(11));
                if looped && visited >= 3 {
                    ctx.label("nontrivial");
                    ctx.nontrivial(fnv(format!("{}", project.program.term).as_bytes()));
                }
                return Ok(());
            }
            if case.features.contains(&"calls") {
                // The property quantifies over single-function programs over registers and stack memory. Programs with
                // calls (extern, indirect, an internal callee) are explored beyond that domain: what is found there is
                // recorded as an observation (label + sample + saved replay text), never as a violation of C13.
                ctx.label(&format!("observation-beyond-the-property-domain(program-with-calls):{}{}", if aliasing { "identifier-alias-assumption:" } else { "" }, sig));
                let text = format!("OBSERVATION (program with calls, outside the domain of C13) {}\n{}\n{}", sig, detail, project.program.term);
                ctx.sample(|| text.chars().take(3000).collect());
                return Ok(());
            }
            if aliasing {
                ctx.label("failure-only-in-aliasing-state");
                return ctx.report(format!("C13:identifier-alias-assumption:{}", sig), format!("(initial state violates the analysis' documented assumption that different identifiers / absolute values never denote the same value)\n{}\n{}", detail, project.program.term));
            }
            ctx.report(format!("C13:{}", sig), format!("{}\n{}", detail, project.program.term))
        }
    }
}

pub fn run(eng: &mut Engine) {
    eng.rule = "DOMAIN OF THE VERDICT: programs without calls (the property speaks of single-function programs over registers and stack memory); programs with calls are explored too, failures there are observations (labels observation-beyond-the-property-domain:*), not violations. cases = generated single-function programs (2..8 blocks, loops and comparison-guarded branches, register arithmetic, flag definitions, stack stores/loads at constant offsets through RSP/RBP, SP adjustments, accesses through small constant addresses; no calls, no non-stack pointers) analysed by the real pipeline (normalize, CFG, function signatures, pointer inference) x 8 initial states (6 with parameter registers/SP pairwise far apart, 2 aliasing); the harness' interpreter checks at every block arrival that the block has an analysis state and that every physical register's concrete value is a member of its abstract value (own interval membership; parameter identifiers read as entry values, unknown identifiers/top count as represented); non-trivial = a loop was executed and >= 3 distinct blocks visited; distinct by hash of the normalized program".into();
    eng.assumptions = vec![
        "irinterp/refsem are the IR semantics; accesses to addresses in (-1024,1024) abort the run".into(),
        "cases whose pointer inference does not stabilize are skipped (premise) and counted".into(),
        "identifiers the harness cannot evaluate count as represented (lenient, counted)".into(),
    ];
    let cases = eng.tier.pick(40_000u64, 1_200_000u64);
    eng.random(
        "pi-soundness",
        RandomSpec { cases, max_tape: 1400 },
        |tape, ctx| {
            let mut t = Tape::new(tape);
            let case = decode(&mut t);
            if ctx.want_sample() {
                let s = format!("{}", case.project.program.term);
                ctx.sample(|| s.chars().take(1200).collect());
            }
            check_case(&case, ctx)
        },
        |tape| {
            let case = decode(&mut Tape::new(tape));
            format!("{}", case.project.program.term)
        },
    );
    eng.require_fraction("pi-soundness", "nontrivial", 0.25);
    eng.require_fraction("pi-soundness", "analysis-pruned-some-block", 0.02);
    eng.require_fraction("pi-soundness", "feature:structured-counting-loop", 0.1);
    eng.require_fraction("pi-soundness", "feature:two-constants-join-then-access", 0.05);
}
