//! C19 — global memory queries agree with the loaded memory image.
//!
//! Generator: layouts of 1..5 pairwise disjoint segments (adjacent / gap 1 / near / far; ordered and
//! shuffled in the vector; contents with NULs sprinkled; flags; both endiannesses; address widths 4
//! and 8). For each layout EVERY address from base-2 to base+len+2 of every segment is queried with
//! every query function (reads with sizes 1,2,4,8 plus 3 and 16; interval queries for every pair of
//! such addresses with start <= end).
//! Oracle: a byte-array model (this file), written from the property statement and the doc comments
//! of `runtime_memory_image.rs` / `binary.rs`. It never calls the code under test.
//! Further sections: `new_from_bare_metal` + bare-metal `MemorySegment` constructors, and the ELF
//! constructors (`from_elf_segment`, `from_elf_section`, `from_pe_section`) through `RuntimeMemoryImage::new` on
//! generated ELF64 files (ET_EXEC/ET_DYN with program headers, ET_REL with section headers as for
//! kernel modules), and `from_pe_section` on generated PE32+ files.

use crate::conv::{bs, to_v};
use crate::engine::{CaseResult, Ctx, Engine, Mode, RandomSpec};
use crate::tape::{fnv, Tape};
use cwe_checker_lib::intermediate_representation::{Bitvector, RuntimeMemoryImage};
use cwe_checker_lib::utils::binary::{BareMetalConfig, MemorySegment};

// ---------------------------------------------------------------------------------------------
// Model

#[derive(Debug, Clone, PartialEq, Eq)]
struct Seg {
    base: u64,
    bytes: Vec<u8>,
    r: bool,
    w: bool,
    x: bool,
}

impl Seg {
    fn end(&self) -> u64 {
        self.base + self.bytes.len() as u64
    }
    fn contains(&self, a: u64) -> bool {
        a >= self.base && a < self.end()
    }
}

#[derive(Debug, Clone)]
struct Layout {
    le: bool,
    /// byte width of address bitvectors
    width: usize,
    /// in vector order
    segs: Vec<Seg>,
}

impl Layout {
    fn containing(&self, a: u64) -> Option<(usize, &Seg)> {
        self.segs.iter().enumerate().find(|(_, s)| s.contains(a))
    }
    fn image(&self) -> RuntimeMemoryImage {
        RuntimeMemoryImage {
            memory_segments: self
                .segs
                .iter()
                .map(|s| MemorySegment { bytes: s.bytes.clone(), base_address: s.base, read_flag: s.r, write_flag: s.w, execute_flag: s.x })
                .collect(),
            is_little_endian: self.le,
            is_lkm: false,
        }
    }
    fn addr(&self, a: u64) -> Bitvector {
        if self.width == 8 {
            Bitvector::from_u64(a)
        } else {
            Bitvector::from_u32(a as u32)
        }
    }
    /// All addresses from base-2 to base+len+2 of every segment, sorted, distinct.
    fn neighbourhood(&self) -> Vec<u64> {
        let mut v = vec![];
        for s in &self.segs {
            let lo = s.base.saturating_sub(2);
            let hi = s.end() + 2;
            for a in lo..=hi {
                v.push(a);
            }
        }
        v.sort();
        v.dedup();
        v
    }
}

/// Expected result of `read`.
#[derive(Debug, PartialEq, Eq)]
enum Rd {
    Value(u128),
    Unknown,
    Fail,
}

fn model_read(l: &Layout, a: u64, size: u64) -> Rd {
    match l.containing(a) {
        Some((_, s)) if a as u128 + size as u128 <= s.end() as u128 => {
            if s.w {
                Rd::Unknown
            } else {
                let i = (a - s.base) as usize;
                let b = &s.bytes[i..i + size as usize];
                let mut v: u128 = 0;
                if l.le {
                    for (k, x) in b.iter().enumerate() {
                        v |= (*x as u128) << (8 * k);
                    }
                } else {
                    for x in b.iter() {
                        v = (v << 8) | *x as u128;
                    }
                }
                Rd::Value(v)
            }
        }
        _ => Rd::Fail,
    }
}

/// Expected result of the string read: bytes up to (excluding) the first NUL at or after `a` in the
/// containing segment. `None` = no containing segment or no NUL.
fn model_string(l: &Layout, a: u64) -> Option<&[u8]> {
    let (_, s) = l.containing(a)?;
    let i = (a - s.base) as usize;
    let n = s.bytes[i..].iter().position(|b| *b == 0)?;
    Some(&s.bytes[i..i + n])
}

const READ_SIZES: [u64; 6] = [1, 2, 4, 8, 3, 16];

fn check_layout(l: &Layout, img: &RuntimeMemoryImage, ctx: &mut Ctx) -> CaseResult {
    let addrs = l.neighbourhood();
    let mut n_eval: u64 = 0;
    let mut n_boundary_adjacent: u64 = 0;
    // addresses at which one segment ends and another begins
    let mut seams: Vec<u64> = vec![];
    for s in &l.segs {
        if !s.bytes.is_empty() && l.segs.iter().any(|t| !t.bytes.is_empty() && t.end() == s.base) {
            seams.push(s.base);
        }
    }
    for &a in &addrs {
        if l.width == 4 && a > u32::MAX as u64 {
            continue;
        }
        let near_seam = seams.iter().any(|s| a + 2 >= *s && a <= *s + 2);
        let bva = l.addr(a);
        let cont = l.containing(a);
        // ---- read
        for size in READ_SIZES {
            let exp = model_read(l, a, size);
            let got = match ctx.cut(|| img.read(&bva, bs(size as usize)))? {
                Some(g) => g,
                None => continue,
            };
            n_eval += 1;
            let got_m = match &got {
                Ok(Some(b)) => {
                    let v = to_v(b);
                    if v.w as u64 != size {
                        return ctx.report("C19:read:wrong-width", format!("read({:#x}, {}) returned a value of {} bytes; layout {:?}", a, size, v.w, l));
                    }
                    Rd::Value(v.v)
                }
                Ok(None) => Rd::Unknown,
                Err(_) => Rd::Fail,
            };
            if got_m != exp {
                let what = match (&exp, &got_m) {
                    (Rd::Fail, _) => "should-fail",
                    (_, Rd::Fail) => "should-succeed",
                    (Rd::Value(_), Rd::Value(_)) => "wrong-value",
                    (Rd::Unknown, _) => "should-be-unknown-content",
                    (_, Rd::Unknown) => "should-be-known-content",
                };
                let spanning = cont.is_some() && exp == Rd::Fail;
                return ctx.report(
                    format!("C19:read:{}{}", what, if spanning { ":range-leaves-segment" } else { "" }),
                    format!("read({:#x}, size {}) = {:x?}, model {:x?}; layout {:x?}", a, size, got_m, exp, l),
                );
            }
        }
        // ---- string read
        {
            let got = match ctx.cut(|| img.read_string_until_null_terminator(&bva).map(|s| s.to_string()).map_err(|e| e.to_string()))? {
                Some(g) => g,
                None => continue,
            };
            n_eval += 1;
            let exp_bytes = model_string(l, a);
            let exp: Option<&str> = exp_bytes.and_then(|b| std::str::from_utf8(b).ok());
            let writable = cont.map(|(_, s)| s.w).unwrap_or(false);
            let ok = match (&got, exp) {
                (Ok(g), Some(e)) => g == e,
                (Err(_), None) => true,
                // inside a writable segment the property demands nothing; only a wrong string is an error
                (Err(_), Some(_)) => writable,
                (Ok(_), None) => false,
            };
            if !ok {
                // F4 class: first byte of a segment that directly follows a segment listed earlier
                let f4 = match cont {
                    Some((i, s)) => a == s.base && l.segs.iter().enumerate().any(|(j, t)| j < i && t.end() == a),
                    None => false,
                };
                let sig = if f4 && got.is_err() {
                    "C19:read_string:fails-at-first-byte-after-adjacent-segment"
                } else if got.is_err() {
                    "C19:read_string:should-succeed"
                } else if exp.is_none() {
                    "C19:read_string:should-fail"
                } else {
                    "C19:read_string:wrong-string"
                };
                ctx.report(sig, format!("read_string_until_null_terminator({:#x}) = {:?}, model {:?} (bytes {:x?}); layout {:x?}", a, got, exp, exp_bytes, l))?;
            }
            if writable && got.is_ok() {
                ctx.label_n("measured:string-read-inside-writable-segment-returns-content", 1);
            }
        }
        // ---- is_address_writeable
        {
            if let Some(got) = ctx.cut(|| img.is_address_writeable(&bva))? {
                n_eval += 1;
                let exp = cont.map(|(_, s)| s.w);
                if got.as_ref().ok().copied() != exp {
                    let sig = if exp.is_none() { "should-fail" } else if got.is_err() { "should-succeed" } else { "wrong-flag" };
                    return ctx.report(format!("C19:is_address_writeable:{}", sig), format!("is_address_writeable({:#x}) = {:?}, model {:?}; layout {:x?}", a, got.ok(), exp, l));
                }
            }
        }
        // ---- get_ro_data_pointer_at_address
        {
            if let Some(got) = ctx.cut(|| img.get_ro_data_pointer_at_address(&bva).map(|(b, i)| (b.to_vec(), i)))? {
                n_eval += 1;
                let exp = match cont {
                    Some((_, s)) if !s.w => Some((s.bytes.clone(), (a - s.base) as usize)),
                    _ => None,
                };
                if got.as_ref().ok() != exp.as_ref() {
                    let sig = if exp.is_none() { "should-fail" } else if got.is_err() { "should-succeed" } else { "wrong-slice-or-index" };
                    return ctx.report(format!("C19:get_ro_data_pointer:{}", sig), format!("get_ro_data_pointer_at_address({:#x}) = {:x?}, model {:x?}; layout {:x?}", a, got.ok(), exp, l));
                }
            }
        }
        // ---- is_global_memory_address: sandwich (documented only as "is a global memory address")
        {
            if let Some(got) = ctx.cut(|| img.is_global_memory_address(&bva))? {
                n_eval += 1;
                let inside = cont.is_some();
                let pointer_sized_read_fits = model_read(l, a, l.width as u64) != Rd::Fail;
                if got && !inside {
                    return ctx.report("C19:is_global_memory_address:true-outside-all-segments", format!("is_global_memory_address({:#x}) = true; layout {:x?}", a, l));
                }
                if !got && pointer_sized_read_fits {
                    return ctx.report("C19:is_global_memory_address:false-inside-segment", format!("is_global_memory_address({:#x}) = false although {} bytes from there lie in one segment; layout {:x?}", a, l.width, l));
                }
                if !got && inside {
                    ctx.label_n("measured:address-in-last-bytes-of-segment-reported-non-global", 1);
                }
            }
        }
        // ---- interval queries: every end >= start in the neighbourhoods; `end` is exclusive
        //      (caller `load_global_address`: is_interval_readable(start, end + size))
        for &e in addrs.iter().filter(|e| **e >= a) {
            let exp_r = match cont {
                Some((_, s)) if e <= s.end() => Some(s.r),
                _ => None,
            };
            let exp_w = match cont {
                Some((_, s)) if e <= s.end() => Some(s.w),
                _ => None,
            };
            if let Some(got) = ctx.cut(|| img.is_interval_readable(a, e))? {
                n_eval += 1;
                if got.as_ref().ok().copied() != exp_r {
                    let sig = if exp_r.is_none() { "should-fail" } else if got.is_err() { "should-succeed" } else { "wrong-flag" };
                    return ctx.report(format!("C19:is_interval_readable:{}", sig), format!("is_interval_readable({:#x}, {:#x}) = {:?}, model {:?}; layout {:x?}", a, e, got.ok(), exp_r, l));
                }
            }
            if let Some(got) = ctx.cut(|| img.is_interval_writeable(a, e))? {
                n_eval += 1;
                if got.as_ref().ok().copied() != exp_w {
                    let sig = if exp_w.is_none() { "should-fail" } else if got.is_err() { "should-succeed" } else { "wrong-flag" };
                    return ctx.report(format!("C19:is_interval_writeable:{}", sig), format!("is_interval_writeable({:#x}, {:#x}) = {:?}, model {:?}; layout {:x?}", a, e, got.ok(), exp_w, l));
                }
            }
        }
        if near_seam {
            n_boundary_adjacent += 1;
        }
    }
    ctx.extra_evaluations(n_eval);
    ctx.label_n("queries", n_eval);
    ctx.label_n("addresses-within-2-of-a-seam-between-adjacent-segments", n_boundary_adjacent);
    Ok(())
}

// ---------------------------------------------------------------------------------------------
// Layout generator

fn gen_bytes(t: &mut Tape, len: usize) -> (Vec<u8>, &'static str) {
    let mode = t.below(6);
    let mut v = Vec::with_capacity(len);
    for _ in 0..len {
        let k = t.byte();
        let b = if k < 56 {
            0u8
        } else if k < 215 {
            // printable ASCII
            0x20 + (t.below(95) as u8)
        } else if k < 235 {
            // non-ASCII (usually invalid UTF-8)
            0x80 + (t.below(128) as u8)
        } else {
            // two-byte UTF-8 sequence start; continuation follows only by chance
            *t.choose(&[0xc3u8, 0xa9, 0x01, 0x7f, 0xff])
        };
        v.push(b);
    }
    let name = match mode {
        0 | 1 => "nul-sprinkled",
        2 => {
            for b in v.iter_mut() {
                if *b == 0 {
                    *b = b'A';
                }
            }
            "no-nul"
        }
        3 => {
            for b in v.iter_mut() {
                if *b == 0 {
                    *b = b'z';
                }
            }
            if let Some(x) = v.last_mut() {
                *x = 0;
            }
            "nul-last-only"
        }
        4 => {
            if let Some(x) = v.first_mut() {
                *x = 0;
            }
            "nul-first"
        }
        _ => {
            // ASCII text with terminators: every string valid UTF-8
            for b in v.iter_mut() {
                if *b >= 0x80 {
                    *b = b'a' + (*b % 26);
                }
            }
            "ascii-strings"
        }
    };
    (v, name)
}

#[derive(Debug)]
struct Gen {
    layout: Layout,
    shuffled: bool,
    gaps: Vec<u64>,
    content_modes: Vec<&'static str>,
}

fn decode_layout(t: &mut Tape) -> Gen {
    let le = !t.flag();
    let width = *t.choose(&[8usize, 4]);
    let n = 1 + t.below(5);
    let base0: u64 = match t.below(8) {
        0 => 0,
        1 => 1,
        2 => 2,
        3 => 0x1000,
        4 => 0x400000,
        5 => 3,
        _ => {
            if width == 8 {
                t.u64() & ((1u64 << 40) - 1)
            } else {
                (t.u32() & 0x7fff_ffff) as u64
            }
        }
    };
    let mut cursor = base0;
    let mut segs = vec![];
    let mut gaps = vec![];
    let mut content_modes = vec![];
    for i in 0..n {
        let gap: u64 = if i == 0 {
            0
        } else {
            match t.below(5) {
                0 | 1 => 0,
                2 => 1,
                3 => 2 + t.below(4) as u64,
                _ => 16 + t.u16() as u64,
            }
        };
        if i > 0 {
            gaps.push(gap);
        }
        let len = match t.below(8) {
            0 => t.below(3),      // 0,1,2
            1 => 8 + t.below(2),  // exactly around the largest standard read size
            _ => t.below(25),
        };
        let (bytes, mode) = gen_bytes(t, len);
        content_modes.push(mode);
        let w = t.prob(90);
        let r = !t.prob(50);
        let x = t.flag();
        let base = cursor + gap;
        cursor = base + len as u64;
        segs.push(Seg { base, bytes, r, w, x });
    }
    let shuffled = t.prob(128);
    if shuffled {
        for i in (1..segs.len()).rev() {
            let j = t.below(i + 1);
            segs.swap(i, j);
        }
    }
    Gen { layout: Layout { le, width, segs }, shuffled, gaps, content_modes }
}

fn label_layout(g: &Gen, ctx: &mut Ctx) {
    let l = &g.layout;
    let nonempty: Vec<(usize, &Seg)> = l.segs.iter().enumerate().filter(|(_, s)| !s.bytes.is_empty()).collect();
    let mut adjacent = false;
    let mut ro_follows_earlier_listed = false;
    let mut ro_follows_later_listed = false;
    for (i, s) in &nonempty {
        for (j, t) in l.segs.iter().enumerate() {
            if j != *i && t.end() == s.base && (t.base != s.base || t.bytes.is_empty()) {
                if !t.bytes.is_empty() {
                    adjacent = true;
                }
                if !s.w {
                    if j < *i {
                        ro_follows_earlier_listed = true;
                    } else {
                        ro_follows_later_listed = true;
                    }
                }
            }
        }
    }
    if adjacent {
        ctx.label("adjacent-pair");
        ctx.nontrivial(fnv(format!("{:?}", l).as_bytes()));
    }
    if ro_follows_earlier_listed {
        ctx.label("read-only-segment-directly-after-earlier-listed-segment");
    }
    if ro_follows_later_listed {
        ctx.label("read-only-segment-directly-after-later-listed-segment");
    }
    if g.gaps.iter().any(|x| *x == 1) {
        ctx.label("gap-of-1");
    }
    if g.gaps.iter().any(|x| *x >= 16) {
        ctx.label("far-gap");
    }
    if g.shuffled && l.segs.len() > 1 {
        ctx.label("shuffled-vector-order");
    }
    if !l.le {
        ctx.label("big-endian");
    }
    if l.width == 4 {
        ctx.label("address-width-4");
    }
    if l.segs.iter().any(|s| s.bytes.is_empty()) {
        ctx.label("has-empty-segment");
    }
    if l.segs.iter().any(|s| !s.bytes.is_empty() && !s.bytes.contains(&0)) {
        ctx.label("segment-without-NUL");
    }
    if l.segs.iter().any(|s| s.w) && l.segs.iter().any(|s| !s.w) {
        ctx.label("mixed-writable-and-read-only");
    }
    if l.segs.len() >= 3 {
        ctx.label("segments>=3");
    }
    if l.segs.iter().any(|s| s.base < 2) {
        ctx.label("segment-at-address-0-or-1");
    }
    let _ = &g.content_modes;
}

// ---------------------------------------------------------------------------------------------
// Bare metal

#[derive(Debug)]
struct Bare {
    binary: Vec<u8>,
    processor_id: String,
    flash: String,
    ram_base: String,
    ram_size: String,
    /// model
    id_ok: bool,
    le: bool,
    bits: u32,
    flash_v: Option<u64>,
    ram_base_v: Option<u64>,
    ram_size_v: Option<u64>,
}

fn hexstr(t: &mut Tape, v: u64) -> String {
    match t.below(4) {
        0 => format!("0x{:x}", v),
        1 => format!("{:x}", v),
        2 => format!("0x{:X}", v),
        _ => format!("0x{:08x}", v),
    }
}

fn decode_bare(t: &mut Tape) -> Bare {
    let len = t.below(25);
    let (binary, _) = gen_bytes(t, len);
    const IDS: [(&str, bool, bool, u32); 11] = [
        ("ARM:LE:32:v8", true, true, 32),
        ("ARM:BE:32:v8", true, false, 32),
        ("ARM:LE:32:Cortex", true, true, 32),
        ("MIPS:BE:32:default", true, false, 32),
        ("x86:LE:16:Real Mode", true, true, 16),
        ("AARCH64:LE:64:v8A", true, true, 64),
        ("PowerPC:BE:64:default", true, false, 64),
        ("avr8:LE:16:default:gcc", true, true, 16),
        ("ARM:XE:32:v8", false, true, 32),
        ("ARM:LE", false, true, 32),
        ("ARM:LE:wide:v8", false, true, 32),
    ];
    let (id, id_ok, le, bits) = IDS[t.below(IDS.len())];
    // flash base: relative to the top of the address space so that all three classes occur
    let top: u128 = 1u128 << bits;
    let flash_v: u64 = match t.below(6) {
        0 => 0,
        1 => 0x0800_0000u64 & ((top - 1) as u64),
        // ends below the top with slack
        2 => (top - 1 - len as u128 - t.below(16) as u128) as u64,
        // ends exactly at the top of the address space (measured only)
        3 => ((top - len as u128) & (u64::MAX as u128)) as u64,
        // reaches beyond the top
        4 => {
            if bits < 64 {
                (top - len as u128 + 1 + t.below(16) as u128) as u64
            } else {
                (t.u32() as u64) << 8
            }
        }
        _ => t.u32() as u64 & ((top - 1) as u64),
    };
    let bad_hex = t.prob(12);
    let flash = if bad_hex { "0xZZ".to_string() } else { hexstr(t, flash_v) };
    let ram_base_v = 0x2000_0000u64 + t.below(4) as u64 * 0x100;
    let ram_size_v = t.below(65) as u64;
    let ram_base = hexstr(t, ram_base_v);
    let ram_size = if t.prob(8) { "".to_string() } else { hexstr(t, ram_size_v) };
    Bare {
        binary,
        processor_id: id.to_string(),
        flash_v: if bad_hex { None } else { Some(flash_v) },
        flash,
        ram_base_v: Some(ram_base_v),
        ram_size_v: if ram_size.is_empty() { None } else { Some(ram_size_v) },
        ram_base,
        ram_size,
        id_ok,
        le,
        bits,
    }
}

fn check_bare(b: &Bare, ctx: &mut Ctx) -> CaseResult {
    let cfg = BareMetalConfig { processor_id: b.processor_id.clone(), flash_base_address: b.flash.clone(), ram_base_address: b.ram_base.clone(), ram_size: b.ram_size.clone() };
    let got = match ctx.cut(|| RuntimeMemoryImage::new_from_bare_metal(&b.binary, &cfg))? {
        Some(g) => g,
        None => return Ok(()),
    };
    let inputs_ok = b.id_ok && b.flash_v.is_some() && b.ram_base_v.is_some() && b.ram_size_v.is_some();
    // one past the last byte of the binary
    let end: Option<u128> = b.flash_v.map(|f| f as u128 + b.binary.len() as u128);
    let top: u128 = 1u128 << b.bits;
    ctx.label(&format!("bits-{}", b.bits));
    if !inputs_ok {
        ctx.label("invalid-config");
        if got.is_ok() {
            return ctx.report("C19:bare-metal:invalid-config-accepted", format!("{:?} accepted", b));
        }
        return Ok(());
    }
    let end = end.unwrap();
    if end == top {
        // The binary's last byte is the last addressable byte. The documentation ("whole binary is
        // contained in addressable space") would accept it, the implementation tests the
        // one-past-the-end address. Measured, not asserted.
        ctx.label("measured:binary-ending-exactly-at-top-of-address-space");
        if got.is_err() {
            ctx.label("measured:binary-ending-exactly-at-top-of-address-space-rejected");
        }
        return Ok(());
    }
    if end > top {
        ctx.label("binary-beyond-address-space");
        if got.is_ok() {
            return ctx.report("C19:bare-metal:binary-beyond-address-space-accepted", format!("{:?} accepted", b));
        }
        return Ok(());
    }
    ctx.label("valid-config");
    let img = match got {
        Ok(i) => i,
        Err(e) => {
            let sig = if b.bits == 64 { "C19:bare-metal:valid-64-bit-config-rejected" } else { "C19:bare-metal:valid-config-rejected" };
            return ctx.report(sig, format!("{:?} rejected: {}", b, e));
        }
    };
    let flash_seg = Seg { base: b.flash_v.unwrap(), bytes: b.binary.clone(), r: true, w: true, x: true };
    let ram_seg = Seg { base: b.ram_base_v.unwrap(), bytes: vec![0; b.ram_size_v.unwrap() as usize], r: true, w: true, x: false };
    // constructors on their own
    let f = match ctx.cut(|| MemorySegment::from_bare_metal_file(&b.binary, b.flash_v.unwrap()))? {
        Some(f) => f,
        None => return Ok(()),
    };
    let r = match ctx.cut(|| MemorySegment::new_bare_metal_ram_segment(b.ram_base_v.unwrap(), b.ram_size_v.unwrap()))? {
        Some(f) => f,
        None => return Ok(()),
    };
    for (what, got, exp) in [("from_bare_metal_file", &f, &flash_seg), ("new_bare_metal_ram_segment", &r, &ram_seg)] {
        if !seg_eq(got, exp) {
            return ctx.report(format!("C19:constructor:{}", what), format!("{} gave {:x?}, documented {:x?}", what, got, exp));
        }
    }
    let exp = Layout { le: b.le, width: 8, segs: vec![flash_seg, ram_seg] };
    image_eq(&img, &exp, false, "bare-metal", ctx)?;
    // queries on the image if its two segments are disjoint
    let (s0, s1) = (&exp.segs[0], &exp.segs[1]);
    // (the query model assumes addresses far below 2^64, see assumptions; 64-bit flash bases near
    // the top of the address space are only checked for the constructed image)
    let low = exp.segs.iter().all(|s| s.end() < (1u64 << 62));
    if low && (s0.end() <= s1.base || s1.end() <= s0.base) {
        let mut e2 = exp.clone();
        e2.width = if b.bits <= 32 { 4 } else { 8 };
        if e2.segs.iter().all(|s| s.end() + 2 <= u32::MAX as u64) || e2.width == 8 {
            check_layout(&e2, &img, ctx)?;
        }
    }
    Ok(())
}

fn seg_eq(got: &MemorySegment, exp: &Seg) -> bool {
    got.bytes == exp.bytes && got.base_address == exp.base && got.read_flag == exp.r && got.write_flag == exp.w && got.execute_flag == exp.x
}

fn image_eq(img: &RuntimeMemoryImage, exp: &Layout, is_lkm: bool, what: &str, ctx: &mut Ctx) -> CaseResult {
    if img.is_little_endian != exp.le {
        return ctx.report(format!("C19:{}:endianness", what), format!("image little-endian = {}, input says {}", img.is_little_endian, exp.le));
    }
    if img.is_lkm != is_lkm {
        return ctx.report(format!("C19:{}:is_lkm", what), format!("image is_lkm = {}, expected {}", img.is_lkm, is_lkm));
    }
    if img.memory_segments.len() != exp.segs.len() {
        return ctx.report(format!("C19:{}:segment-count", what), format!("image has segments {:x?}, expected {:x?}", img.memory_segments, exp.segs));
    }
    for (g, e) in img.memory_segments.iter().zip(exp.segs.iter()) {
        if !seg_eq(g, e) {
            let field = if g.base_address != e.base {
                "base"
            } else if g.bytes != e.bytes {
                "bytes"
            } else {
                "flags"
            };
            return ctx.report(format!("C19:{}:segment-{}", what, field), format!("segment {:x?}, expected {:x?}", g, e));
        }
    }
    Ok(())
}

// ---------------------------------------------------------------------------------------------
// ELF64 writer (independent of goblin) and the expected images

struct W {
    le: bool,
    b: Vec<u8>,
}
impl W {
    fn u16(&mut self, v: u16) {
        if self.le {
            self.b.extend_from_slice(&v.to_le_bytes())
        } else {
            self.b.extend_from_slice(&v.to_be_bytes())
        }
    }
    fn u32(&mut self, v: u32) {
        if self.le {
            self.b.extend_from_slice(&v.to_le_bytes())
        } else {
            self.b.extend_from_slice(&v.to_be_bytes())
        }
    }
    fn u64(&mut self, v: u64) {
        if self.le {
            self.b.extend_from_slice(&v.to_le_bytes())
        } else {
            self.b.extend_from_slice(&v.to_be_bytes())
        }
    }
}

fn elf_header(le: bool, e_type: u16, phoff: u64, phnum: u16, shoff: u64, shnum: u16, shstrndx: u16) -> W {
    let mut w = W { le, b: vec![] };
    w.b.extend_from_slice(&[0x7f, b'E', b'L', b'F', 2, if le { 1 } else { 2 }, 1, 0, 0, 0, 0, 0, 0, 0, 0, 0]);
    w.u16(e_type);
    w.u16(if le { 62 } else { 21 }); // x86_64 / ppc64
    w.u32(1);
    w.u64(0); // entry
    w.u64(phoff);
    w.u64(shoff);
    w.u32(0);
    w.u16(64);
    w.u16(56);
    w.u16(phnum);
    w.u16(64);
    w.u16(shnum);
    w.u16(shstrndx);
    assert_eq!(w.b.len(), 64);
    w
}

#[derive(Debug, Clone)]
struct Ph {
    p_type: u32,
    flags: u32,
    file: Vec<u8>,
    vaddr: u64,
    extra_mem: u64,
}

#[derive(Debug)]
struct ElfExec {
    le: bool,
    dyn_: bool,
    phs: Vec<Ph>,
}

fn decode_elf_exec(t: &mut Tape) -> ElfExec {
    let le = !t.flag();
    let dyn_ = t.flag();
    let n = t.below(6);
    let mut phs = vec![];
    let mut vaddr = if dyn_ { 0 } else { 0x400000 };
    for _ in 0..n {
        let p_type = match t.below(6) {
            0 | 1 | 2 | 3 => 1u32,   // PT_LOAD
            4 => 4,                  // PT_NOTE
            _ => 0x6474e551,         // PT_GNU_STACK
        };
        let flags = t.below(8) as u32;
        let len = t.below(17);
        let (file, _) = gen_bytes(t, len);
        let extra_mem = if t.prob(100) { 1 + t.below(8) as u64 } else { 0 };
        vaddr += match t.below(3) {
            0 => 0,
            1 => 1 + t.below(8) as u64,
            _ => 0x1000,
        };
        phs.push(Ph { p_type, flags, file: file.clone(), vaddr, extra_mem });
        vaddr += len as u64 + extra_mem;
    }
    ElfExec { le, dyn_, phs }
}

fn build_elf_exec(e: &ElfExec) -> Vec<u8> {
    let phnum = e.phs.len();
    let mut w = elf_header(e.le, if e.dyn_ { 3 } else { 2 }, if phnum == 0 { 0 } else { 64 }, phnum as u16, 0, 0, 0);
    let mut off = 64 + 56 * phnum as u64;
    for p in &e.phs {
        w.u32(p.p_type);
        w.u32(p.flags);
        w.u64(off);
        w.u64(p.vaddr);
        w.u64(p.vaddr);
        w.u64(p.file.len() as u64);
        w.u64(p.file.len() as u64 + p.extra_mem);
        w.u64(1);
        off += p.file.len() as u64;
    }
    for p in &e.phs {
        w.b.extend_from_slice(&p.file);
    }
    w.b
}

fn check_elf_exec(e: &ElfExec, ctx: &mut Ctx) -> CaseResult {
    let bin = build_elf_exec(e);
    let got = match ctx.cut(|| RuntimeMemoryImage::new(&bin))? {
        Some(g) => g,
        None => return Ok(()),
    };
    let loads: Vec<&Ph> = e.phs.iter().filter(|p| p.p_type == 1).collect();
    if loads.is_empty() {
        ctx.label("no-loadable-segment");
        if got.is_ok() {
            return ctx.report("C19:elf-segments:image-without-loadable-segment-accepted", format!("{:?}", e));
        }
        return Ok(());
    }
    let img = match got {
        Ok(i) => i,
        Err(err) => return ctx.report("C19:elf-segments:valid-elf-rejected", format!("{:?}: {}", e, err)),
    };
    let segs: Vec<Seg> = loads
        .iter()
        .map(|p| {
            let mut bytes = p.file.clone();
            bytes.resize(p.file.len() + p.extra_mem as usize, 0);
            Seg { base: p.vaddr, bytes, r: p.flags & 4 != 0, w: p.flags & 2 != 0, x: p.flags & 1 != 0 }
        })
        .collect();
    if loads.iter().any(|p| p.extra_mem > 0) {
        ctx.label("memsz>filesz");
    }
    if loads.len() < e.phs.len() {
        ctx.label("non-load-headers-skipped");
    }
    ctx.label(if e.le { "little-endian" } else { "big-endian" });
    let exp = Layout { le: e.le, width: 8, segs };
    image_eq(&img, &exp, false, "elf-segments", ctx)?;
    if disjoint(&exp) {
        ctx.label("queries-run-on-constructed-image");
        check_layout(&exp, &img, ctx)?;
    }
    Ok(())
}

fn disjoint(l: &Layout) -> bool {
    for (i, s) in l.segs.iter().enumerate() {
        for t in l.segs.iter().skip(i + 1) {
            if s.bytes.is_empty() || t.bytes.is_empty() {
                // an empty segment must not sit strictly inside another one's range for the model
                let (e, o) = if s.bytes.is_empty() { (s, t) } else { (t, s) };
                if e.base > o.base && e.base < o.end() {
                    return false;
                }
                if e.bytes.is_empty() && o.bytes.is_empty() {
                    continue;
                }
                continue;
            }
            if s.base < t.end() && t.base < s.end() {
                return false;
            }
        }
    }
    true
}

#[derive(Debug, Clone)]
struct Sh {
    name: &'static str,
    sh_type: u32,
    flags: u64,
    content: Vec<u8>,
    /// size for NOBITS
    size: u64,
    align: u64,
}

#[derive(Debug)]
struct ElfRel {
    le: bool,
    shs: Vec<Sh>,
}

const SEC_NAMES: [&str; 8] = [".text", ".data", ".rodata", ".bss", ".modinfo", ".gnu.linkonce.this_module", ".note.gnu", ".init.text"];

fn decode_elf_rel(t: &mut Tape) -> ElfRel {
    let le = !t.flag();
    let n = t.below(7);
    let mut shs = vec![];
    for _ in 0..n {
        let name = SEC_NAMES[t.below(SEC_NAMES.len())];
        let sh_type = match t.below(8) {
            0 | 1 | 2 | 3 => 1u32, // PROGBITS
            4 | 5 => 8,            // NOBITS
            6 => 7,                // NOTE
            _ => 0,                // NULL
        };
        // SHF_WRITE 1, SHF_ALLOC 2, SHF_EXECINSTR 4; ALLOC mostly set
        let mut flags = t.below(8) as u64;
        if !t.prob(50) {
            flags |= 2;
        }
        let len = t.below(17);
        let (content, _) = gen_bytes(t, len);
        let align = *t.choose(&[1u64, 0, 2, 4, 8, 16, 3, 32]);
        shs.push(Sh { name, sh_type, flags, size: len as u64, content: if sh_type == 8 { vec![] } else { content }, align });
    }
    ElfRel { le, shs }
}

fn build_elf_rel(e: &ElfRel) -> Vec<u8> {
    // layout: header | section contents | shstrtab | section headers
    let mut strtab: Vec<u8> = vec![0];
    let mut name_off = vec![];
    for s in &e.shs {
        name_off.push(strtab.len() as u32);
        strtab.extend_from_slice(s.name.as_bytes());
        strtab.push(0);
    }
    let shstr_name = strtab.len() as u32;
    strtab.extend_from_slice(b".shstrtab\0");
    let mut off = 64u64;
    let mut offs = vec![];
    for s in &e.shs {
        offs.push(off);
        off += s.content.len() as u64;
    }
    let strtab_off = off;
    off += strtab.len() as u64;
    let shoff = off;
    let shnum = e.shs.len() + 2;
    let mut w = elf_header(e.le, 1, 0, 0, shoff, shnum as u16, (shnum - 1) as u16);
    for s in &e.shs {
        w.b.extend_from_slice(&s.content);
    }
    w.b.extend_from_slice(&strtab);
    assert_eq!(w.b.len() as u64, shoff);
    // index 0: NULL section
    for _ in 0..8 {
        w.u64(0);
    }
    for (i, s) in e.shs.iter().enumerate() {
        w.u32(name_off[i]);
        w.u32(s.sh_type);
        w.u64(s.flags);
        w.u64(0);
        w.u64(offs[i]);
        w.u64(s.size);
        w.u32(0);
        w.u32(0);
        w.u64(s.align);
        w.u64(0);
    }
    w.u32(shstr_name);
    w.u32(3);
    w.u64(0);
    w.u64(0);
    w.u64(strtab_off);
    w.u64(strtab.len() as u64);
    w.u32(0);
    w.u32(0);
    w.u64(1);
    w.u64(0);
    w.b
}

fn next_pow2(a: u64) -> u64 {
    let mut p = 1u64;
    while p < a {
        p <<= 1;
    }
    p
}

fn check_elf_rel(e: &ElfRel, ctx: &mut Ctx) -> CaseResult {
    let bin = build_elf_rel(e);
    let got = match ctx.cut(|| RuntimeMemoryImage::new(&bin))? {
        Some(g) => g,
        None => return Ok(()),
    };
    let img = match got {
        Ok(i) => i,
        Err(err) => return ctx.report("C19:elf-sections:valid-elf-rejected", format!("{:?}: {}", e, err)),
    };
    // documented loader: concatenate all SHF_ALLOC sections that are not SHT_NULL (and not empty),
    // as close as possible while respecting alignment, starting at zero
    let mut segs = vec![];
    let mut next = 0u64;
    for s in &e.shs {
        if s.flags & 2 != 0 && s.sh_type != 0 && s.size != 0 {
            let al = next_pow2(s.align);
            let base = (next + al - 1) / al * al;
            let bytes = if s.sh_type == 8 { vec![0; s.size as usize] } else { s.content.clone() };
            next = base + bytes.len() as u64;
            segs.push(Seg { base, bytes, r: true, w: s.flags & 1 != 0, x: s.flags & 4 != 0 });
        }
    }
    let has = |n: &str| e.shs.iter().any(|s| s.name == n);
    let lkm = has(".modinfo") && has(".gnu.linkonce.this_module");
    if lkm {
        ctx.label("kernel-module");
    }
    if segs.len() < e.shs.len() {
        ctx.label("some-section-not-loaded");
    }
    if e.shs.iter().any(|s| s.sh_type == 8 && s.flags & 2 != 0 && s.size > 0) {
        ctx.label("nobits-section-loaded");
    }
    if segs.windows(2).any(|w| w[0].end() == w[1].base) {
        ctx.label("adjacent-sections");
    }
    if segs.windows(2).any(|w| w[0].end() < w[1].base) {
        ctx.label("alignment-gap");
    }
    let exp = Layout { le: e.le, width: 8, segs };
    image_eq(&img, &exp, lkm, "elf-sections", ctx)?;
    check_layout(&exp, &img, ctx)?;
    Ok(())
}

// ---------------------------------------------------------------------------------------------
// PE32+ writer (for `from_pe_section` through `RuntimeMemoryImage::new`)

#[derive(Debug, Clone)]
struct PeSec {
    raw: Vec<u8>,
    /// >= raw.len() (the loader zero-fills the rest)
    virtual_size: u32,
    rva: u32,
    characteristics: u32,
}

#[derive(Debug)]
struct PeFile {
    image_base: u64,
    secs: Vec<PeSec>,
}

const PE_DISCARDABLE: u32 = 0x0200_0000;
const PE_X: u32 = 0x2000_0000;
const PE_R: u32 = 0x4000_0000;
const PE_W: u32 = 0x8000_0000;

fn decode_pe(t: &mut Tape) -> PeFile {
    let image_base = *t.choose(&[0x1_4000_0000u64, 0x40_0000, 0x1000_0000, 0]);
    let n = t.below(6);
    let mut rva: u32 = 0x1000;
    let mut secs = vec![];
    for _ in 0..n {
        let len = t.below(17);
        let (raw, _) = gen_bytes(t, len);
        let extra = if t.prob(100) { 1 + t.below(8) as u32 } else { 0 };
        let mut characteristics = 0x40u32;
        if t.prob(40) {
            characteristics |= PE_DISCARDABLE;
        }
        if t.flag() {
            characteristics |= PE_X;
        }
        if !t.prob(60) {
            characteristics |= PE_R;
        }
        if t.prob(100) {
            characteristics |= PE_W;
        }
        rva += match t.below(3) {
            0 => 0,
            1 => 1 + t.below(8) as u32,
            _ => 0x1000,
        };
        secs.push(PeSec { raw, virtual_size: len as u32 + extra, rva, characteristics });
        rva += len as u32 + extra;
    }
    PeFile { image_base, secs }
}

fn build_pe(p: &PeFile) -> Vec<u8> {
    let mut w = W { le: true, b: vec![] };
    // DOS header
    w.b.extend_from_slice(b"MZ");
    w.b.resize(0x3c, 0);
    w.u32(64);
    // PE signature + COFF header
    w.b.extend_from_slice(b"PE\0\0");
    w.u16(0x8664);
    w.u16(p.secs.len() as u16);
    w.u32(0);
    w.u32(0);
    w.u32(0);
    w.u16(112);
    w.u16(0x22);
    // optional header: standard fields (PE32+)
    w.u16(0x20b);
    w.b.extend_from_slice(&[14, 0]);
    w.u32(0);
    w.u32(0);
    w.u32(0);
    w.u32(0x1000);
    w.u32(0x1000);
    // windows fields
    w.u64(p.image_base);
    w.u32(0x1000);
    w.u32(0x200);
    for _ in 0..6 {
        w.u16(0);
    }
    w.u32(0);
    w.u32(0x10000);
    w.u32(0x400);
    w.u32(0);
    w.u16(3);
    w.u16(0);
    for _ in 0..4 {
        w.u64(0x1000);
    }
    w.u32(0);
    w.u32(0); // number_of_rva_and_sizes
    assert_eq!(w.b.len(), 64 + 4 + 20 + 112);
    let mut off = (w.b.len() + 40 * p.secs.len()) as u32;
    for (i, s) in p.secs.iter().enumerate() {
        let mut name = [0u8; 8];
        let nm = format!(".s{}", i);
        name[..nm.len()].copy_from_slice(nm.as_bytes());
        w.b.extend_from_slice(&name);
        w.u32(s.virtual_size);
        w.u32(s.rva);
        w.u32(s.raw.len() as u32);
        w.u32(off);
        w.u32(0);
        w.u32(0);
        w.u16(0);
        w.u16(0);
        w.u32(s.characteristics);
        off += s.raw.len() as u32;
    }
    for s in &p.secs {
        w.b.extend_from_slice(&s.raw);
    }
    // goblin's format detection peeks 16 bytes; the file is always longer than that
    w.b
}

fn check_pe(p: &PeFile, ctx: &mut Ctx) -> CaseResult {
    let bin = build_pe(p);
    let got = match ctx.cut(|| RuntimeMemoryImage::new(&bin))? {
        Some(g) => g,
        None => return Ok(()),
    };
    let kept: Vec<&PeSec> = p.secs.iter().filter(|s| s.characteristics & PE_DISCARDABLE == 0).collect();
    if kept.is_empty() {
        ctx.label("no-loadable-section");
        if got.is_ok() {
            return ctx.report("C19:pe-sections:image-without-loadable-section-accepted", format!("{:x?}", p));
        }
        return Ok(());
    }
    let img = match got {
        Ok(i) => i,
        Err(err) => return ctx.report("C19:pe-sections:valid-pe-rejected", format!("{:x?}: {}", p, err)),
    };
    let segs: Vec<Seg> = kept
        .iter()
        .map(|s| {
            let mut bytes = s.raw.clone();
            bytes.resize(s.virtual_size as usize, 0);
            Seg { base: p.image_base + s.rva as u64, bytes, r: s.characteristics & PE_R != 0, w: s.characteristics & PE_W != 0, x: s.characteristics & PE_X != 0 }
        })
        .collect();
    if kept.len() < p.secs.len() {
        ctx.label("discardable-section-skipped");
    }
    if kept.iter().any(|s| s.virtual_size as usize > s.raw.len()) {
        ctx.label("virtual-size>raw-size");
    }
    if segs.windows(2).any(|w| w[0].end() == w[1].base) {
        ctx.label("adjacent-sections");
    }
    let exp = Layout { le: true, width: 8, segs };
    image_eq(&img, &exp, false, "pe-sections", ctx)?;
    ctx.label("queries-run-on-constructed-image");
    check_layout(&exp, &img, ctx)
}

// ---------------------------------------------------------------------------------------------

/// Like `Engine::require_fraction`, but relative to the number of *cases* (label "cases") instead of
/// the evaluation counter, which in this check also counts the individual queries.
fn require_of_cases(eng: &mut Engine, section: &str, label: &str, min_fraction: f64) {
    if matches!(eng.mode, Mode::Replay { .. }) {
        return;
    }
    if eng.violations.iter().any(|v| v.section == section) {
        return;
    }
    let n = eng.label_count(section, "cases");
    let c = eng.label_count(section, label);
    if n == 0 || (c as f64) < min_fraction * n as f64 {
        eng.inconclusive.push(format!("generator starvation: section {} label {} = {} of {} cases (< {:.3})", section, label, c, n, min_fraction));
    }
}

pub fn run(eng: &mut Engine) {
    // anyhow captures a backtrace for every Err when RUST_BACKTRACE is set (100x slowdown, no
    // influence on verdicts); no other thread is running at this point.
    std::env::set_var("RUST_LIB_BACKTRACE", "0");
    eng.rule = "layouts of 1..5 pairwise disjoint segments (len 0..24; gap 0/1/2..5/far; ordered or shuffled; contents with NULs sprinkled, without NUL, NUL first/last; r/w/x flags; LE/BE; address width 4/8); per layout all addresses base-2..=base+len+2 of all segments x {read sizes 1,2,4,8,3,16; string; writeable; ro pointer; global; all (start<=end) interval pairs}. Non-trivial (distinct by layout): layouts containing two adjacent non-empty segments (queries within 2 bytes of the seam are counted in a label)".into();
    eng.assumptions = vec![
        "addresses are bitvectors of <= 8 bytes (the functions unwrap try_to_u64); bases < 2^40 so base+len does not overflow".into(),
        "read sizes 1,2,4,8 (mandated) plus 3 and 16; size 0 is not generated (no caller reads 0 bytes)".into(),
        "'read-only' = write_flag false (doc of read: writeable segment => Ok(None)); the read flag is only reported by is_interval_readable".into(),
        "interval queries: end address exclusive (caller load_global_address passes end+size); only start <= end".into(),
        "string read inside a writable segment: only a wrong string is an error (property speaks of read-only segments); a string that reaches the end of its segment without NUL must fail (no continuation into an adjacent segment)".into(),
        "is_global_memory_address: asserted true when a pointer-sized read fits into one segment, false outside all segments; the last (pointer size - 1) bytes of a segment are measured only".into(),
        "bare metal: a binary whose last byte is the last addressable byte is measured only (doc vs. one-past-the-end test); ram size <= 64".into(),
        "PE sections are generated with virtual_size >= size_of_raw_data only (the constructor keeps all raw bytes when the virtual size is smaller; the documentation says nothing about that case)".into(),
    ];

    let cases = eng.tier.pick(700_000u64, 14_000_000u64);
    eng.random(
        "layouts",
        RandomSpec { cases, max_tape: 400 },
        |tape, ctx| {
            let g = decode_layout(&mut Tape::new(tape));
            ctx.label("cases");
            label_layout(&g, ctx);
            ctx.sample(|| format!("{:x?}", g.layout));
            let img = g.layout.image();
            check_layout(&g.layout, &img, ctx)
        },
        |tape| format!("{:x?}", decode_layout(&mut Tape::new(tape))),
    );
    require_of_cases(eng, "layouts", "adjacent-pair", 0.30);
    require_of_cases(eng, "layouts", "read-only-segment-directly-after-earlier-listed-segment", 0.10);
    require_of_cases(eng, "layouts", "read-only-segment-directly-after-later-listed-segment", 0.03);
    require_of_cases(eng, "layouts", "shuffled-vector-order", 0.20);
    require_of_cases(eng, "layouts", "big-endian", 0.30);
    require_of_cases(eng, "layouts", "gap-of-1", 0.10);
    require_of_cases(eng, "layouts", "segment-without-NUL", 0.20);

    let cases = eng.tier.pick(100_000u64, 2_000_000u64);
    eng.random(
        "bare-metal",
        RandomSpec { cases, max_tape: 120 },
        |tape, ctx| {
            let b = decode_bare(&mut Tape::new(tape));
            ctx.label("cases");
            ctx.sample(|| format!("{:x?}", b));
            check_bare(&b, ctx)
        },
        |tape| format!("{:x?}", decode_bare(&mut Tape::new(tape))),
    );
    require_of_cases(eng, "bare-metal", "valid-config", 0.25);
    require_of_cases(eng, "bare-metal", "binary-beyond-address-space", 0.03);

    let cases = eng.tier.pick(80_000u64, 1_600_000u64);
    eng.random(
        "elf-segments",
        RandomSpec { cases, max_tape: 300 },
        |tape, ctx| {
            let e = decode_elf_exec(&mut Tape::new(tape));
            ctx.label("cases");
            ctx.sample(|| format!("{:x?}", e));
            check_elf_exec(&e, ctx)
        },
        |tape| format!("{:x?}", decode_elf_exec(&mut Tape::new(tape))),
    );
    require_of_cases(eng, "elf-segments", "queries-run-on-constructed-image", 0.40);
    require_of_cases(eng, "elf-segments", "memsz>filesz", 0.20);

    let cases = eng.tier.pick(80_000u64, 1_600_000u64);
    eng.random(
        "elf-sections",
        RandomSpec { cases, max_tape: 300 },
        |tape, ctx| {
            let e = decode_elf_rel(&mut Tape::new(tape));
            ctx.label("cases");
            ctx.sample(|| format!("{:x?}", e));
            check_elf_rel(&e, ctx)
        },
        |tape| format!("{:x?}", decode_elf_rel(&mut Tape::new(tape))),
    );
    require_of_cases(eng, "elf-sections", "adjacent-sections", 0.25);
    require_of_cases(eng, "elf-sections", "kernel-module", 0.02);

    let cases = eng.tier.pick(60_000u64, 1_200_000u64);
    eng.random(
        "pe-sections",
        RandomSpec { cases, max_tape: 300 },
        |tape, ctx| {
            let p = decode_pe(&mut Tape::new(tape));
            ctx.label("cases");
            ctx.sample(|| format!("{:x?}", p));
            check_pe(&p, ctx)
        },
        |tape| format!("{:x?}", decode_pe(&mut Tape::new(tape))),
    );
    require_of_cases(eng, "pe-sections", "queries-run-on-constructed-image", 0.40);
    require_of_cases(eng, "pe-sections", "virtual-size>raw-size", 0.20);
    require_of_cases(eng, "pe-sections", "discardable-section-skipped", 0.10);
}
