//! Shared helpers for the CLI-level checks C21, C22, C23:
//!
//! * `elfgen`  — minimal ELF64 writers (ET_EXEC / ET_DYN with one R-X and one RW- PT_LOAD;
//!               ET_REL with `.modinfo` and `.gnu.linkonce.this_module` for kernel modules),
//! * `pcjson`  — builder for P-Code project JSON in the shape `pcode::Project` deserializes
//!               (what the Ghidra plugin `p_code_extractor` emits),
//! * a tape-decoded generator of extractor-shaped programs,
//! * the "trigger pack" that makes many checks fire at once,
//! * process runner with watchdog, source scan for `CweModule` statics, warning parsing,
//!   canonical order.
//!
//! Nothing here calls the library under test; the code under test is only run as the real
//! command line binary (`VERIF_CLI`).

use crate::tape::{fnv, Tape};
use serde_json::{json, Value};
use std::collections::{BTreeMap, BTreeSet};
use std::path::{Path, PathBuf};
use std::sync::atomic::{AtomicU64, Ordering};

// =============================================================================================
// Environment

pub fn cli_path() -> String {
    std::env::var("VERIF_CLI").unwrap_or_else(|_| "/verif/target/repo/release/cwe_checker".to_string())
}
pub fn repo_root() -> String {
    std::env::var("VERIF_REPO").unwrap_or_else(|_| "/repo".to_string())
}
/// Development override of the number of cases (`VERIF_CLI_CASES`), otherwise `default`.
pub fn cases(default: u64) -> u64 {
    std::env::var("VERIF_CLI_CASES").ok().and_then(|s| s.parse().ok()).unwrap_or(default)
}
pub fn config_path() -> String {
    format!("{}/src/config.json", repo_root())
}
pub fn lkm_config_path() -> String {
    format!("{}/src/lkm_config.json", repo_root())
}

// =============================================================================================
// Layout of the synthetic binary

#[derive(Clone, Copy, Debug, PartialEq, Eq)]
pub enum ElfKind {
    Exec,
    Dyn,
    Lkm,
}

/// Address layout. `rbase` is the base the P-Code addresses use (Ghidra's image base),
/// `elf_base` the base according to the ELF headers.
#[derive(Clone, Copy, Debug)]
pub struct Layout {
    pub kind: ElfKind,
    pub rbase: u64,
    pub elf_base: u64,
    /// read-only strings (inside the R-X segment / `.text` section), 0x200 bytes
    pub ro: u64,
    /// writable initialised data
    pub data: u64,
    pub data_len: u64,
    pub bss_len: u64,
    /// start of the function code addresses
    pub code: u64,
    /// start of the thunk addresses of extern symbols
    pub thunk: u64,
}

pub const RO_LEN: u64 = 0x200;
pub const DATA_LEN: u64 = 0x40;
pub const BSS_LEN: u64 = 0x100;

impl Layout {
    pub fn new(kind: ElfKind) -> Layout {
        let (rbase, elf_base) = match kind {
            ElfKind::Exec => (0x400000, 0x400000),
            ElfKind::Dyn => (0x100000, 0),
            ElfKind::Lkm => (0x100000, 0),
        };
        let data = match kind {
            ElfKind::Lkm => rbase + 0x400,
            _ => rbase + 0x4400,
        };
        Layout { kind, rbase, elf_base, ro: rbase + 0x200, data, data_len: DATA_LEN, bss_len: BSS_LEN, code: rbase + 0x1000, thunk: rbase + 0x800 }
    }
    pub fn bss(&self) -> u64 {
        self.data + self.data_len
    }
}

/// Strings placed in the read-only area; (name, bytes). Offsets are computed by `ro_table`.
const RO_STRINGS: &[(&str, &[u8])] = &[
    ("fmt_s", b"%s\0"),
    ("fmt_d", b"%d\0"),
    ("fmt_hello", b"hello %s %d\n\0"),
    ("binsh", b"/bin/sh\0"),
    ("ls", b"ls -la\0"),
    ("fmt_path", b"%s/%s\0"),
    ("jail", b"/tmp/jail\0"),
    ("mode_r", b"r\0"),
    ("fmt_cat", b"cat %s\0"),
    ("fmt_n", b"%x%n\0"),
    ("path", b"PATH\0"),
    ("fmt_many", b"%d %s %lu %c %f\0"),
    ("empty", b"\0"),
    ("fmt_pct", b"100%% %d\0"),
];

pub fn ro_offset(name: &str) -> u64 {
    let mut off = 0u64;
    for (n, b) in RO_STRINGS {
        if *n == name {
            return off;
        }
        off += b.len() as u64;
    }
    0
}

fn ro_bytes() -> Vec<u8> {
    let mut v = vec![];
    for (_, b) in RO_STRINGS {
        v.extend_from_slice(b);
    }
    // fill the rest with a recognisable non-zero pattern, last byte non-zero (unterminated tail)
    while (v.len() as u64) < RO_LEN {
        v.push(0x41 + (v.len() % 23) as u8);
    }
    v
}

fn data_bytes(l: &Layout) -> Vec<u8> {
    let mut v = vec![0u8; l.data_len as usize];
    v[0..5].copy_from_slice(b"%s%d\0");
    v[8..16].copy_from_slice(&(l.ro + ro_offset("binsh")).to_le_bytes());
    v[0x10..0x18].copy_from_slice(&(l.data + 0x20).to_le_bytes());
    v[0x18..0x20].copy_from_slice(&(l.code).to_le_bytes());
    v[0x20..0x24].copy_from_slice(&0o666u32.to_le_bytes());
    v[0x28..0x30].copy_from_slice(&8u64.to_le_bytes());
    v
}

// =============================================================================================
// elfgen

fn p16(v: &mut Vec<u8>, x: u16) {
    v.extend_from_slice(&x.to_le_bytes());
}
fn p32(v: &mut Vec<u8>, x: u32) {
    v.extend_from_slice(&x.to_le_bytes());
}
fn p64(v: &mut Vec<u8>, x: u64) {
    v.extend_from_slice(&x.to_le_bytes());
}

fn ehdr(etype: u16, entry: u64, phoff: u64, phnum: u16, shoff: u64, shnum: u16, shstrndx: u16) -> Vec<u8> {
    let mut v = vec![0x7f, b'E', b'L', b'F', 2, 1, 1, 0, 0, 0, 0, 0, 0, 0, 0, 0];
    p16(&mut v, etype);
    p16(&mut v, 62); // EM_X86_64
    p32(&mut v, 1);
    p64(&mut v, entry);
    p64(&mut v, phoff);
    p64(&mut v, shoff);
    p32(&mut v, 0);
    p16(&mut v, 64);
    p16(&mut v, 56);
    p16(&mut v, phnum);
    p16(&mut v, 64);
    p16(&mut v, shnum);
    p16(&mut v, shstrndx);
    v
}

fn phdr(flags: u32, off: u64, vaddr: u64, filesz: u64, memsz: u64) -> Vec<u8> {
    let mut v = vec![];
    p32(&mut v, 1); // PT_LOAD
    p32(&mut v, flags);
    p64(&mut v, off);
    p64(&mut v, vaddr);
    p64(&mut v, vaddr);
    p64(&mut v, filesz);
    p64(&mut v, memsz);
    p64(&mut v, 0x1000);
    v
}

#[allow(clippy::too_many_arguments)]
fn shdr(name: u32, ty: u32, flags: u64, addr: u64, off: u64, size: u64, align: u64) -> Vec<u8> {
    let mut v = vec![];
    p32(&mut v, name);
    p32(&mut v, ty);
    p64(&mut v, flags);
    p64(&mut v, addr);
    p64(&mut v, off);
    p64(&mut v, size);
    p32(&mut v, 0);
    p32(&mut v, 0);
    p64(&mut v, align);
    p64(&mut v, 0);
    v
}

struct StrTab {
    b: Vec<u8>,
}
impl StrTab {
    fn new() -> Self {
        StrTab { b: vec![0] }
    }
    fn add(&mut self, s: &str) -> u32 {
        let o = self.b.len() as u32;
        self.b.extend_from_slice(s.as_bytes());
        self.b.push(0);
        o
    }
}

/// ET_EXEC / ET_DYN image: file [0,0x400) is the R-X segment (memsz 0x4000, headers at 0, strings
/// at 0x200), the RW- segment follows at file offset 0x400 (memsz = filesz + bss).
/// With `debug_section` a section header table with a `.debug_info` section is appended.
pub fn elf_image(l: &Layout, debug_section: bool) -> Vec<u8> {
    if l.kind == ElfKind::Lkm {
        return elf_lkm(l, debug_section);
    }
    let etype = if l.kind == ElfKind::Exec { 2 } else { 3 };
    let data = data_bytes(l);
    let mut f = vec![0u8; 0x400];
    f[0x200..0x400].copy_from_slice(&ro_bytes());
    f.extend_from_slice(&data);
    let (mut shoff, mut shnum, mut shstr) = (0u64, 0u16, 0u16);
    if debug_section {
        let dbg_off = f.len() as u64;
        f.extend_from_slice(&[1, 2, 3, 4, 5, 6, 7, 8]);
        let mut st = StrTab::new();
        let n_dbg = st.add(".debug_info");
        let n_str = st.add(".shstrtab");
        let str_off = f.len() as u64;
        f.extend_from_slice(&st.b);
        while f.len() % 8 != 0 {
            f.push(0);
        }
        shoff = f.len() as u64;
        shnum = 3;
        shstr = 2;
        f.extend_from_slice(&shdr(0, 0, 0, 0, 0, 0, 0));
        f.extend_from_slice(&shdr(n_dbg, 1, 0, 0, dbg_off, 8, 1));
        f.extend_from_slice(&shdr(n_str, 3, 0, 0, str_off, st.b.len() as u64, 1));
    }
    let h = ehdr(etype, l.elf_base + 0x1000, 64, 2, shoff, shnum, shstr);
    f[0..64].copy_from_slice(&h);
    let text_v = l.elf_base;
    let data_v = l.elf_base + (l.data - l.rbase);
    f[64..120].copy_from_slice(&phdr(5, 0, text_v, 0x400, 0x4000));
    f[120..176].copy_from_slice(&phdr(6, 0x400, data_v, data.len() as u64, data.len() as u64 + l.bss_len));
    f
}

/// ET_REL kernel-module image. Loaded sections in order (Ghidra-style concatenation from 0):
/// `.text` (AX, 0x400 bytes, strings at 0x200), `.data` (WA, align 0x400), `.bss` (NOBITS),
/// `.modinfo` (A), `.gnu.linkonce.this_module` (WA).
pub fn elf_lkm(l: &Layout, debug_section: bool) -> Vec<u8> {
    let data = data_bytes(l);
    let mut f = vec![0u8; 64];
    let text_off = f.len() as u64;
    let mut text = vec![0x90u8; 0x400];
    text[0x200..0x400].copy_from_slice(&ro_bytes());
    f.extend_from_slice(&text);
    let data_off = f.len() as u64;
    f.extend_from_slice(&data);
    let modinfo = b"license=GPL\0name=vharness\0vermagic=6.1.0 SMP mod_unload \0";
    let modinfo_off = f.len() as u64;
    f.extend_from_slice(modinfo);
    while f.len() % 8 != 0 {
        f.push(0);
    }
    let this_off = f.len() as u64;
    f.extend_from_slice(&[0u8; 0x40]);
    let dbg_off = f.len() as u64;
    if debug_section {
        f.extend_from_slice(&[1, 2, 3, 4, 5, 6, 7, 8]);
    }
    let mut st = StrTab::new();
    let n_text = st.add(".text");
    let n_data = st.add(".data");
    let n_bss = st.add(".bss");
    let n_modinfo = st.add(".modinfo");
    let n_this = st.add(".gnu.linkonce.this_module");
    let n_dbg = st.add(".debug_info");
    let n_str = st.add(".shstrtab");
    let str_off = f.len() as u64;
    f.extend_from_slice(&st.b);
    while f.len() % 8 != 0 {
        f.push(0);
    }
    let shoff = f.len() as u64;
    let mut sh: Vec<Vec<u8>> = vec![shdr(0, 0, 0, 0, 0, 0, 0)];
    sh.push(shdr(n_text, 1, 0x6, 0, text_off, 0x400, 16)); // ALLOC|EXEC
    sh.push(shdr(n_data, 1, 0x3, 0, data_off, data.len() as u64, 0x400)); // WRITE|ALLOC
    sh.push(shdr(n_bss, 8, 0x3, 0, str_off, l.bss_len, 16)); // NOBITS
    // Both orders of the two kernel-module marker sections are legal; the variant with a debug section lists
    // `.gnu.linkonce.this_module` first (kbuild usually emits `.modinfo` first).
    if debug_section {
        sh.push(shdr(n_this, 1, 0x3, 0, this_off, 0x40, 64));
        // sh_addralign = 0 is legal and means "no alignment constraint", like 1
        sh.push(shdr(n_modinfo, 1, 0x2, 0, modinfo_off, modinfo.len() as u64, 0));
    } else {
        sh.push(shdr(n_modinfo, 1, 0x2, 0, modinfo_off, modinfo.len() as u64, 1));
        sh.push(shdr(n_this, 1, 0x3, 0, this_off, 0x40, 64));
    }
    if debug_section {
        sh.push(shdr(n_dbg, 1, 0, 0, dbg_off, 8, 1));
    }
    sh.push(shdr(n_str, 3, 0, 0, str_off, st.b.len() as u64, 1));
    let shnum = sh.len() as u16;
    for s in sh {
        f.extend_from_slice(&s);
    }
    let h = ehdr(1, 0, 0, 0, shoff, shnum, shnum - 1);
    f[0..64].copy_from_slice(&h);
    f
}

// =============================================================================================
// pcjson: varnodes, register table, calling conventions

pub fn h8(a: u64) -> String {
    format!("{:08x}", a)
}
pub fn reg(name: &str, size: u64) -> Value {
    json!({"name": name, "size": size, "is_virtual": false})
}
pub fn uniq(id: u32, size: u64) -> Value {
    json!({"name": format!("$U{:x}", id), "size": size, "is_virtual": true})
}
pub fn cst(v: u64, size: u64) -> Value {
    let m = if size >= 8 { u64::MAX } else { (1u64 << (8 * size)) - 1 };
    json!({"value": format!("{:x}", v & m), "size": size, "is_virtual": false})
}
pub fn ramv(addr: u64, size: u64) -> Value {
    json!({"address": h8(addr), "size": size, "is_virtual": false})
}
fn space_id() -> Value {
    cst(0x1b1, 8)
}

/// x86_64 register table: (register, base, lsb, size).
pub fn register_table() -> Vec<(String, String, u64, u64)> {
    let mut r: Vec<(String, String, u64, u64)> = vec![];
    let mut add = |a: &str, b: &str, l: u64, s: u64| r.push((a.to_string(), b.to_string(), l, s));
    for (n, e, w, lo, hi) in [("RAX", "EAX", "AX", "AL", "AH"), ("RBX", "EBX", "BX", "BL", "BH"), ("RCX", "ECX", "CX", "CL", "CH"), ("RDX", "EDX", "DX", "DL", "DH")] {
        add(n, n, 0, 8);
        add(e, n, 0, 4);
        add(w, n, 0, 2);
        add(lo, n, 0, 1);
        add(hi, n, 1, 1);
    }
    for (n, e, w, lo) in [("RSI", "ESI", "SI", "SIL"), ("RDI", "EDI", "DI", "DIL"), ("RBP", "EBP", "BP", "BPL"), ("RSP", "ESP", "SP", "SPL")] {
        add(n, n, 0, 8);
        add(e, n, 0, 4);
        add(w, n, 0, 2);
        add(lo, n, 0, 1);
    }
    for i in 8..16 {
        let n = format!("R{}", i);
        add(&n, &n, 0, 8);
        add(&format!("{}D", n), &n, 0, 4);
        add(&format!("{}W", n), &n, 0, 2);
        add(&format!("{}B", n), &n, 0, 1);
    }
    add("RIP", "RIP", 0, 8);
    add("EIP", "RIP", 0, 4);
    for f in ["CF", "PF", "AF", "ZF", "SF", "TF", "IF", "DF", "OF"] {
        add(f, f, 0, 1);
    }
    for i in 0..8 {
        let y = format!("YMM{}", i);
        add(&y, &y, 0, 32);
        add(&format!("XMM{}", i), &y, 0, 16);
        add(&format!("XMM{}_Qa", i), &y, 0, 8);
        add(&format!("XMM{}_Da", i), &y, 0, 4);
    }
    r
}

fn calling_conventions() -> Value {
    let f8: Vec<String> = (0..8).map(|i| format!("XMM{}_Qa", i)).collect();
    let f4: Vec<String> = (0..4).map(|i| format!("XMM{}_Qa", i)).collect();
    json!([
        {"calling_convention": "__stdcall",
         "integer_parameter_register": ["RDI","RSI","RDX","RCX","R8","R9"],
         "float_parameter_register": f8,
         "return_register": ["RAX"],
         "float_return_register": ["XMM0_Qa"],
         "unaffected_register": ["RBX","RSP","RBP","R12","R13","R14","R15"],
         "killed_by_call_register": ["RAX","RCX","RDX","RSI","RDI","R8","R9","R10","R11"]},
        {"calling_convention": "MSABI",
         "integer_parameter_register": ["RCX","RDX","R8","R9"],
         "float_parameter_register": f4,
         "return_register": ["RAX"],
         "float_return_register": ["XMM0_Qa"],
         "unaffected_register": ["RBX","RSP","RBP","RSI","RDI","R12","R13","R14","R15"],
         "killed_by_call_register": ["RAX","RCX","RDX","R8","R9","R10","R11"]},
        {"calling_convention": "syscall",
         "integer_parameter_register": ["RDI","RSI","RDX","R10","R8","R9"],
         "float_parameter_register": [],
         "return_register": ["RAX"],
         "float_return_register": [],
         "unaffected_register": ["RBX","RSP","RBP","R12","R13","R14","R15"],
         "killed_by_call_register": ["RAX","RCX","R11"]}
    ])
}

pub const PARAM_REGS: [&str; 6] = ["RDI", "RSI", "RDX", "RCX", "R8", "R9"];

// =============================================================================================
// Program builder

#[derive(Clone, Debug)]
pub struct ExtSym {
    pub name: String,
    pub tid_id: String,
    pub tid_addr: String,
    pub addresses: Vec<String>,
    pub args: Vec<Value>,
    pub no_return: bool,
    pub has_var_args: bool,
}

#[derive(Clone, Debug, Default)]
pub struct GenStats {
    pub subs: u64,
    pub blocks: u64,
    pub defs: u64,
    pub externs: u64,
    pub extern_calls: u64,
    pub loops: u64,
    pub shared_block_jumps: u64,
    pub shared_blocks: BTreeSet<String>,
    pub indirect: u64,
    pub mem_global: u64,
    pub triggers: u64,
    pub misaddressed_subs: u64,
}

/// Whole-program builder.
pub struct Pb {
    pub lay: Layout,
    pub subs: Vec<Value>,
    pub externs: Vec<ExtSym>,
    pub ext_index: BTreeMap<String, usize>,
    pub addrs: BTreeSet<String>,
    pub listing: String,
    pub stats: GenStats,
    pub entry_points: Vec<Value>,
}

/// (name, number of register args, returns a value, no_return, varargs)
pub const KNOWN_EXTERNS: &[(&str, usize, bool, bool, bool)] = &[
    ("strcpy", 2, true, false, false),
    ("strcat", 2, true, false, false),
    ("strlen", 1, true, false, false),
    ("memcpy", 3, true, false, false),
    ("memset", 3, true, false, false),
    ("strncpy", 3, true, false, false),
    ("malloc", 1, true, false, false),
    ("calloc", 2, true, false, false),
    ("realloc", 2, true, false, false),
    ("free", 1, false, false, false),
    ("printf", 1, true, false, true),
    ("sprintf", 2, true, false, true),
    ("snprintf", 3, true, false, true),
    ("scanf", 0, true, false, true),
    ("sscanf", 0, true, false, true),
    ("fgets", 3, true, false, false),
    ("read", 3, true, false, false),
    ("recv", 4, true, false, false),
    ("open", 2, true, false, true),
    ("close", 1, true, false, false),
    ("access", 2, true, false, false),
    ("system", 1, true, false, false),
    ("time", 1, true, false, false),
    ("srand", 1, false, false, false),
    ("rand", 0, true, false, false),
    ("exit", 1, false, true, false),
    ("abort", 0, false, true, false),
    ("ioctl", 3, true, false, true),
    ("setuid", 1, true, false, false),
    ("chroot", 1, true, false, false),
    ("chdir", 1, true, false, false),
    ("umask", 1, true, false, false),
    ("getenv", 1, true, false, false),
    ("puts", 1, true, false, false),
    ("atoi", 1, true, false, false),
    ("fopen", 2, true, false, false),
    ("fclose", 1, true, false, false),
    ("fread", 4, true, false, false),
    ("remove", 1, true, false, false),
    ("strdup", 1, true, false, false),
    ("__kmalloc", 2, true, false, false),
    ("__arch_copy_from_user", 3, true, false, false),
];

impl Pb {
    pub fn new(lay: Layout) -> Pb {
        Pb { lay, subs: vec![], externs: vec![], ext_index: BTreeMap::new(), addrs: BTreeSet::new(), listing: String::new(), stats: GenStats::default(), entry_points: vec![] }
    }

    pub fn tid(&mut self, id: String, addr: String) -> Value {
        self.addrs.insert(addr.clone());
        json!({"id": id, "address": addr})
    }

    fn arg_reg(name: &str, size: u64, intent: &str) -> Value {
        json!({"var": reg(name, size), "location": null, "intent": intent})
    }

    /// Declare (or look up) an extern symbol. Every third symbol has no thunk (`EXTERNAL:` tid).
    pub fn extern_sym(&mut self, name: &str, nargs: usize, ret: bool, no_return: bool, varargs: bool) -> Value {
        if let Some(&i) = self.ext_index.get(name) {
            let e = self.externs[i].clone();
            return self.tid(e.tid_id, e.tid_addr);
        }
        let i = self.externs.len();
        let thunk = i % 3 != 2;
        let a = if thunk { h8(self.lay.thunk + 0x10 * i as u64) } else { format!("EXTERNAL:{:08x}", i + 1) };
        let mut args: Vec<Value> = vec![];
        if name == "sqrt" {
            args.push(Self::arg_reg("YMM0", 32, "INPUT"));
            args.push(Self::arg_reg("YMM0", 32, "OUTPUT"));
        } else {
            for k in 0..nargs.min(6) {
                args.push(Self::arg_reg(PARAM_REGS[k], 8, "INPUT"));
            }
            if nargs > 6 {
                for k in 6..nargs {
                    // stack parameter: Stack[0x8], Stack[0x10], ...
                    args.push(json!({"var": null, "intent": "INPUT", "location": {"mnemonic": "LOAD",
                        "input0": {"address": format!("0x{:x}", 8 * (k - 5)), "size": 8, "is_virtual": false}}}));
                }
            }
            if ret {
                args.push(Self::arg_reg("RAX", 8, "OUTPUT"));
            }
        }
        let e = ExtSym {
            name: name.to_string(),
            tid_id: format!("sub_{}", a),
            tid_addr: a.clone(),
            addresses: if thunk { vec![a.clone()] } else { vec![] },
            args,
            no_return,
            has_var_args: varargs,
        };
        self.ext_index.insert(name.to_string(), i);
        self.externs.push(e.clone());
        self.stats.externs += 1;
        self.tid(e.tid_id, e.tid_addr)
    }

    pub fn extern_known(&mut self, name: &str) -> Value {
        for (n, a, r, nr, va) in KNOWN_EXTERNS {
            if *n == name {
                return self.extern_sym(name, *a, *r, *nr, *va);
            }
        }
        self.extern_sym(name, 1, true, false, false)
    }

    pub fn extern_is_noreturn(&self, name: &str) -> bool {
        self.ext_index.get(name).map(|&i| self.externs[i].no_return).unwrap_or(false)
    }

    /// Render the complete project JSON.
    pub fn project(&mut self) -> Value {
        let image_base = self.lay.rbase;
        let prog_tid = self.tid(format!("prog_{}", h8(image_base)), h8(image_base));
        let exts: Vec<Value> = self
            .externs
            .iter()
            .map(|e| {
                json!({"tid": {"id": e.tid_id, "address": e.tid_addr}, "addresses": e.addresses, "name": e.name,
                       "calling_convention": "__stdcall", "arguments": e.args, "no_return": e.no_return, "has_var_args": e.has_var_args})
            })
            .collect();
        for e in &self.externs {
            for a in &e.addresses {
                self.addrs.insert(a.clone());
            }
        }
        let regs: Vec<Value> = register_table().into_iter().map(|(r, b, l, s)| json!({"register": r, "base_register": b, "lsb": l, "size": s})).collect();
        json!({
            "program": {"tid": prog_tid, "term": {"subs": self.subs, "extern_symbols": exts, "entry_points": self.entry_points, "image_base": format!("{:x}", image_base)}},
            "cpu_architecture": "x86_64",
            "stack_pointer_register": reg("RSP", 8),
            "register_properties": regs,
            "register_calling_convention": calling_conventions(),
            "datatype_properties": {"char_size": 1, "double_size": 8, "float_size": 4, "integer_size": 4, "long_double_size": 10,
                                    "long_long_size": 8, "long_size": 8, "pointer_size": 8, "short_size": 2}
        })
    }
}

fn show(v: &Value) -> String {
    if v.is_null() {
        return "_".into();
    }
    let s = v.get("size").and_then(|x| x.as_u64()).unwrap_or(0);
    if let Some(n) = v.get("name").and_then(|x| x.as_str()) {
        format!("{}:{}", n, s)
    } else if let Some(c) = v.get("value").and_then(|x| x.as_str()) {
        format!("0x{}:{}", c, s)
    } else if let Some(a) = v.get("address").and_then(|x| x.as_str()) {
        format!("*[{}]:{}", a, s)
    } else {
        "?".into()
    }
}

/// Builder for one function. Instructions are 4 bytes apart; every instruction has its own
/// P-Code index counter, TIDs are `instr_<addr>_<index>` / `blk_<addr>` / `sub_<addr>` as the
/// extractor names them.
pub struct SubB {
    pub name: String,
    pub start: u64,
    pub cconv: Option<String>,
    /// the function's entry address is `start + entry_skew`: with a non-zero skew no block starts at the entry
    /// (Ghidra emits this for a function start in the middle of a basic block of another function)
    pub entry_skew: u64,
    pub blocks: Vec<Value>,
    defs: Vec<Value>,
    jmps: Vec<Value>,
    blk: Option<(String, String)>,
    pub ia: u64,
    idx: u32,
    text: String,
}

impl SubB {
    pub fn new(name: &str, start: u64) -> SubB {
        let mut s = SubB { name: name.to_string(), start, cconv: Some("__stdcall".into()), entry_skew: 0, blocks: vec![], defs: vec![], jmps: vec![], blk: None, ia: start, idx: 0, text: String::new() };
        s.text.push_str(&format!("sub_{} {}:\n", h8(start), name));
        s.begin_block(start);
        s
    }
    pub fn begin_block(&mut self, addr: u64) {
        self.end_block_raw();
        self.ia = addr;
        self.idx = 0;
        self.blk = Some((format!("blk_{}", h8(addr)), h8(addr)));
        self.text.push_str(&format!(" blk_{}:\n", h8(addr)));
    }
    fn end_block_raw(&mut self) {
        if let Some((id, addr)) = self.blk.take() {
            let defs = std::mem::take(&mut self.defs);
            let jmps = std::mem::take(&mut self.jmps);
            self.blocks.push(json!({"tid": {"id": id, "address": addr}, "term": {"defs": defs, "jmps": jmps}}));
        }
    }
    pub fn block_open(&self) -> bool {
        self.blk.is_some()
    }
    pub fn next_insn(&mut self) {
        self.ia += 4;
        self.idx = 0;
    }
    fn itid(&mut self) -> Value {
        let a = h8(self.ia);
        let t = json!({"id": format!("instr_{}_{}", a, self.idx), "address": a});
        self.idx += 1;
        t
    }
    /// One P-Code op of the current instruction.
    pub fn op(&mut self, lhs: Option<Value>, m: &str, ins: &[Value]) {
        let mut rhs = json!({"mnemonic": m});
        for (k, i) in ins.iter().enumerate() {
            rhs[format!("input{}", k)] = i.clone();
        }
        let l = lhs.clone().unwrap_or(Value::Null);
        self.text.push_str(&format!("  {} {}: {} = {} {}\n", h8(self.ia), self.idx, show(&l), m, ins.iter().map(show).collect::<Vec<_>>().join(", ")));
        let t = self.itid();
        self.defs.push(json!({"tid": t, "term": {"lhs": l, "rhs": rhs}}));
    }
    /// Single-op instruction.
    pub fn ins1(&mut self, lhs: Value, m: &str, ins: &[Value]) {
        self.op(Some(lhs), m, ins);
        self.next_insn();
    }
    pub fn mov(&mut self, dst: Value, src: Value) {
        self.ins1(dst, "COPY", &[src]);
    }
    pub fn store(&mut self, addr: Value, val: Value) {
        self.op(None, "STORE", &[space_id(), addr, val]);
    }
    pub fn load(&mut self, dst: Value, addr: Value) {
        self.op(Some(dst), "LOAD", &[space_id(), addr]);
    }
    pub fn jmp(&mut self, term: Value, txt: &str) {
        self.text.push_str(&format!("  {} {}: {}\n", h8(self.ia), self.idx, txt));
        let t = self.itid();
        self.jmps.push(json!({"tid": t, "term": term}));
    }
    fn blk_label(addr: u64) -> Value {
        json!({"Direct": {"id": format!("blk_{}", h8(addr)), "address": h8(addr)}})
    }
    /// Unconditional branch instruction ending the block.
    pub fn branch(&mut self, target: u64) {
        self.jmp(json!({"mnemonic": "BRANCH", "goto": Self::blk_label(target)}), &format!("BRANCH blk_{}", h8(target)));
        self.next_insn();
        self.end_block_raw();
    }
    /// CBRANCH + artificial fall-through BRANCH (the pair the extractor emits); ends the block.
    pub fn cbranch(&mut self, cond: Value, target: u64, fallthrough: u64) {
        self.jmp(json!({"mnemonic": "CBRANCH", "goto": Self::blk_label(target), "condition": cond}), &format!("CBRANCH blk_{} if {}", h8(target), show(&cond)));
        self.jmp(json!({"mnemonic": "BRANCH", "goto": Self::blk_label(fallthrough)}), &format!("BRANCH blk_{}", h8(fallthrough)));
        self.next_insn();
        self.end_block_raw();
    }
    pub fn branch_ind(&mut self, target: Value, hints: &[u64]) {
        let hs: Vec<String> = hints.iter().map(|a| h8(*a)).collect();
        self.jmp(json!({"mnemonic": "BRANCHIND", "goto": {"Indirect": target}, "target_hints": hs}), &format!("BRANCHIND {} hints {:?}", show(&target), hs));
        self.next_insn();
        self.end_block_raw();
    }
    /// `RIP = LOAD RSP; RSP += 8; RETURN RIP`; ends the block.
    pub fn ret(&mut self) {
        self.load(reg("RIP", 8), reg("RSP", 8));
        self.op(Some(reg("RSP", 8)), "INT_ADD", &[reg("RSP", 8), cst(8, 8)]);
        self.jmp(json!({"mnemonic": "RETURN", "goto": {"Indirect": reg("RIP", 8)}}), "RETURN RIP");
        self.next_insn();
        self.end_block_raw();
    }
    fn push_ret_addr(&mut self) {
        self.op(Some(reg("RSP", 8)), "INT_SUB", &[reg("RSP", 8), cst(8, 8)]);
        let r = self.ia + 4;
        self.store(reg("RSP", 8), cst(r, 8));
    }
    /// Direct call; with `returns` the call returns to a fresh block at the fall-through address.
    pub fn call(&mut self, target: Value, returns: bool, what: &str) {
        self.push_ret_addr();
        let nxt = self.ia + 4;
        let ret = if returns { Self::blk_label(nxt) } else { Value::Null };
        self.jmp(json!({"mnemonic": "CALL", "call": {"target": {"Direct": target}, "return": ret}}), &format!("CALL {}{}", what, if returns { "" } else { " (no return)" }));
        self.next_insn();
        self.end_block_raw();
        if returns {
            self.begin_block(nxt);
        }
    }
    pub fn call_ind(&mut self, target: Value) {
        self.push_ret_addr();
        let nxt = self.ia + 4;
        self.jmp(json!({"mnemonic": "CALLIND", "call": {"target": {"Indirect": target}, "return": Self::blk_label(nxt)}}), &format!("CALLIND {}", show(&target)));
        self.next_insn();
        self.end_block_raw();
        self.begin_block(nxt);
    }
    pub fn call_other(&mut self, desc: &str) {
        let nxt = self.ia + 4;
        self.jmp(json!({"mnemonic": "CALLOTHER", "call": {"target": null, "return": Self::blk_label(nxt), "call_string": desc}}), &format!("CALLOTHER {}", desc));
        self.next_insn();
        self.end_block_raw();
        self.begin_block(nxt);
    }
    /// `push rbp; mov rbp, rsp; sub rsp, frame`
    pub fn prologue(&mut self, frame: u64, align: bool) {
        self.op(Some(reg("RSP", 8)), "INT_SUB", &[reg("RSP", 8), cst(8, 8)]);
        self.store(reg("RSP", 8), reg("RBP", 8));
        self.next_insn();
        self.mov(reg("RBP", 8), reg("RSP", 8));
        if align {
            self.ins1(reg("RSP", 8), "INT_AND", &[reg("RSP", 8), cst(0xffff_ffff_ffff_fff0, 8)]);
        }
        if frame > 0 {
            self.ins1(reg("RSP", 8), "INT_SUB", &[reg("RSP", 8), cst(frame, 8)]);
        }
    }
    /// `leave; ret`
    pub fn epilogue_ret(&mut self) {
        self.mov(reg("RSP", 8), reg("RBP", 8));
        self.load(reg("RBP", 8), reg("RSP", 8));
        self.op(Some(reg("RSP", 8)), "INT_ADD", &[reg("RSP", 8), cst(8, 8)]);
        self.next_insn();
        self.ret();
    }
    /// Finish the sub and add it to the program.
    pub fn finish(mut self, pb: &mut Pb) {
        self.end_block_raw();
        let a = h8(self.start);
        pb.addrs.insert(a.clone());
        for b in &self.blocks {
            pb.addrs.insert(b["tid"]["address"].as_str().unwrap().to_string());
            for k in ["defs", "jmps"] {
                for d in b["term"][k].as_array().unwrap() {
                    pb.addrs.insert(d["tid"]["address"].as_str().unwrap().to_string());
                }
            }
            pb.stats.defs += b["term"]["defs"].as_array().unwrap().len() as u64;
        }
        pb.stats.blocks += self.blocks.len() as u64;
        pb.stats.subs += 1;
        pb.listing.push_str(&self.text);
        let entry = h8(self.start + self.entry_skew);
        pb.subs.push(json!({"tid": {"id": format!("sub_{}", a), "address": entry}, "term": {"name": self.name, "blocks": self.blocks, "calling_convention": self.cconv}}));
    }
}

// =============================================================================================
// Tape-decoded program generator

#[derive(Clone, Debug)]
pub struct Profile {
    pub min_subs: usize,
    pub max_subs: usize,
    /// bias towards jumps into blocks of other functions (block duplication pass)
    pub shared_bias: bool,
    /// declare many extern symbols
    pub many_externs: bool,
    /// allow jumps/calls to non-existing targets
    pub dangling: bool,
}

pub const PROFILE_C21: Profile = Profile { min_subs: 1, max_subs: 6, shared_bias: false, many_externs: false, dangling: true };
pub const PROFILE_C22: Profile = Profile { min_subs: 1, max_subs: 4, shared_bias: false, many_externs: false, dangling: false };
pub const PROFILE_C23: Profile = Profile { min_subs: 4, max_subs: 7, shared_bias: true, many_externs: true, dangling: false };

const R8: [&str; 8] = ["RAX", "RBX", "RCX", "RDX", "RSI", "RDI", "R8", "R12"];
const R4: [&str; 6] = ["EAX", "EBX", "ECX", "EDX", "ESI", "R8D"];
const R2: [&str; 3] = ["AX", "BX", "CX"];
const R1: [&str; 5] = ["AL", "AH", "BL", "CL", "DL"];
const BIN_OPS: [&str; 12] = ["INT_ADD", "INT_SUB", "INT_AND", "INT_OR", "INT_XOR", "INT_MULT", "INT_LEFT", "INT_RIGHT", "INT_SRIGHT", "INT_DIV", "INT_REM", "INT_SDIV"];

struct Plan {
    base: Vec<u64>,
    nb: Vec<usize>,
}
impl Plan {
    fn addr(&self, i: usize, j: usize) -> u64 {
        self.base[i] + 0x80 * j as u64
    }
}

struct SubState {
    i: usize,
    framed: bool,
    frame: u64,
    heap: bool,
}

fn reg_of(t: &mut Tape, size: u64) -> Value {
    match size {
        8 => reg(pick(t, &R8), 8),
        4 => reg(pick(t, &R4), 4),
        2 => reg(pick(t, &R2), 2),
        _ => reg(pick(t, &R1), 1),
    }
}

fn size_of(t: &mut Tape) -> u64 {
    *t.choose(&[8u64, 4, 8, 1, 2])
}

fn small_const(t: &mut Tape, size: u64) -> Value {
    let v = *t.choose(&[0u64, 1, 8, 0x10, 4, 0x20, 0o666, 0x200, 0xffff_ffff_ffff_fff8, 0x7fff_ffff, 1000001, 7600, 0xffff_ffff_ffff_ffff]);
    cst(v, size)
}

/// A "global" address: strings, data, bss, boundaries, outside.
fn global_addr(t: &mut Tape, l: &Layout) -> u64 {
    let names = ["fmt_s", "binsh", "fmt_hello", "ls", "fmt_n", "fmt_many", "jail"];
    match t.below(14) {
        0 => l.data + 0x20,
        1 => l.ro + ro_offset(pick(t, &names)),
        2 => l.data,
        3 => l.data + 8,
        4 => l.data + 0x10,
        5 => l.bss(),
        6 => l.bss() + 0x40,
        7 => l.data + l.data_len - 4,
        8 => l.bss() + l.bss_len - 8,
        9 => l.bss() + l.bss_len,
        10 => l.ro + RO_LEN - 4,
        11 => l.data + 0x18,
        12 => l.rbase.wrapping_sub(8),
        _ => 0,
    }
}

/// Put an argument value into 8-byte register `dst` (one instruction).
fn set_arg(s: &mut SubB, t: &mut Tape, l: &Layout, st: &SubState, dst: &str) {
    let d = reg(dst, 8);
    match t.below(9) {
        0 => s.mov(d, small_const(t, 8)),
        1 => {
            let names = ["fmt_s", "binsh", "fmt_hello", "ls", "fmt_cat", "fmt_n", "fmt_many", "path", "empty", "fmt_pct"];
            s.mov(d, cst(l.ro + ro_offset(pick(t, &names)), 8))
        }
        2 => s.mov(d, cst(global_addr(t, l), 8)),
        3 => {
            if dst != "RAX" {
                s.mov(d, reg("RAX", 8))
            } else {
                s.mov(d, cst(0, 8))
            }
        }
        4 => {
            if st.heap && dst != "RBX" {
                s.mov(d, reg("RBX", 8))
            } else {
                s.mov(d, cst(1, 8))
            }
        }
        5 => {
            let k = *t.choose(&[0u64, 8, 0x10, 0x18, 0x40]);
            s.ins1(d, "INT_ADD", &[reg("RSP", 8), cst(k, 8)])
        }
        6 => {
            let k = *t.choose(&[0x10u64, 0x8, 0x20, 0x28]);
            if st.framed {
                s.ins1(d, "INT_SUB", &[reg("RBP", 8), cst(k, 8)])
            } else {
                s.ins1(d, "INT_ADD", &[reg("RSP", 8), cst(k, 8)])
            }
        }
        7 => {
            let r = pick(t, &R8);
            if r != dst {
                s.mov(d, reg(r, 8))
            } else {
                s.mov(d, cst(2, 8))
            }
        }
        _ => {
            // load the value from a global (implicit RAM varnode input)
            s.mov(d, ramv(global_addr(t, l), 8))
        }
    }
}

fn call_extern(s: &mut SubB, pb: &mut Pb, name: &str) {
    let target = pb.extern_known(name);
    let nr = pb.extern_is_noreturn(name);
    pb.stats.extern_calls += 1;
    s.call(target, !nr, name);
}

/// One statement (a few instructions, possibly ending the current block with a call and opening
/// the return block).
fn gen_stmt(s: &mut SubB, t: &mut Tape, pb: &mut Pb, plan: &Plan, st: &mut SubState, prof: &Profile) {
    let l = pb.lay;
    match t.below(17) {
        0 => {
            let z = size_of(t);
            let d = reg_of(t, z);
            s.mov(d.clone(), small_const(t, z));
            if z == 4 {
                // x86-64: 32-bit writes zero-extend
                let name = d["name"].as_str().unwrap().to_string();
                if let Some((_, b, _, _)) = register_table().into_iter().find(|(r, _, _, _)| *r == name) {
                    s.idx_back();
                    s.op(Some(reg(&b, 8)), "INT_ZEXT", &[d]);
                    s.next_insn();
                }
            }
        }
        1 => {
            let z = size_of(t);
            let d = reg_of(t, z);
            let a = reg_of(t, z);
            let b = if t.flag() { reg_of(t, z) } else { small_const(t, z) };
            let op = *t.choose(&BIN_OPS);
            let b = if op.starts_with("INT_LEFT") || op.ends_with("RIGHT") { cst(t.below(70) as u64, z) } else { b };
            s.ins1(d, op, &[a, b]);
        }
        2 => {
            let z = size_of(t);
            let a = reg_of(t, z);
            let b = if t.flag() { reg_of(t, z) } else { small_const(t, z) };
            s.op(Some(reg("CF", 1)), "INT_LESS", &[a.clone(), b.clone()]);
            s.op(Some(reg("OF", 1)), "INT_SBORROW", &[a.clone(), b.clone()]);
            s.op(Some(uniq(0x100 * z as u32 + 0x1000, z)), "INT_SUB", &[a, b]);
            s.op(Some(reg("SF", 1)), "INT_SLESS", &[uniq(0x100 * z as u32 + 0x1000, z), cst(0, z)]);
            s.op(Some(reg("ZF", 1)), "INT_EQUAL", &[uniq(0x100 * z as u32 + 0x1000, z), cst(0, z)]);
            s.next_insn();
        }
        3 => {
            // stack slot store / load
            let z = *t.choose(&[8u64, 4, 8, 1]);
            let k = *t.choose(&[0x8u64, 0x10, 0x18, 0x20, 0x48, 0x100]);
            let (base, op) = if st.framed { ("RBP", "INT_SUB") } else { ("RSP", "INT_ADD") };
            let u = uniq(0x3100, 8);
            s.op(Some(u.clone()), op, &[reg(base, 8), cst(k, 8)]);
            if t.flag() {
                let v = if t.flag() { reg_of(t, z) } else { small_const(t, z) };
                s.store(u, v);
            } else {
                s.load(reg_of(t, z), u);
            }
            s.next_insn();
        }
        4 => {
            // global load: implicit RAM varnode or explicit LOAD from a constant
            let z = size_of(t);
            let a = global_addr(t, &l);
            pb.stats.mem_global += 1;
            if t.flag() {
                s.mov(reg_of(t, z), ramv(a, z));
            } else {
                s.load(reg_of(t, z), cst(a, 8));
                s.next_insn();
            }
        }
        5 => {
            // global store: output RAM varnode or explicit STORE
            let z = size_of(t);
            let a = global_addr(t, &l);
            pb.stats.mem_global += 1;
            let v = if t.flag() { reg_of(t, z) } else { small_const(t, z) };
            if t.flag() {
                s.ins1(ramv(a, z), "COPY", &[v]);
            } else {
                s.store(cst(a, 8), v);
                s.next_insn();
            }
        }
        6 => {
            let d = reg_of(t, 8);
            s.mov(d, cst(global_addr(t, &l), 8));
        }
        7 => {
            // extern call with register arguments
            let pool: &[&str] = &["strlen", "puts", "getenv", "atoi", "close", "read", "fgets", "strcpy", "strcat", "memset", "strncpy", "open", "fopen", "fclose", "remove", "strdup", "recv", "fread", "rand", "chdir"];
            let name: String = if prof.many_externs && t.prob(96) { format!("ext_fn_{}", t.below(24)) } else { t.choose(pool).to_string() };
            let nargs = KNOWN_EXTERNS.iter().find(|e| e.0 == name).map(|e| e.1).unwrap_or(1);
            for k in 0..nargs.min(4) {
                set_arg(s, t, &l, st, PARAM_REGS[k]);
            }
            call_extern(s, pb, &name);
            if t.prob(80) {
                // return value check
                s.ins1(reg("ZF", 1), "INT_EQUAL", &[reg("RAX", 8), cst(0, 8)]);
            }
        }
        8 => {
            // heap object
            let name = *t.choose(&["malloc", "calloc", "malloc", "realloc", "strdup"]);
            match name {
                "calloc" => {
                    s.mov(reg("RDI", 8), small_const(t, 8));
                    s.mov(reg("RSI", 8), small_const(t, 8));
                }
                "realloc" => {
                    s.mov(reg("RDI", 8), if st.heap { reg("RBX", 8) } else { cst(0, 8) });
                    s.mov(reg("RSI", 8), small_const(t, 8));
                }
                "strdup" => set_arg(s, t, &l, st, "RDI"),
                _ => {
                    if t.prob(64) {
                        s.ins1(reg("RDI", 8), "INT_MULT", &[reg(pick(t, &R8), 8), cst(4, 8)]);
                    } else {
                        s.mov(reg("RDI", 8), small_const(t, 8));
                    }
                }
            }
            call_extern(s, pb, name);
            s.mov(reg("RBX", 8), reg("RAX", 8));
            st.heap = true;
        }
        9 => {
            // heap use
            if !st.heap {
                s.mov(reg("RBX", 8), reg("RDI", 8));
            }
            match t.below(4) {
                0 | 1 => {
                    let k = *t.choose(&[0u64, 4, 8, 0x10, 0x40, 0x200, 0xffff_ffff_ffff_fff8]);
                    let z = *t.choose(&[8u64, 4, 1]);
                    let u = uniq(0x3200, 8);
                    s.op(Some(u.clone()), "INT_ADD", &[reg("RBX", 8), cst(k, 8)]);
                    if t.flag() {
                        s.store(u, small_const(t, z));
                    } else {
                        s.load(reg_of(t, z), u);
                    }
                    s.next_insn();
                }
                2 => {
                    s.mov(reg("RDI", 8), reg("RBX", 8));
                    call_extern(s, pb, "free");
                }
                _ => {
                    s.mov(reg("RDI", 8), reg("RBX", 8));
                    set_arg(s, t, &l, st, "RSI");
                    s.mov(reg("RDX", 8), small_const(t, 8));
                    call_extern(s, pb, "memcpy");
                }
            }
        }
        10 => {
            // sub-registers and casts
            match t.below(6) {
                0 => s.ins1(reg("RAX", 8), "INT_SEXT", &[reg("EAX", 4)]),
                1 => s.ins1(reg("ECX", 4), "INT_ZEXT", &[reg("AL", 1)]),
                2 => s.ins1(uniq(0x4400, 4), "SUBPIECE", &[reg_of(t, 8), cst(*t.choose(&[0u64, 4]), 4)]),
                3 => s.ins1(reg("AX", 2), "PIECE", &[reg("BL", 1), reg("CL", 1)]),
                4 => s.ins1(reg("AH", 1), "COPY", &[reg("BL", 1)]),
                _ => s.ins1(reg("EAX", 4), "POPCOUNT", &[reg_of(t, 8)]),
            }
        }
        11 => {
            // direct call to another function of the program
            let j = t.below(plan.base.len());
            for k in 0..t.below(3) {
                set_arg(s, t, &l, st, PARAM_REGS[k]);
            }
            let a = plan.base[j];
            let target = json!({"id": format!("sub_{}", h8(a)), "address": h8(a)});
            s.call(target, true, &format!("sub_{}", h8(a)));
        }
        12 => {
            pb.stats.indirect += 1;
            match t.below(3) {
                0 => {
                    // function pointer from the data segment
                    s.mov(reg("RAX", 8), ramv(l.data + 0x18, 8));
                    s.call_ind(reg("RAX", 8));
                }
                1 => s.call_ind(reg_of(t, 8)),
                _ => s.call_other(*t.choose(&["swi", "cpuid", "rdtsc", "unimplemented"])),
            }
        }
        13 => {
            // format string functions
            let name = *t.choose(&["printf", "sprintf", "snprintf", "scanf", "sscanf"]);
            let fmt_reg = match name {
                "printf" | "scanf" => "RDI",
                "sprintf" | "sscanf" => "RSI",
                _ => "RDX",
            };
            if fmt_reg != "RDI" {
                set_arg(s, t, &l, st, "RDI");
            }
            if name == "snprintf" {
                s.mov(reg("RSI", 8), small_const(t, 8));
            }
            let names = ["fmt_s", "fmt_hello", "fmt_cat", "fmt_n", "fmt_many", "fmt_d", "fmt_pct", "fmt_path"];
            match t.below(5) {
                0 | 1 | 2 => s.mov(reg(fmt_reg, 8), cst(l.ro + ro_offset(pick(t, &names)), 8)),
                3 => s.mov(reg(fmt_reg, 8), cst(l.data, 8)),
                _ => set_arg(s, t, &l, st, fmt_reg),
            }
            if t.flag() {
                set_arg(s, t, &l, st, "RCX");
            }
            call_extern(s, pb, name);
        }
        14 => {
            if t.flag() {
                s.mov(reg("RDI", 8), cst(0, 8));
                call_extern(s, pb, "time");
                s.mov(reg("RDI", 8), reg("RAX", 8));
                call_extern(s, pb, "srand");
            } else {
                set_arg(s, t, &l, st, "RDI");
                call_extern(s, pb, "system");
            }
        }
        15 => {
            // strcpy/memcpy into a stack buffer
            let k = *t.choose(&[0x10u64, 0x20, 0x40]);
            if st.framed {
                s.ins1(reg("RDI", 8), "INT_SUB", &[reg("RBP", 8), cst(k, 8)]);
            } else {
                s.ins1(reg("RDI", 8), "INT_ADD", &[reg("RSP", 8), cst(k, 8)]);
            }
            set_arg(s, t, &l, st, "RSI");
            if t.flag() {
                s.mov(reg("RDX", 8), small_const(t, 8));
                call_extern(s, pb, "memcpy");
            } else {
                call_extern(s, pb, "strcpy");
            }
        }
        _ => {
            // floating point
            match t.below(3) {
                0 => s.ins1(reg("XMM0_Qa", 8), "INT2FLOAT", &[reg("EAX", 4)]),
                1 => s.ins1(reg("XMM0_Qa", 8), "FLOAT_ADD", &[reg("XMM0_Qa", 8), reg("XMM1_Qa", 8)]),
                _ => {
                    let target = pb.extern_sym("sqrt", 1, true, false, false);
                    pb.stats.extern_calls += 1;
                    s.call(target, true, "sqrt");
                }
            }
        }
    }
}

impl SubB {
    /// Undo the instruction advance of the last `ins1`/`mov` so that another op can be appended
    /// to the same instruction.
    fn idx_back(&mut self) {
        self.ia -= 4;
        self.idx = 1;
    }
}

/// Condition for a conditional branch: emits the compare instruction, returns the condition varnode
/// and whether a BOOL_NEGATE op is to be placed in the branch instruction.
fn gen_cond(s: &mut SubB, t: &mut Tape) -> Value {
    match t.below(4) {
        0 => {
            s.ins1(reg("ZF", 1), "INT_EQUAL", &[reg(pick(t, &R8), 8), cst(0, 8)]);
            reg("ZF", 1)
        }
        1 => {
            let a = reg_of(t, 4);
            s.ins1(reg("CF", 1), "INT_LESS", &[a, small_const(t, 4)]);
            s.op(Some(uniq(0xc000, 1)), "BOOL_NEGATE", &[reg("CF", 1)]);
            uniq(0xc000, 1)
        }
        2 => {
            s.op(Some(reg("RCX", 8)), "INT_SUB", &[reg("RCX", 8), cst(1, 8)]);
            s.op(Some(reg("ZF", 1)), "INT_EQUAL", &[reg("RCX", 8), cst(0, 8)]);
            s.next_insn();
            s.op(Some(uniq(0xc080, 1)), "BOOL_NEGATE", &[reg("ZF", 1)]);
            uniq(0xc080, 1)
        }
        _ => {
            let a = reg_of(t, 8);
            let b = reg_of(t, 8);
            s.op(Some(uniq(0xc100, 1)), "INT_SLESS", &[a, b]);
            uniq(0xc100, 1)
        }
    }
}

fn do_ret(s: &mut SubB, st: &SubState) {
    if st.framed {
        s.epilogue_ret();
    } else {
        s.ret();
    }
}

/// Pick a non-entry block of another function (None if there is none).
fn shared_target(t: &mut Tape, plan: &Plan, me: usize) -> Option<(usize, usize)> {
    let mut c: Vec<(usize, usize)> = vec![];
    // prefer the last function (the "provider" of shared tails)
    for i in (0..plan.base.len()).rev() {
        if i != me {
            for j in 1..plan.nb[i] {
                c.push((i, j));
            }
        }
    }
    if c.is_empty() {
        None
    } else {
        Some(c[t.below(c.len().min(6))])
    }
}

fn gen_terminator(s: &mut SubB, t: &mut Tape, pb: &mut Pb, plan: &Plan, st: &SubState, prof: &Profile, j: usize) {
    let i = st.i;
    let nb = plan.nb[i];
    let last = j + 1 == nb;
    let next = if last { 0 } else { plan.addr(i, j + 1) };
    let mut choice = if last { *t.choose(&[3usize, 3, 3, 5, 7, 3]) } else { t.below(8) };
    if prof.shared_bias && t.prob(100) {
        choice = if last { 5 } else { 4 };
    }
    if !prof.dangling && choice == 7 && t.flag() {
        choice = 3;
    }
    match choice {
        0 => s.branch(next),
        1 => {
            let k = t.below(nb);
            if k <= j {
                pb.stats.loops += 1;
            }
            let c = gen_cond(s, t);
            s.cbranch(c, plan.addr(i, k), next);
        }
        2 => {
            let k = t.below(nb);
            if k <= j {
                pb.stats.loops += 1;
            }
            s.branch(plan.addr(i, k));
        }
        3 => do_ret(s, st),
        4 | 5 => match shared_target(t, plan, i) {
            Some((oi, oj)) => {
                let a = plan.addr(oi, oj);
                pb.stats.shared_block_jumps += 1;
                pb.stats.shared_blocks.insert(h8(a));
                if choice == 4 && !last {
                    let c = gen_cond(s, t);
                    s.cbranch(c, a, next);
                } else {
                    s.branch(a);
                }
            }
            None => {
                if last {
                    do_ret(s, st)
                } else {
                    s.branch(next)
                }
            }
        },
        6 => {
            let k1 = t.below(nb);
            let k2 = t.below(nb);
            pb.stats.indirect += 1;
            let u = uniq(0x5000, 8);
            s.op(Some(u.clone()), "INT_MULT", &[reg("RAX", 8), cst(8, 8)]);
            s.op(Some(uniq(0x5080, 8)), "INT_ADD", &[u, cst(pb.lay.data + 0x20, 8)]);
            s.load(reg("RAX", 8), uniq(0x5080, 8));
            s.next_insn();
            s.branch_ind(reg("RAX", 8), &[plan.addr(i, k1), plan.addr(i, k2)]);
        }
        _ => {
            if prof.dangling && t.prob(100) {
                // jump to an address without a block
                s.branch(plan.base[i] + 0x3f0);
            } else {
                s.mov(reg("RDI", 8), cst(1, 8));
                let name = if t.flag() { "exit" } else { "abort" };
                if t.flag() {
                    call_extern(s, pb, name);
                } else {
                    // Ghidra did not know that the callee does not return: the call has a
                    // return site (code after it follows)
                    let target = pb.extern_known(name);
                    pb.stats.extern_calls += 1;
                    s.call(target, true, name);
                    do_ret(s, st);
                }
            }
        }
    }
}

/// Generate the functions of the program; returns the first free code address.
pub fn gen_program(t: &mut Tape, pb: &mut Pb, prof: &Profile) -> u64 {
    let n = prof.min_subs + t.below(prof.max_subs - prof.min_subs + 1);
    let mut plan = Plan { base: vec![], nb: vec![] };
    for i in 0..n {
        plan.base.push(pb.lay.code + 0x400 * i as u64);
        let mut nb = 1 + t.below(6);
        if prof.shared_bias && i + 1 == n {
            nb = nb.max(4);
        }
        plan.nb.push(nb);
    }
    if prof.many_externs {
        let k = 10 + t.below(16);
        for e in 0..k {
            pb.extern_sym(&format!("ext_fn_{}", e), 1 + e % 3, e % 4 != 3, false, false);
        }
    }
    for i in 0..n {
        let name = if i == 0 { "main".to_string() } else { format!("fn_{}", i) };
        let mut s = SubB::new(&name, plan.base[i]);
        s.cconv = match t.below(8) {
            6 => None,
            7 => Some("MSABI".into()),
            _ => Some("__stdcall".into()),
        };
        let ft = t.below(5);
        let mut st = SubState { i, framed: ft > 0, frame: [0, 0x20, 0x60, 0x110, 0x2000][ft], heap: false };
        for j in 0..plan.nb[i] {
            if j > 0 {
                s.begin_block(plan.addr(i, j));
            } else if st.framed {
                s.prologue(st.frame, ft == 2);
            }
            let slot_end = plan.addr(i, j) + 0x80;
            if prof.shared_bias && i + 1 == n && j >= 1 {
                // blocks that other functions jump into carry a warning site, so that every copy
                // of the block reports at the same address
                match t.below(4) {
                    0 => {
                        s.mov(reg("RDI", 8), cst(0, 8));
                        call_extern(&mut s, pb, "time");
                        s.mov(reg("RDI", 8), reg("RAX", 8));
                        call_extern(&mut s, pb, "srand");
                    }
                    1 => {
                        s.mov(reg("RDI", 8), cst(0x30, 8));
                        call_extern(&mut s, pb, "malloc");
                        s.load(reg("RCX", 8), reg("RAX", 8));
                        s.next_insn();
                    }
                    2 => {
                        s.mov(reg("RDI", 8), reg("RBX", 8));
                        call_extern(&mut s, pb, "free");
                        s.load(reg("RCX", 8), reg("RBX", 8));
                        s.next_insn();
                    }
                    _ => {}
                }
            }
            let ns = t.below(5);
            for _ in 0..ns {
                if s.ia + 0x48 > slot_end {
                    break;
                }
                gen_stmt(&mut s, t, pb, &plan, &mut st, prof);
            }
            gen_terminator(&mut s, t, pb, &plan, &st, prof, j);
        }
        let tid = pb.tid(format!("sub_{}", h8(plan.base[i])), h8(plan.base[i]));
        if i == 0 || t.prob(40) {
            pb.entry_points.push(tid);
        }
        if prof.dangling && i > 0 && t.prob(20) {
            // function start inside a basic block: no block starts at the entry address
            s.entry_skew = 2;
            pb.stats.misaddressed_subs += 1;
        }
        s.finish(pb);
    }
    pb.lay.code + 0x400 * n as u64
}

// =============================================================================================
// Trigger pack (C22): each trigger makes one check fire, independently of the others.

pub const TRIGGERS: &[(&str, &str)] = &[
    ("strcpy", "CWE676"),
    ("ioctl", "CWE782"),
    ("system+setuid", "CWE426"),
    ("rand", "CWE332"),
    ("chroot", "CWE243"),
    ("access-open", "CWE367"),
    ("umask", "CWE560"),
    ("malloc8", "CWE467"),
    ("malloc-deref", "CWE476"),
    ("sprintf-system", "CWE78"),
    ("printf-writable", "CWE134"),
    ("malloc-huge", "CWE789"),
    ("mult-malloc", "CWE190"),
    ("use-after-free", "CWE416"),
    ("time-srand", "CWE337"),
    ("memcpy-overflow", "CWE119"),
];

/// Adds the function `vh_triggers` at `base` containing the triggers selected by `mask`.
/// Returns the first free address behind it.
pub fn add_triggers(pb: &mut Pb, mask: u32, base: u64) -> u64 {
    let l = pb.lay;
    let mut s = SubB::new("vh_triggers", base);
    s.prologue(0x80, false);
    let ro = |n: &str| cst(l.ro + ro_offset(n), 8);
    let on = |k: usize| mask & (1 << k) != 0;
    let mut n = 0;
    if on(0) {
        s.ins1(reg("RDI", 8), "INT_SUB", &[reg("RBP", 8), cst(0x40, 8)]);
        s.mov(reg("RSI", 8), ro("binsh"));
        call_extern(&mut s, pb, "strcpy");
        n += 1;
    }
    if on(1) {
        s.mov(reg("RDI", 8), cst(0, 8));
        s.mov(reg("RSI", 8), cst(0x5401, 8));
        s.mov(reg("RDX", 8), cst(0, 8));
        call_extern(&mut s, pb, "ioctl");
        n += 1;
    }
    if on(2) {
        s.mov(reg("RDI", 8), ro("ls"));
        call_extern(&mut s, pb, "system");
        s.mov(reg("RDI", 8), cst(0, 8));
        call_extern(&mut s, pb, "setuid");
        n += 1;
    }
    if on(3) {
        call_extern(&mut s, pb, "rand");
        n += 1;
    }
    if on(4) {
        s.mov(reg("RDI", 8), ro("jail"));
        call_extern(&mut s, pb, "chroot");
        n += 1;
    }
    if on(5) {
        s.mov(reg("RDI", 8), ro("jail"));
        s.mov(reg("RSI", 8), cst(0, 8));
        call_extern(&mut s, pb, "access");
        if on(16) {
            // `if (access(..) == 0) open(..) else open(..)`: a sink call on both sides of a branch
            s.ins1(reg("ZF", 1), "INT_EQUAL", &[reg("RAX", 8), cst(0, 8)]);
            let a = s.ia + 4;
            let b = a + 16;
            let join = b + 12;
            s.cbranch(reg("ZF", 1), b, a);
            s.begin_block(a);
            s.mov(reg("RDI", 8), ro("jail"));
            s.mov(reg("RSI", 8), cst(0, 8));
            call_extern(&mut s, pb, "open");
            s.branch(join);
            assert_eq!(s.ia, b);
            s.begin_block(b);
            s.mov(reg("RDI", 8), ro("jail"));
            s.mov(reg("RSI", 8), cst(2, 8));
            call_extern(&mut s, pb, "open");
            assert_eq!(s.ia, join);
        } else {
            s.mov(reg("RDI", 8), ro("jail"));
            s.mov(reg("RSI", 8), cst(0, 8));
            call_extern(&mut s, pb, "open");
        }
        n += 1;
    }
    if on(6) {
        s.mov(reg("RDI", 8), cst(0o666, 8));
        call_extern(&mut s, pb, "umask");
        n += 1;
    }
    if on(7) {
        s.mov(reg("RDI", 8), cst(8, 8));
        call_extern(&mut s, pb, "malloc");
        s.ins1(reg("ZF", 1), "INT_EQUAL", &[reg("RAX", 8), cst(0, 8)]);
        n += 1;
    }
    if on(8) {
        s.mov(reg("RDI", 8), cst(0x30, 8));
        call_extern(&mut s, pb, "malloc");
        s.op(Some(uniq(0x3200, 8)), "INT_ADD", &[reg("RAX", 8), cst(4, 8)]);
        s.load(reg("ECX", 4), uniq(0x3200, 8));
        s.next_insn();
        n += 1;
    }
    if on(9) {
        s.ins1(reg("RDI", 8), "INT_SUB", &[reg("RBP", 8), cst(0x70, 8)]);
        s.mov(reg("RSI", 8), ro("fmt_cat"));
        s.mov(reg("RDX", 8), reg("R12", 8));
        call_extern(&mut s, pb, "sprintf");
        s.ins1(reg("RDI", 8), "INT_SUB", &[reg("RBP", 8), cst(0x70, 8)]);
        call_extern(&mut s, pb, "system");
        n += 1;
    }
    if on(10) {
        s.mov(reg("RDI", 8), cst(l.data, 8));
        call_extern(&mut s, pb, "printf");
        n += 1;
    }
    if on(11) {
        s.mov(reg("RDI", 8), cst(0x1000_0000, 8));
        call_extern(&mut s, pb, "malloc");
        s.ins1(reg("ZF", 1), "INT_EQUAL", &[reg("RAX", 8), cst(0, 8)]);
        n += 1;
    }
    if on(12) {
        s.ins1(reg("RDI", 8), "INT_MULT", &[reg("R13", 8), cst(4, 8)]);
        call_extern(&mut s, pb, "malloc");
        s.ins1(reg("ZF", 1), "INT_EQUAL", &[reg("RAX", 8), cst(0, 8)]);
        n += 1;
    }
    if on(13) {
        s.mov(reg("RDI", 8), cst(0x20, 8));
        call_extern(&mut s, pb, "malloc");
        s.mov(reg("RBX", 8), reg("RAX", 8));
        s.mov(reg("RDI", 8), reg("RBX", 8));
        call_extern(&mut s, pb, "free");
        s.load(reg("RCX", 8), reg("RBX", 8));
        s.next_insn();
        n += 1;
    }
    if on(14) {
        s.mov(reg("RDI", 8), cst(0, 8));
        call_extern(&mut s, pb, "time");
        s.mov(reg("RDI", 8), reg("RAX", 8));
        call_extern(&mut s, pb, "srand");
        n += 1;
    }
    if on(15) {
        s.ins1(reg("RDI", 8), "INT_SUB", &[reg("RBP", 8), cst(0x20, 8)]);
        s.mov(reg("RSI", 8), ro("fmt_many"));
        s.mov(reg("RDX", 8), cst(0x200, 8));
        call_extern(&mut s, pb, "memcpy");
        n += 1;
    }
    if on(17) {
        // A value computed by a long chain of operations on one register (the expression propagation stops
        // inlining at a depth limit), compared with a constant, and dereferenced on the taken branch: which
        // variables the propagated condition and address mention decides whether the pointer inference can
        // narrow the register to the constant and report the dereference of a NULL-range address.
        s.ins1(reg("RBX", 8), "INT_XOR", &[reg("R12", 8), reg("R13", 8)]);
        for i in 0..10 {
            if i % 2 == 0 {
                s.ins1(reg("RBX", 8), "INT_MULT", &[reg("RBX", 8), reg("R12", 8)]);
            } else {
                s.ins1(reg("RBX", 8), "INT_XOR", &[reg("RBX", 8), reg("R13", 8)]);
            }
        }
        s.ins1(reg("RCX", 8), "INT_ADD", &[reg("RBX", 8), cst(8, 8)]);
        s.ins1(reg("ZF", 1), "INT_EQUAL", &[reg("RCX", 8), cst(0, 8)]);
        let a = s.ia + 4; // fall-through: skip
        let taken = a + 4;
        let join = taken + 12;
        s.cbranch(reg("ZF", 1), taken, a);
        s.begin_block(a);
        s.branch(join);
        assert_eq!(s.ia, taken);
        s.begin_block(taken);
        s.mov(reg("RAX", 8), reg("RBX", 8));
        s.op(Some(uniq(0x3300, 8)), "INT_ADD", &[reg("RAX", 8), cst(16, 8)]);
        s.load(reg("RDX", 8), uniq(0x3300, 8));
        s.next_insn();
        s.branch(join); // 3 instructions: mov, add+load, branch = 12 bytes
        assert_eq!(s.ia, join);
        s.begin_block(join);
        n += 1;
    }
    let wrapper = base + 0x1000;
    if on(18) {
        // An allocation wrapper whose size is its own parameter, called once with a constant and once with a value the
        // analysis cannot track, and an access that is out of bounds for the constant: the size of the heap object
        // is the merge over all call sites (CWE119 parameter replacement iterates a hash set of call sites).
        let target = json!({"id": format!("sub_{}", h8(wrapper)), "address": h8(wrapper)});
        s.mov(reg("RDI", 8), cst(8, 8));
        s.call(target.clone(), true, "vh_alloc_and_write");
        call_extern(&mut s, pb, "rand");
        s.mov(reg("RDI", 8), reg("RAX", 8));
        s.call(target, true, "vh_alloc_and_write");
        n += 1;
    }
    pb.stats.triggers += n;
    s.epilogue_ret();
    assert!(s.ia < wrapper, "trigger function grew into the wrapper");
    let mut end = (s.ia + 0x1f) & !0xf;
    let tid = pb.tid(format!("sub_{}", h8(base)), h8(base));
    pb.entry_points.push(tid);
    s.finish(pb);
    if on(18) {
        let mut w = SubB::new("vh_alloc_and_write", wrapper);
        call_extern(&mut w, pb, "malloc");
        w.op(Some(uniq(0x3400, 8)), "INT_ADD", &[reg("RAX", 8), cst(16, 8)]);
        w.store(uniq(0x3400, 8), cst(0, 8));
        w.next_insn();
        w.ret();
        end = (w.ia + 0x1f) & !0xf;
        w.finish(pb);
    }
    end
}

/// Kernel-module trigger pack: symbols of `lkm_config.json`.
pub const LKM_TRIGGERS: &[(&str, &str)] = &[("strcpy", "CWE676"), ("memcpy8", "CWE467"), ("kmalloc-deref", "CWE476"), ("copy_from_user-unchecked", "CWE252")];

pub fn add_lkm_triggers(pb: &mut Pb, mask: u32, base: u64) -> u64 {
    let l = pb.lay;
    let mut s = SubB::new("vh_lkm_triggers", base);
    s.prologue(0x80, false);
    let on = |k: usize| mask & (1 << k) != 0;
    let mut n = 0;
    if on(0) {
        s.ins1(reg("RDI", 8), "INT_SUB", &[reg("RBP", 8), cst(0x40, 8)]);
        s.mov(reg("RSI", 8), cst(l.ro + ro_offset("binsh"), 8));
        call_extern(&mut s, pb, "strcpy");
        n += 1;
    }
    if on(1) {
        s.ins1(reg("RDI", 8), "INT_SUB", &[reg("RBP", 8), cst(0x40, 8)]);
        s.mov(reg("RSI", 8), cst(l.ro + ro_offset("fmt_many"), 8));
        s.mov(reg("RDX", 8), cst(8, 8));
        call_extern(&mut s, pb, "memcpy");
        n += 1;
    }
    if on(2) {
        s.mov(reg("RDI", 8), cst(0x30, 8));
        s.mov(reg("RSI", 8), cst(0xcc0, 8));
        call_extern(&mut s, pb, "__kmalloc");
        s.op(Some(uniq(0x3200, 8)), "INT_ADD", &[reg("RAX", 8), cst(8, 8)]);
        s.store(uniq(0x3200, 8), cst(1, 4));
        s.next_insn();
        n += 1;
    }
    if on(3) {
        s.ins1(reg("RDI", 8), "INT_SUB", &[reg("RBP", 8), cst(0x60, 8)]);
        s.mov(reg("RSI", 8), reg("R12", 8));
        s.mov(reg("RDX", 8), cst(0x10, 8));
        call_extern(&mut s, pb, "__arch_copy_from_user");
        s.mov(reg("RAX", 8), cst(0, 8));
        n += 1;
    }
    pb.stats.triggers += n;
    s.epilogue_ret();
    let end = (s.ia + 0x1f) & !0xf;
    let tid = pb.tid(format!("sub_{}", h8(base)), h8(base));
    pb.entry_points.push(tid);
    s.finish(pb);
    end
}

// =============================================================================================
// Complete inputs

pub struct Input {
    pub lay: Layout,
    pub json: Value,
    pub elf: Vec<u8>,
    pub listing: String,
    pub addrs: BTreeSet<String>,
    pub stats: GenStats,
    pub debug_section: bool,
}

/// Which trigger pack to add.
#[derive(Clone, Copy, Debug)]
pub enum Pack {
    None,
    User(u32),
    Lkm(u32),
}

/// Build a complete input (program JSON + ELF) from a tape; pure function of its arguments.
pub fn gen_input(tape: &[u8], kind: ElfKind, prof: &Profile, pack: Pack, debug_section: bool) -> Input {
    let lay = Layout::new(kind);
    let mut pb = Pb::new(lay);
    let mut t = Tape::new(tape);
    let free = gen_program(&mut t, &mut pb, prof);
    match pack {
        Pack::None => {}
        Pack::User(m) => {
            add_triggers(&mut pb, m, free);
        }
        Pack::Lkm(m) => {
            add_lkm_triggers(&mut pb, m, free);
        }
    }
    let json = pb.project();
    // self-check: TIDs are unique (the extractor never emits one block/instruction TID twice
    // inside one function body list; a duplicate would be a generator bug)
    {
        let mut seen: BTreeSet<String> = BTreeSet::new();
        for sub in json["program"]["term"]["subs"].as_array().unwrap() {
            let mut ids: Vec<String> = vec![sub["tid"]["id"].as_str().unwrap().to_string()];
            for b in sub["term"]["blocks"].as_array().unwrap() {
                ids.push(b["tid"]["id"].as_str().unwrap().to_string());
                for k in ["defs", "jmps"] {
                    for d in b["term"][k].as_array().unwrap() {
                        ids.push(d["tid"]["id"].as_str().unwrap().to_string());
                    }
                }
            }
            for id in ids {
                if !seen.insert(id.clone()) {
                    panic!("generator bug: duplicate TID {}", id);
                }
            }
        }
    }
    let elf = elf_image(&lay, debug_section);
    let mut listing = format!("kind={:?} debug_section={} pack={:?}\nexterns: {}\n", kind, debug_section, pack, pb.externs.iter().map(|e| format!("{}@{}", e.name, e.tid_addr)).collect::<Vec<_>>().join(" "));
    listing.push_str(&pb.listing);
    Input { lay, json, elf, listing, addrs: pb.addrs, stats: pb.stats, debug_section }
}

// =============================================================================================
// Temp directories and the process runner

static DIR_COUNTER: AtomicU64 = AtomicU64::new(0);

/// `temp_dir()/vharness_<pid>_<id>`; removed on drop (also on unwinding).
pub struct TmpDir {
    pub path: PathBuf,
}
impl TmpDir {
    pub fn new(tag: &str) -> TmpDir {
        let n = DIR_COUNTER.fetch_add(1, Ordering::SeqCst);
        let path = std::env::temp_dir().join(format!("vharness_{}_{}{}", std::process::id(), tag, n));
        let _ = std::fs::create_dir_all(&path);
        TmpDir { path }
    }
    pub fn file(&self, name: &str) -> String {
        self.path.join(name).to_string_lossy().to_string()
    }
    /// Write the input's files, returns (pcode path, elf path).
    pub fn write_input(&self, stem: &str, inp: &Input) -> (String, String) {
        let p = self.file(&format!("{}.pcode.json", stem));
        let e = self.file(&format!("{}.elf", stem));
        std::fs::write(&p, serde_json::to_vec(&inp.json).unwrap()).expect("write pcode json");
        std::fs::write(&e, &inp.elf).expect("write elf");
        (p, e)
    }
}
impl Drop for TmpDir {
    fn drop(&mut self) {
        let _ = std::fs::remove_dir_all(&self.path);
    }
}

pub struct RunOut {
    pub millis: u64,
    pub code: Option<i32>,
    pub stdout: Vec<u8>,
    pub stderr: String,
    pub timed_out: bool,
    pub spawn_error: Option<String>,
}

pub const TIMEOUT_SECS: u64 = 60;

/// Run the CLI with the given arguments in a fresh process; stdout/stderr go to files in `dir`.
pub fn run_cli(dir: &TmpDir, tag: &str, args: &[String]) -> RunOut {
    let so = dir.file(&format!("{}.stdout", tag));
    let se = dir.file(&format!("{}.stderr", tag));
    let mk = |p: &str| std::fs::File::create(p);
    let (fo, fe) = match (mk(&so), mk(&se)) {
        (Ok(a), Ok(b)) => (a, b),
        _ => return RunOut { millis: 0, code: None, stdout: vec![], stderr: String::new(), timed_out: false, spawn_error: Some("cannot create output files".into()) },
    };
    let child = std::process::Command::new(cli_path())
        .args(args)
        .stdin(std::process::Stdio::null())
        .stdout(fo)
        .stderr(fe)
        .env_remove("RUST_BACKTRACE")
        .spawn();
    let mut child = match child {
        Ok(c) => c,
        Err(e) => return RunOut { millis: 0, code: None, stdout: vec![], stderr: String::new(), timed_out: false, spawn_error: Some(format!("{}: {}", cli_path(), e)) },
    };
    let start = std::time::Instant::now();
    let mut timed_out = false;
    let status = loop {
        match child.try_wait() {
            Ok(Some(s)) => break Some(s),
            Ok(None) => {
                if start.elapsed().as_secs() >= TIMEOUT_SECS {
                    let _ = child.kill();
                    let _ = child.wait();
                    timed_out = true;
                    break None;
                }
                std::thread::sleep(std::time::Duration::from_millis(4));
            }
            Err(_) => break None,
        }
    };
    let stdout = std::fs::read(&so).unwrap_or_default();
    let stderr = String::from_utf8_lossy(&std::fs::read(&se).unwrap_or_default()).to_string();
    RunOut { millis: start.elapsed().as_millis() as u64, code: status.and_then(|s| s.code()), stdout, stderr, timed_out, spawn_error: None }
}

/// Standard analysis command line.
pub fn analysis_args(pcode: &str, elf: &str, config: &str, json_out: bool, partial: Option<&str>) -> Vec<String> {
    let mut a: Vec<String> = vec!["--pcode-raw".into(), pcode.into(), "--config".into(), config.into(), "--quiet".into()];
    if json_out {
        a.push("--json".into());
    }
    if let Some(p) = partial {
        a.push("--partial".into());
        a.push(p.into());
    }
    a.push(elf.into());
    a
}

/// Classify a watchdog timeout: re-run the same input with every check except CWE78 (the only
/// consumer of the string abstraction). If that run finishes, the hang is attributed to the
/// string abstraction. Returns the signature suffix.
pub fn classify_timeout(dir: &TmpDir, pcode: &str, elf: &str, config: &str, names: &[String]) -> &'static str {
    let without: Vec<String> = names.iter().filter(|n| n.as_str() != "CWE78").cloned().collect();
    let args = analysis_args(pcode, elf, config, true, Some(&without.join(",")));
    let r = run_cli(dir, "classify", &args);
    if r.spawn_error.is_none() && !r.timed_out {
        "no-termination:string-abstraction"
    } else {
        "no-termination:other"
    }
}

/// Handle a timed-out run: a listed open known finding is counted as such, anything else is
/// recorded as inconclusive (a timeout is never a violation).
#[allow(clippy::too_many_arguments)]
pub fn handle_timeout(prop: &str, ctx: &mut crate::engine::Ctx, problems: &std::sync::Mutex<Vec<String>>, tape: &[u8], what: &str, dir: &TmpDir, pcode: &str, elf: &str, config: &str, names: &[String], selection_has_cwe78: bool) {
    let class = if selection_has_cwe78 { classify_timeout(dir, pcode, elf, config, names) } else { "no-termination:other" };
    let sig = format!("{}:{}", prop, class);
    ctx.label("timeout");
    if ctx.is_known(&sig) {
        let _ = ctx.report(sig, format!("run `{}` exceeded {} s; the same input without CWE78 finishes (tape {})", what, TIMEOUT_SECS, crate::tape::hex(tape)));
    } else {
        problems.lock().unwrap().push(format!("timeout (> {} s, class {}) on tape {} run {}", TIMEOUT_SECS, class, crate::tape::hex(tape), what));
    }
}

/// Signature fragment for an abnormal exit: the panic location/message if stderr shows one.
pub fn abnormal_signature(stderr: &str) -> String {
    if let Some(pos) = stderr.find("panicked at ") {
        let rest = &stderr[pos + "panicked at ".len()..];
        let first = rest.lines().next().unwrap_or("");
        let file = first.split(':').next().unwrap_or("");
        let file = file.rsplit('/').next().unwrap_or(file);
        let msg = rest.lines().nth(1).unwrap_or("");
        let m: String = msg.chars().take(50).map(|c| if c.is_ascii_digit() { '#' } else { c }).collect();
        format!("panic:{}:{}", file, m.trim())
    } else if stderr.contains("Error") || stderr.contains("error") {
        "error-exit".to_string()
    } else {
        "abnormal-exit".to_string()
    }
}

// =============================================================================================
// Shrink budget: every evaluation costs several process runs, proptest's 20000 shrink iterations
// are not affordable. After the first failure in a shard only `budget` further real evaluations
// are made; later candidates are answered "passes" without running, except the best failing tape
// (the engine re-runs the final tape once to obtain the failure text).

thread_local! {
    static SHRINK: std::cell::RefCell<(u32, Option<(Vec<u8>, crate::engine::Failure)>)> = const { std::cell::RefCell::new((0, None)) };
}

/// `Some(result)`: do not run this tape, use `result` (budget exhausted: "passes" for every tape
/// except the best failing one, for which the failure observed earlier is returned again —
/// proptest re-tests it after every rejected candidate and the engine once at the end).
pub fn shrink_gate(tape: &[u8], budget: u32) -> Option<crate::engine::CaseResult> {
    let budget = std::env::var("VERIF_SHRINK_BUDGET").ok().and_then(|s| s.parse().ok()).unwrap_or(budget);
    SHRINK.with(|s| {
        let s = s.borrow();
        match &s.1 {
            // a tape that failed once is a witness: answer with the observed failure (a
            // nondeterministic property may not fail again on the same tape)
            Some((best, fl)) if best.as_slice() == tape => Some(Err(fl.clone())),
            Some(_) if s.0 >= budget => Some(Ok(())),
            _ => None,
        }
    })
}
pub fn shrink_note(tape: &[u8], r: &crate::engine::CaseResult) {
    SHRINK.with(|s| {
        let mut s = s.borrow_mut();
        if s.1.is_some() {
            s.0 += 1;
        }
        if let Err(fl) = r {
            s.1 = Some((tape.to_vec(), fl.clone()));
        }
    })
}

// =============================================================================================
// Source scan: `CweModule` statics

#[derive(Clone, Debug, PartialEq, Eq, PartialOrd, Ord)]
pub struct ModuleInfo {
    pub name: String,
    pub version: String,
    pub file: String,
}

fn walk_rs(dir: &Path, out: &mut Vec<PathBuf>) {
    let mut entries: Vec<PathBuf> = match std::fs::read_dir(dir) {
        Ok(rd) => rd.filter_map(|e| e.ok()).map(|e| e.path()).collect(),
        Err(_) => return,
    };
    entries.sort();
    for p in entries {
        if p.is_dir() {
            walk_rs(&p, out);
        } else if p.extension().map(|x| x == "rs").unwrap_or(false) {
            out.push(p);
        }
    }
}

fn quoted_after(s: &str, key: &str) -> Option<(String, bool)> {
    // finds `key` followed by either "literal" or IDENT; returns (text, is_literal)
    let p = s.find(key)? + key.len();
    let rest = s[p..].trim_start();
    if let Some(r) = rest.strip_prefix('"') {
        let e = r.find('"')?;
        Some((r[..e].to_string(), true))
    } else {
        let id: String = rest.chars().take_while(|c| c.is_ascii_alphanumeric() || *c == '_').collect();
        if id.is_empty() {
            None
        } else {
            Some((id, false))
        }
    }
}

/// All `static ...: CweModule = CweModule { name: .., version: .. }` definitions below
/// `<repo>/src/cwe_checker_lib/src`, sorted by name.
pub fn scan_modules(repo: &str) -> Result<Vec<ModuleInfo>, String> {
    let root = PathBuf::from(format!("{}/src/cwe_checker_lib/src", repo));
    let mut files = vec![];
    walk_rs(&root, &mut files);
    if files.is_empty() {
        return Err(format!("no sources below {}", root.display()));
    }
    let mut out = vec![];
    for f in files {
        let txt = match std::fs::read_to_string(&f) {
            Ok(t) => t,
            Err(_) => continue,
        };
        let mut from = 0;
        while let Some(p) = txt[from..].find("CweModule = ") {
            let start = from + p;
            from = start + 10;
            // must be a static item
            let line_start = txt[..start].rfind('\n').map(|x| x + 1).unwrap_or(0);
            if !txt[line_start..start].contains("static ") {
                continue;
            }
            let end = txt[start..].find("};").map(|e| start + e).unwrap_or(txt.len());
            let body = &txt[start..end];
            let name = match quoted_after(body, "name:") {
                Some((n, true)) => n,
                _ => return Err(format!("{}: CweModule without literal name", f.display())),
            };
            let version = match quoted_after(body, "version:") {
                Some((v, true)) => v,
                Some((id, false)) => {
                    let key = format!("const {}: &str =", id);
                    match quoted_after(&txt, &key) {
                        Some((v, true)) => v,
                        _ => return Err(format!("{}: cannot resolve version constant {}", f.display(), id)),
                    }
                }
                None => return Err(format!("{}: CweModule without version", f.display())),
            };
            out.push(ModuleInfo { name, version, file: f.to_string_lossy().to_string() });
        }
    }
    out.sort();
    if out.is_empty() {
        return Err("no CweModule statics found".into());
    }
    Ok(out)
}

/// Warning names that are emitted under another module's responsibility (documented in the module
/// docs of CWE119 / CWE416; the pointer inference "Memory" module reports NULL dereferences as
/// CWE476 with its own version): (warning name, owning module).
pub const ALIASES: &[(&str, &str)] = &[("CWE125", "CWE119"), ("CWE787", "CWE119"), ("CWE415", "CWE416"), ("CWE476", "Memory")];

/// Program-wide warnings that carry no address by design.
pub const ADDRESSLESS: &[&str] = &["CWE332", "CWE215"];

pub struct ModuleTable {
    pub modules: Vec<ModuleInfo>,
}
impl ModuleTable {
    pub fn names(&self) -> Vec<String> {
        self.modules.iter().map(|m| m.name.clone()).collect()
    }
    pub fn version_of(&self, module: &str) -> Option<&str> {
        self.modules.iter().find(|m| m.name == module).map(|m| m.version.as_str())
    }
    pub fn name_known(&self, name: &str) -> bool {
        self.version_of(name).is_some() || ALIASES.iter().any(|(a, o)| *a == name && self.version_of(o).is_some())
    }
    /// Modules that may have emitted a warning with this (name, version).
    pub fn emitters(&self, name: &str, version: &str) -> Vec<String> {
        let mut v = vec![];
        if self.version_of(name) == Some(version) {
            v.push(name.to_string());
        }
        for (a, o) in ALIASES {
            if *a == name && self.version_of(o) == Some(version) {
                v.push(o.to_string());
            }
        }
        v
    }
}

// =============================================================================================
// Warnings

#[derive(Clone, Debug, PartialEq, Eq, PartialOrd, Ord)]
pub struct Warning {
    // field order = canonical order of the analyzer (derive(Ord) on CweWarning)
    pub name: String,
    pub version: String,
    pub addresses: Vec<String>,
    pub tids: Vec<String>,
    pub symbols: Vec<String>,
    pub other: Vec<Vec<String>>,
    pub description: String,
}

fn str_vec(v: &Value) -> Option<Vec<String>> {
    v.as_array()?.iter().map(|x| x.as_str().map(|s| s.to_string())).collect()
}

/// Parse `--json` output; Err(reason) if it is not an array of well-formed warning objects.
pub fn parse_warnings(stdout: &[u8]) -> Result<Vec<Warning>, String> {
    let v: Value = serde_json::from_slice(stdout).map_err(|e| format!("stdout is not JSON: {}", e))?;
    let arr = v.as_array().ok_or_else(|| "stdout is not a JSON array".to_string())?;
    let mut out = vec![];
    for (i, w) in arr.iter().enumerate() {
        let o = w.as_object().ok_or_else(|| format!("element {} is not an object", i))?;
        let keys: BTreeSet<&str> = o.keys().map(|k| k.as_str()).collect();
        let want: BTreeSet<&str> = ["name", "version", "addresses", "tids", "symbols", "other", "description"].into_iter().collect();
        if keys != want {
            return Err(format!("element {} has fields {:?}", i, keys));
        }
        let s = |k: &str| o[k].as_str().map(|x| x.to_string()).ok_or_else(|| format!("element {}: field {} is not a string", i, k));
        let sv = |k: &str| str_vec(&o[k]).ok_or_else(|| format!("element {}: field {} is not an array of strings", i, k));
        let other: Option<Vec<Vec<String>>> = o["other"].as_array().and_then(|a| a.iter().map(str_vec).collect());
        out.push(Warning {
            name: s("name")?,
            version: s("version")?,
            addresses: sv("addresses")?,
            tids: sv("tids")?,
            symbols: sv("symbols")?,
            other: other.ok_or_else(|| format!("element {}: field other is not an array of string arrays", i))?,
            description: s("description")?,
        });
    }
    Ok(out)
}

pub fn is_sorted(ws: &[Warning]) -> Option<usize> {
    (1..ws.len()).find(|&i| ws[i - 1] > ws[i])
}

pub fn case_hash(tape: &[u8]) -> u64 {
    fnv(tape)
}

/// Write the files of a failing input below `<VERIF_ROOT>/replays/<prop>/` and return a description.
pub fn save_failing_input(prop: &str, tape: &[u8], inputs: &[(&str, &Input)]) -> String {
    let dir = format!("{}/replays/{}", crate::engine::verif_dir(), prop);
    let _ = std::fs::create_dir_all(&dir);
    let mut s = String::new();
    for (tag, inp) in inputs {
        let stem = format!("{}/input-{:016x}-{}", dir, fnv(tape), tag);
        let _ = std::fs::write(format!("{}.pcode.json", stem), serde_json::to_vec(&inp.json).unwrap());
        let _ = std::fs::write(format!("{}.elf", stem), &inp.elf);
        s.push_str(&format!("files: {}.pcode.json {}.elf\n{}\n", stem, stem, inp.listing));
    }
    s
}

fn pick<'a>(t: &mut Tape, xs: &[&'a str]) -> &'a str {
    xs[t.below(xs.len())]
}
