//! C06 — string abstractions over-approximate the strings they describe.
//!
//! Bounded language enumeration with the harness' own matcher:
//!   * bricks: `[S]^{m,M}` = concatenations of k in [m,M] elements of S, brick `Top` = every string,
//!     a list = concatenation of its bricks, list `Top` = every string, `u32::MAX` = unbounded;
//!     evaluated on ALL strings over {a,b} up to length 7 (255 strings) with a position-set DP.
//!     normalize: L7(normalize(x)) == L7(x); append: L(x)·L(y) ∩ Σ^{<=7} ⊆ L(append(x,y));
//!     merge / widen (lists and single bricks): (L(x) ∪ L(y)) ∩ Σ^{<=7} ⊆ L(result).
//!   * character inclusion: γ(C,P) = { w | C ⊆ chars(w) ⊆ P } (P = Top: no upper bound; value Top:
//!     every string) on all strings over {a,b,c,d} up to length 4, sets over {a,b,c}; all
//!     (certain ⊆ possible) pairs incl. Top, exhaustive; append and merge as above.
//!
//! Routing (never a verdict by itself): a small rewriting simulation of the five documented
//! normalization rules (`simulate`) predicts for a brick list whether the rule system reaches a
//! normal form. Two classes are routed specially:
//!   * rule 4 would add the bounds of two unbounded bricks (documented out of scope, DESIGN §1 /
//!     F8): skipped and counted;
//!   * the rule system cycles (rule 5 splits `[S]^{1,M}` into `[S]^{1,1}[S]^{0,M-1}` and rule 4 merges
//!     them again): `normalize` does not terminate. While this signature is an open known finding
//!     the call is skipped and counted; otherwise the call is made like every other one.
//! Every call that runs the normalization loop is made under a heartbeat; a monitor thread turns a
//! call that does not return into a violation (see "Watchdog" below).
//! A u32 wrap of an unbounded max in rule 4 (second known finding) is recognised from the result
//! alone (`unbounded_brick_lost`), not from the simulation.

use crate::engine::{cut, CaseResult, Ctx, Engine, Failure, RandomSpec};
use crate::tape::{fnv, Tape};
use cwe_checker_lib::abstract_domain::{AbstractDomain, BrickDomain, BricksDomain, CharacterInclusionDomain, CharacterSet, DomainInsertion};
use std::collections::BTreeSet;
use std::sync::atomic::{AtomicBool, AtomicU64, AtomicUsize, Ordering};
use std::sync::Mutex;

pub const SIG_NONTERM: &str = "C06:normalize-does-not-terminate:rule5-rule4-cycle";
pub const SIG_WRAP: &str = "C06:rule4-adds-to-unbounded-max:u32-wrap-loses-strings";

// ---------------------------------------------------------------------------------------------
// Model values

#[derive(Clone, Debug, PartialEq, Eq, Hash)]
pub enum MBrick {
    Top,
    B { seq: BTreeSet<String>, min: u32, max: u32 },
}

#[derive(Clone, Debug, PartialEq, Eq, Hash)]
pub enum MBricks {
    Top,
    List(Vec<MBrick>),
}

fn show_brick(b: &MBrick) -> String {
    match b {
        MBrick::Top => "[T]".into(),
        MBrick::B { seq, min, max } => {
            let s: Vec<String> = seq.iter().map(|x| format!("{:?}", x)).collect();
            let mx = if *max == u32::MAX { "inf".to_string() } else { max.to_string() };
            format!("[{{{}}}]^({},{})", s.join(","), min, mx)
        }
    }
}

fn show(x: &MBricks) -> String {
    match x {
        MBricks::Top => "Top".into(),
        MBricks::List(l) => format!("<{}>", l.iter().map(show_brick).collect::<Vec<_>>().join(" ")),
    }
}

/// Build through the public constructor and setters (no serde needed).
fn build_brick(b: &MBrick) -> BrickDomain {
    match b {
        MBrick::Top => BrickDomain::Top,
        MBrick::B { seq, min, max } => {
            let mut bd = BrickDomain::new(String::new());
            if let BrickDomain::Value(inner) = &mut bd {
                inner.set_sequence(seq.clone());
                inner.set_min(*min);
                inner.set_max(*max);
            }
            bd
        }
    }
}

fn build(x: &MBricks) -> BricksDomain {
    match x {
        MBricks::Top => BricksDomain::Top,
        MBricks::List(l) => BricksDomain::Value(l.iter().map(build_brick).collect()),
    }
}

fn observe_brick(b: &BrickDomain) -> MBrick {
    match b {
        BrickDomain::Top => MBrick::Top,
        BrickDomain::Value(inner) => MBrick::B { seq: inner.get_sequence().clone(), min: inner.get_min(), max: inner.get_max() },
    }
}

fn observe(x: &BricksDomain) -> MBricks {
    match x {
        BricksDomain::Top => MBricks::Top,
        BricksDomain::Value(l) => MBricks::List(l.iter().map(observe_brick).collect()),
    }
}

// ---------------------------------------------------------------------------------------------
// Bounded languages over {a,b}, length <= 7

const LMAX: usize = 7;
const NSTR: usize = 255; // 2^8 - 1
type Lang = [u64; 4];

fn lang_has(l: &Lang, c: usize) -> bool {
    l[c >> 6] >> (c & 63) & 1 == 1
}
fn lang_set(l: &mut Lang, c: usize) {
    l[c >> 6] |= 1u64 << (c & 63);
}
fn lang_count(l: &Lang) -> u32 {
    l.iter().map(|w| w.count_ones()).sum()
}

/// code of a string over {a,b} with length <= 7: all shorter strings first.
fn code(s: &[u8]) -> Option<usize> {
    if s.len() > LMAX {
        return None;
    }
    let mut bits = 0usize;
    for c in s {
        bits = bits << 1
            | match c {
                b'a' => 0,
                b'b' => 1,
                _ => return None,
            };
    }
    Some((1usize << s.len()) - 1 + bits)
}

fn decode_code(c: usize) -> Vec<u8> {
    let mut len = 0;
    while (1usize << (len + 1)) - 1 <= c {
        len += 1;
    }
    let bits = c - ((1usize << len) - 1);
    (0..len).map(|i| if bits >> (len - 1 - i) & 1 == 1 { b'b' } else { b'a' }).collect()
}

fn code_len(c: usize) -> usize {
    let mut len = 0;
    while (1usize << (len + 1)) - 1 <= c {
        len += 1;
    }
    len
}

struct Universe {
    strs: Vec<Vec<u8>>,
    /// sub[w][i][j] = code of w[i..j] (j >= i)
    sub: Vec<[[u8; LMAX + 1]; LMAX + 1]>,
}

fn universe() -> &'static Universe {
    static U: std::sync::OnceLock<Universe> = std::sync::OnceLock::new();
    U.get_or_init(|| {
        let strs: Vec<Vec<u8>> = (0..NSTR).map(decode_code).collect();
        let mut sub = vec![[[0u8; LMAX + 1]; LMAX + 1]; NSTR];
        for (w, s) in strs.iter().enumerate() {
            assert_eq!(code(s), Some(w));
            for i in 0..=s.len() {
                for j in i..=s.len() {
                    sub[w][i][j] = code(&s[i..j]).unwrap() as u8;
                }
            }
        }
        Universe { strs, sub }
    })
}

enum CBrick {
    Top,
    B { set: Lang, min: u64, max: Option<u64> },
}

fn compile(l: &[MBrick]) -> Vec<CBrick> {
    l.iter()
        .map(|b| match b {
            MBrick::Top => CBrick::Top,
            MBrick::B { seq, min, max } => {
                let mut set = [0u64; 4];
                for s in seq {
                    if let Some(c) = code(s.as_bytes()) {
                        lang_set(&mut set, c);
                    }
                }
                CBrick::B { set, min: *min as u64, max: if *max == u32::MAX { None } else { Some(*max as u64) } }
            }
        })
        .collect()
}

/// Does the brick list match the string with code `w`? Position-set DP.
fn matches(cl: &[CBrick], w: usize, u: &Universe) -> bool {
    let n = u.strs[w].len();
    let sub = &u.sub[w];
    let mut p: u16 = 1; // set of positions reached so far
    for b in cl {
        if p == 0 {
            return false;
        }
        match b {
            CBrick::Top => {
                let low = p.trailing_zeros();
                p = (((1u32 << (n + 1)) - 1) as u16) & !(((1u32 << low) - 1) as u16);
            }
            CBrick::B { set, min, max } => {
                // reach[k] = positions after exactly k elements; saturates at k = n+1
                let sat = (n + 1) as u64;
                let hi = match max {
                    Some(m) => (*m).min(sat),
                    None => sat,
                };
                if let Some(m) = max {
                    if m < min {
                        return false; // empty repetition range: empty language
                    }
                }
                let lo = (*min).min(sat);
                let mut cur = p;
                let mut acc: u16 = 0;
                let mut k = 0u64;
                loop {
                    if k >= lo && k <= hi {
                        acc |= cur;
                    }
                    if k >= hi || cur == 0 {
                        break;
                    }
                    let mut next: u16 = 0;
                    let mut rest = cur;
                    while rest != 0 {
                        let i = rest.trailing_zeros() as usize;
                        rest &= rest - 1;
                        for j in i..=n {
                            if lang_has(set, sub[i][j] as usize) {
                                next |= 1 << j;
                            }
                        }
                    }
                    cur = next;
                    k += 1;
                }
                p = acc;
            }
        }
    }
    p >> n & 1 == 1
}

fn language(x: &MBricks) -> Lang {
    let u = universe();
    match x {
        MBricks::Top => {
            let mut l = [0u64; 4];
            for c in 0..NSTR {
                lang_set(&mut l, c);
            }
            l
        }
        MBricks::List(bl) => {
            let cl = compile(bl);
            let mut l = [0u64; 4];
            for w in 0..NSTR {
                if matches(&cl, w, u) {
                    lang_set(&mut l, w);
                }
            }
            l
        }
    }
}

fn lang_members(l: &Lang) -> Vec<usize> {
    (0..NSTR).filter(|c| lang_has(l, *c)).collect()
}

fn show_code(c: usize) -> String {
    format!("{:?}", String::from_utf8(decode_code(c)).unwrap())
}

/// first member of `a` missing in `b`
fn first_missing(a: &Lang, b: &Lang) -> Option<usize> {
    (0..NSTR).find(|c| lang_has(a, *c) && !lang_has(b, *c))
}

/// all concatenations uv (|uv| <= 7) of members
fn concat_lang(a: &Lang, b: &Lang) -> Lang {
    let mut out = [0u64; 4];
    let bm = lang_members(b);
    for cu in lang_members(a) {
        let lu = code_len(cu);
        let bu = cu - ((1 << lu) - 1);
        for cv in bm.iter() {
            let lv = code_len(*cv);
            if lu + lv > LMAX {
                break; // members are ordered by length
            }
            let bvv = cv - ((1 << lv) - 1);
            lang_set(&mut out, (1usize << (lu + lv)) - 1 + (bu << lv | bvv));
        }
    }
    out
}

// ---------------------------------------------------------------------------------------------
// Rewriting simulation of the five documented rules (routing and labels only)

pub enum Sim {
    Normal { list: Vec<MBrick>, fired: [u32; 5] },
    Cycle { fired: [u32; 5] },
    /// rule 4 would add the bounds of two unbounded bricks (out of scope, DESIGN §1 / F8)
    OverflowBothUnbounded,
}

fn power(seq: &BTreeSet<String>, k: u32) -> BTreeSet<String> {
    let mut cur: BTreeSet<String> = seq.clone();
    for _ in 1..k {
        let mut next = BTreeSet::new();
        for g in cur.iter() {
            for s in seq.iter() {
                next.insert(format!("{}{}", g, s));
            }
        }
        cur = next;
    }
    cur
}

/// One pass = the first applicable rule at the lowest index (per index: 1, 3, 5, then with the
/// successor 2, 4), repeated until nothing changes; a repeated state means the rules cycle.
pub fn simulate(input: &[MBrick]) -> Sim {
    let mut cur: Vec<MBrick> = input.to_vec();
    let mut seen: Vec<Vec<MBrick>> = vec![];
    let mut fired = [0u32; 5];
    loop {
        if seen.iter().any(|s| *s == cur) || seen.len() > 200 {
            return Sim::Cycle { fired };
        }
        seen.push(cur.clone());
        let mut changed = false;
        for i in 0..cur.len() {
            let (seq, min, max) = match &cur[i] {
                MBrick::Top => continue,
                MBrick::B { seq, min, max } => (seq.clone(), *min, *max),
            };
            if seq.is_empty() && min == 0 && max == 0 {
                cur.remove(i);
                fired[0] += 1;
                changed = true;
                break;
            }
            if min == max && min > 1 {
                cur[i] = MBrick::B { seq: power(&seq, min), min: 1, max: 1 };
                fired[2] += 1;
                changed = true;
                break;
            }
            if min >= 1 && max > min {
                cur[i] = MBrick::B { seq: power(&seq, min), min: 1, max: 1 };
                cur.insert(i + 1, MBrick::B { seq, min: 0, max: max - min });
                fired[4] += 1;
                changed = true;
                break;
            }
            if let Some(MBrick::B { seq: nseq, min: nmin, max: nmax }) = cur.get(i + 1).cloned() {
                if (min, max, nmin, nmax) == (1, 1, 1, 1) {
                    let mut prod = BTreeSet::new();
                    for a in seq.iter() {
                        for b in nseq.iter() {
                            prod.insert(format!("{}{}", a, b));
                        }
                    }
                    cur[i] = MBrick::B { seq: prod, min: 1, max: 1 };
                    cur.remove(i + 1);
                    fired[1] += 1;
                    changed = true;
                    break;
                } else if seq == nseq {
                    if max >= HUGE && nmax >= HUGE {
                        return Sim::OverflowBothUnbounded;
                    }
                    // an unbounded max plus a finite one wraps in the release build (known finding);
                    // mirror it so that the cycle prediction stays exact
                    let (m, mx) = (min.wrapping_add(nmin), max.wrapping_add(nmax));
                    cur[i] = MBrick::B { seq, min: m, max: mx };
                    cur.remove(i + 1);
                    fired[3] += 1;
                    changed = true;
                    break;
                }
            }
        }
        if !changed {
            return Sim::Normal { list: cur, fired };
        }
    }
}

/// bounds from here on count as "unbounded" when looking for traces of a u32 wrap
const HUGE: u32 = 1 << 31;

/// Trace of a u32 wrap in rule 4: for some content T the result holds fewer bricks with content T
/// and a huge bound than the input. No correct rewriting can remove an unbounded brick (rule 4 only
/// adds to its bounds, rule 5 only splits a finite prefix off) except by merging two unbounded
/// bricks of equal content, which is the out-of-scope class and does not change the language.
fn unbounded_brick_lost(input: &[MBrick], out: &MBricks) -> bool {
    let outl = match out {
        MBricks::Top => return false,
        MBricks::List(l) => l,
    };
    let count = |l: &[MBrick], t: &BTreeSet<String>| l.iter().filter(|o| matches!(o, MBrick::B { seq, max, .. } if seq == t && *max >= HUGE)).count();
    input.iter().any(|b| match b {
        MBrick::B { seq, max, .. } if *max >= HUGE => count(outl, seq) < count(input, seq),
        _ => false,
    })
}

/// Upper bound on the number of strings any brick can hold during normalization.
fn weight(l: &[MBrick]) -> f64 {
    let mut w = 1f64;
    for b in l {
        if let MBrick::B { seq, min, .. } = b {
            if *min >= 1 {
                w *= (seq.len().max(1) as f64).powi(*min as i32);
            }
        }
    }
    w
}
const MAX_WEIGHT: f64 = 30000.0;

// ---------------------------------------------------------------------------------------------
// Watchdog for non-returning calls of the normalization loop.
//
// Calls run directly on the shard thread (a thread hand-off per call costs milliseconds on a loaded
// machine) under a heartbeat: a monitor thread reports a call that has not returned after
// `WATCHDOG_SECS` as a violation (replay file, VIOLATION line, exit 1) itself, because a thread
// stuck inside the code under test can never hand a verdict to the engine. The signature says
// whether the rule simulation predicted the rule-5/rule-4 cycle for the input of the stuck call.

pub const SIG_HANG_UNPREDICTED: &str = "C06:normalization-does-not-return:not-a-rule5-rule4-cycle";
const WATCHDOG_SECS: u64 = 45;

struct CaseInfo {
    section: &'static str,
    tape: Option<Vec<u8>>,
    index: Option<u64>,
    describe: fn(Option<&[u8]>, Option<u64>) -> String,
}

struct Slot {
    started_ms: AtomicU64,
    predicted_cycle: AtomicBool,
    case: Mutex<Option<CaseInfo>>,
}

const NSLOTS: usize = 256;
static SLOTS: [Slot; NSLOTS] = [const { Slot { started_ms: AtomicU64::new(0), predicted_cycle: AtomicBool::new(false), case: Mutex::new(None) } }; NSLOTS];
static NEXT_SLOT: AtomicUsize = AtomicUsize::new(0);
static T0: std::sync::OnceLock<std::time::Instant> = std::sync::OnceLock::new();
/// (seed, tier, replay path if replaying)
static RUN_INFO: Mutex<Option<(u64, String, Option<String>)>> = Mutex::new(None);

thread_local! {
    static MY_SLOT: usize = NEXT_SLOT.fetch_add(1, Ordering::SeqCst) % NSLOTS;
}

fn now_ms() -> u64 {
    T0.get_or_init(std::time::Instant::now).elapsed().as_millis() as u64 + 1
}

fn begin_case(section: &'static str, tape: Option<&[u8]>, index: Option<u64>, describe: fn(Option<&[u8]>, Option<u64>) -> String) {
    MY_SLOT.with(|i| {
        *SLOTS[*i].case.lock().unwrap_or_else(|e| e.into_inner()) = Some(CaseInfo { section, tape: tape.map(|t| t.to_vec()), index, describe });
    });
}

/// Run code under test directly, under the heartbeat.
fn cut_with_heartbeat<T>(predicted_cycle: bool, f: impl FnOnce() -> T) -> Result<T, Failure> {
    MY_SLOT.with(|i| {
        SLOTS[*i].predicted_cycle.store(predicted_cycle, Ordering::SeqCst);
        SLOTS[*i].started_ms.store(now_ms(), Ordering::SeqCst)
    });
    let r = cut(f);
    MY_SLOT.with(|i| SLOTS[*i].started_ms.store(0, Ordering::SeqCst));
    r
}

fn start_monitor(eng: &Engine) {
    let replay_path = match &eng.mode {
        crate::engine::Mode::Replay { path, .. } => Some(path.clone()),
        _ => None,
    };
    *RUN_INFO.lock().unwrap_or_else(|e| e.into_inner()) = Some((eng.seed, eng.tier.name().to_string(), replay_path));
    static STARTED: AtomicBool = AtomicBool::new(false);
    if STARTED.swap(true, Ordering::SeqCst) {
        return;
    }
    let _ = now_ms();
    std::thread::spawn(|| {
        // (start stamp, time of first sighting) of calls seen over the limit: a call is reported only if
        // the very same call is still running 2 s after it was first seen over the limit (a paused
        // process would otherwise look like a hang)
        let mut suspect: Vec<(u64, u64)> = vec![(0, 0); NSLOTS];
        loop {
        std::thread::sleep(std::time::Duration::from_millis(500));
        let now = now_ms();
        for (si, slot) in SLOTS.iter().enumerate() {
            let st = slot.started_ms.load(Ordering::SeqCst);
            if st == 0 || now <= st + WATCHDOG_SECS * 1000 {
                continue;
            }
            if suspect[si].0 != st {
                suspect[si] = (st, now);
                continue;
            }
            if now > suspect[si].1 + 2000 {
                let guard = slot.case.lock().unwrap_or_else(|e| e.into_inner());
                let (seed, tier, replay_path) = RUN_INFO.lock().unwrap_or_else(|e| e.into_inner()).clone().unwrap_or((0, String::new(), None));
                let (section, tape, index, case) = match guard.as_ref() {
                    Some(c) => (c.section, c.tape.clone(), c.index, (c.describe)(c.tape.as_deref(), c.index)),
                    None => ("?", None, None, String::new()),
                };
                let predicted = slot.predicted_cycle.load(Ordering::SeqCst);
                let sig = if predicted { SIG_NONTERM } else { SIG_HANG_UNPREDICTED };
                let detail = if predicted {
                    format!(
                        "a call of normalize/merge has not returned after {} s (normal duration: microseconds); the documented rules 5 and 4 undo each other on a list of this case (rule-5/rule-4 cycle predicted by the rule simulation)",
                        WATCHDOG_SECS
                    )
                } else {
                    format!(
                        "a call of normalize/merge has not returned after {} s (normal duration: microseconds) although the rule simulation predicts a normal form for its input; this is not the known rule-5/rule-4 cycle",
                        WATCHDOG_SECS
                    )
                };
                let path = match replay_path {
                    Some(p) => p,
                    None => {
                        let dir = format!("{}/replays/C06", crate::engine::verif_dir());
                        let _ = std::fs::create_dir_all(&dir);
                        let h = fnv(format!("{}|{}|{:?}|{:?}", section, sig, tape.as_deref().map(crate::tape::hex), index).as_bytes());
                        let path = format!("{}/{}-{:016x}.json", dir, section.replace(|c: char| !c.is_ascii_alphanumeric(), "_"), h);
                        let v = serde_json::json!({
                            "property": "C06", "section": section, "tape": tape.as_deref().map(crate::tape::hex), "index": index,
                            "signature": sig, "detail": detail, "case": case, "seed": seed, "tier": tier,
                        });
                        let _ = std::fs::write(&path, serde_json::to_string_pretty(&v).unwrap());
                        path
                    }
                };
                eprintln!("--- violation in section {}: [{}]\n{}\ncase: {}", section, sig, detail, case);
                println!("VIOLATION property=C06 replay={}", path);
                println!("  section={} signature={}", section, sig);
                std::process::exit(1);
            }
        }
        }
    });
}

// ---------------------------------------------------------------------------------------------
// Checked operations

/// Route a normalize-like call (`normalize` itself or `merge`, which normalizes the widened list
/// `pre`). Returns `Ok(None)` if the case was skipped (out of scope / open known finding).
fn routed<T: Send + 'static>(
    pre: &[MBrick],
    what: &str,
    describe: &dyn Fn() -> String,
    ctx: &mut Ctx,
    call: impl FnOnce() -> T + Send + 'static,
) -> Result<Option<(T, Sim)>, Failure> {
    if weight(pre) > MAX_WEIGHT {
        ctx.label("skipped:too-heavy");
        return Ok(None);
    }
    let sim = simulate(pre);
    match sim {
        Sim::OverflowBothUnbounded => {
            ctx.label("skipped:two-unbounded-bricks-added-in-rule4(out-of-scope)");
            Ok(None)
        }
        Sim::Cycle { .. } => {
            ctx.label("predicted-rule-cycle");
            if ctx.is_known(SIG_NONTERM) {
                ctx.report(SIG_NONTERM, format!("{} of {} is predicted not to terminate (call skipped)", what, describe()))?;
                return Ok(None);
            }
            match cut_with_heartbeat(true, call) {
                Ok(v) => {
                    ctx.label("predicted-rule-cycle-but-returned");
                    Ok(Some((v, sim)))
                }
                Err(f) => {
                    ctx.report(f.signature, format!("{} of {}: {}", what, describe(), f.detail))?;
                    Ok(None)
                }
            }
        }
        Sim::Normal { .. } => match cut_with_heartbeat(false, call) {
            Ok(v) => Ok(Some((v, sim))),
            Err(f) => {
                ctx.report(f.signature, format!("{} of {}: {}", what, describe(), f.detail))?;
                Ok(None)
            }
        },
    }
}

struct NormInfo {
    changed: bool,
}

fn check_normalize(x: &[MBrick], ctx: &mut Ctx) -> Result<Option<NormInfo>, Failure> {
    let xs = MBricks::List(x.to_vec());
    let real = build(&xs);
    let d = || show(&MBricks::List(x.to_vec()));
    let (out, sim) = match routed(x, "normalize", &d, ctx, move || observe(&real.normalize()))? {
        Some(r) => r,
        None => return Ok(None),
    };
    let lx = language(&xs);
    let lo = language(&out);
    if lx != lo {
        let (w, dir) = match first_missing(&lx, &lo) {
            Some(w) => (w, "lost"),
            None => (first_missing(&lo, &lx).unwrap(), "gained"),
        };
        let sig = if unbounded_brick_lost(x, &out) { SIG_WRAP.to_string() } else { format!("C06:normalize-changes-language:{}", dir) };
        ctx.report(
            sig,
            format!("normalize({}) = {}: string {} {} (|L7| {} -> {})", show(&xs), show(&out), show_code(w), dir, lang_count(&lx), lang_count(&lo)),
        )?;
    }
    // `u32::MAX` is the marker for "unbounded repetitions" (what widening emits): the strings up to length 7 cannot
    // tell it from a huge finite bound, so it is compared exactly: a list whose language is infinite because of an
    // unbounded brick keeps an unbounded brick.
    let infinite = |l: &MBricks| match l {
        MBricks::Top => true,
        MBricks::List(v) => v.iter().any(|b| matches!(b, MBrick::B { seq, max, .. } if *max == u32::MAX && seq.iter().any(|x| !x.is_empty()))),
    };
    if infinite(&xs) && !infinite(&out) {
        ctx.report(
            "C06:normalize-changes-language:unbounded-repetition-became-bounded",
            format!("normalize({}) = {}: the input repeats a non-empty string without bound (max = u32::MAX), the result has only finite bounds", show(&xs), show(&out)),
        )?;
    }
    if infinite(&xs) {
        ctx.label("normalize:input-with-unbounded-brick");
    }
    if let Sim::Normal { list, fired } = &sim {
        for (i, n) in fired.iter().enumerate() {
            if *n > 0 {
                ctx.label(&format!("normalize:rule{}-fired", i + 1));
            }
        }
        if MBricks::List(list.clone()) == out {
            ctx.label("normalize:simulation-agrees");
        } else {
            ctx.label("normalize:simulation-differs(measured-only)");
        }
    }
    let changed = out != xs;
    if changed {
        ctx.label("normalize:changes-the-list");
    }
    Ok(Some(NormInfo { changed }))
}

fn check_superset(what: &str, sig: &str, need: &Lang, res: &MBricks, inputs: &str, ctx: &mut Ctx) -> CaseResult {
    let lr = language(res);
    if let Some(w) = first_missing(need, &lr) {
        ctx.report(sig.to_string(), format!("{}({}) = {} does not contain {}", what, inputs, show(res), show_code(w)))?;
    }
    Ok(())
}

fn union(a: &Lang, b: &Lang) -> Lang {
    [a[0] | b[0], a[1] | b[1], a[2] | b[2], a[3] | b[3]]
}

fn has_unbounded(x: &MBricks) -> bool {
    matches!(x, MBricks::List(l) if l.iter().any(|b| matches!(b, MBrick::B { max, .. } if *max == u32::MAX)))
}
fn has_top_brick(x: &MBricks) -> bool {
    matches!(x, MBricks::List(l) if l.iter().any(|b| matches!(b, MBrick::Top)))
}

fn check_pair(x: &MBricks, y: &MBricks, ctx: &mut Ctx) -> CaseResult {
    let lx = language(x);
    let ly = language(y);
    let both = format!("{}, {}", show(x), show(y));
    let mut nontrivial = false;
    // normalize
    for v in [x, y] {
        if let MBricks::List(l) = v {
            if let Some(info) = check_normalize(l, ctx)? {
                nontrivial |= info.changed;
            }
        }
    }
    // append
    {
        let (rx, ry) = (build(x), build(y));
        if let Some(r) = ctx.cut(|| observe(&rx.append_string_domain(&ry)))? {
            let need = concat_lang(&lx, &ly);
            check_superset("append", "C06:append-misses-a-concatenation", &need, &r, &both, ctx)?;
        }
    }
    let need = union(&lx, &ly);
    // widen (lists; both non-Top)
    let mut widened: Option<MBricks> = None;
    if let (MBricks::List(a), MBricks::List(b)) = (x, y) {
        let (rx, ry) = (build(x), build(y));
        if let Some(r) = ctx.cut(|| observe(&rx.widen(&ry)))? {
            check_superset("widen", "C06:widen-misses-a-member", &need, &r, &both, ctx)?;
            if r == MBricks::Top {
                ctx.label("widen:result-Top");
            } else {
                ctx.label("widen:result-list");
                if a.len() != b.len() {
                    ctx.label("widen:padding-path(non-Top)");
                    nontrivial = true;
                }
                if has_unbounded(&r) && !has_unbounded(x) && !has_unbounded(y) {
                    ctx.label("widen:interval-threshold");
                    nontrivial = true;
                }
                if has_top_brick(&r) && !has_top_brick(x) && !has_top_brick(y) {
                    ctx.label("widen:sequence-threshold");
                    nontrivial = true;
                }
            }
            widened = Some(r);
        }
    }
    // merge (both orders)
    let mut merge_list = false;
    for (p, q, names) in [(x, y, &both), (y, x, &format!("{}, {}", show(y), show(x)))] {
        let (rp, rq) = (build(p), build(q));
        let mut wrap_trace = false;
        let res: Option<MBricks> = if p == q || *p == MBricks::Top || *q == MBricks::Top {
            // documented shortcuts: Top if either is Top, the value itself if both are equal
            ctx.cut(move || observe(&rp.merge(&rq)))?
        } else {
            // merge = widen, then normalize the widened list
            let pre = if std::ptr::eq(p, x) {
                widened.clone()
            } else {
                let (a, b) = (build(p), build(q));
                ctx.cut(|| observe(&a.widen(&b)))?
            };
            match pre {
                None => None,
                Some(MBricks::Top) => ctx.cut(move || observe(&rp.merge(&rq)))?,
                Some(MBricks::List(pre)) => {
                    let d = || format!("merge({}) [widened list {}]", names, show(&MBricks::List(pre.clone())));
                    let r = routed(&pre, "normalization inside merge", &d, ctx, move || observe(&rp.merge(&rq)))?.map(|(r, _)| r);
                    if let Some(r) = &r {
                        if unbounded_brick_lost(&pre, r) {
                            wrap_trace = true;
                        }
                    }
                    r
                }
            }
        };
        if let Some(r) = res {
            let sig = if wrap_trace { SIG_WRAP } else { "C06:merge-misses-a-member" };
            check_superset("merge", sig, &need, &r, names, ctx)?;
            if r != MBricks::Top {
                merge_list = true;
            }
        }
    }
    if merge_list {
        ctx.label("merge:result-list");
    }
    // single bricks: first brick of each list
    if let (MBricks::List(a), MBricks::List(b)) = (x, y) {
        if let (Some(ba), Some(bb)) = (a.first(), b.first()) {
            check_brick_pair(ba, bb, ctx)?;
        }
    }
    if nontrivial {
        ctx.nontrivial(fnv(both.as_bytes()));
    }
    Ok(())
}

fn check_brick_pair(ba: &MBrick, bb: &MBrick, ctx: &mut Ctx) -> CaseResult {
    let la = language(&MBricks::List(vec![ba.clone()]));
    let lb = language(&MBricks::List(vec![bb.clone()]));
    let need = union(&la, &lb);
    let names = format!("{}, {}", show_brick(ba), show_brick(bb));
    let (ra, rb) = (build_brick(ba), build_brick(bb));
    if let Some(r) = ctx.cut(|| observe_brick(&ra.merge(&rb)))? {
        check_superset("BrickDomain::merge", "C06:brick-merge-misses-a-member", &need, &MBricks::List(vec![r]), &names, ctx)?;
    }
    if *ba != MBrick::Top && *bb != MBrick::Top {
        if let Some(r) = ctx.cut(|| observe_brick(&ra.widen(&rb)))? {
            if let MBrick::B { max, .. } = &r {
                if *max == u32::MAX && !matches!(ba, MBrick::B { max, .. } if *max == u32::MAX) && !matches!(bb, MBrick::B { max, .. } if *max == u32::MAX) {
                    ctx.label("brick-widen:interval-threshold");
                }
            }
            if r == MBrick::Top {
                ctx.label("brick-widen:sequence-threshold");
            }
            check_superset("BrickDomain::widen", "C06:brick-widen-misses-a-member", &need, &MBricks::List(vec![r]), &names, ctx)?;
        }
    }
    Ok(())
}

// ---------------------------------------------------------------------------------------------
// Generators

const POOL: [&str; 6] = ["a", "b", "ab", "", "ba", "aa"];
const POOL2: [&str; 12] = ["a", "b", "ab", "", "ba", "aa", "bb", "aab", "abb", "bab", "bba", "aaa"];

fn decode_brick(t: &mut Tape) -> MBrick {
    let sel = t.byte();
    if sel >= 230 {
        return MBrick::Top;
    }
    let mut seq = BTreeSet::new();
    if sel >= 205 {
        // many elements: reaches the sequence threshold (8) in unions
        let n = 3 + t.below(9);
        for _ in 0..n {
            seq.insert(t.choose(&POOL2).to_string());
        }
    } else {
        let n = t.below(4);
        for _ in 0..n {
            seq.insert(t.choose(&POOL).to_string());
        }
    }
    let shape = t.byte();
    let (min, max) = if shape >= 236 {
        (0, u32::MAX) // what widening emits
    } else if shape >= 216 {
        (0, 9 + t.below(4) as u32) // wide interval: reaches the interval threshold (8)
    } else {
        let min = t.below(4) as u32;
        (min, min + t.below(4) as u32)
    };
    MBrick::B { seq, min, max }
}

/// keep the number of strings normalization can create small (sum of mins and product bound)
fn tame(l: &mut Vec<MBrick>) {
    // never two adjacent unbounded bricks with equal content (DESIGN §1)
    for i in 1..l.len() {
        let prev = l[i - 1].clone();
        if let (MBrick::B { seq: s1, max: m1, .. }, MBrick::B { seq: s2, max: m2, .. }) = (&prev, &mut l[i]) {
            if *m1 == u32::MAX && *m2 == u32::MAX && s1 == s2 {
                *m2 = 9;
            }
        }
    }
    loop {
        let summin: u32 = l.iter().map(|b| if let MBrick::B { min, .. } = b { *min } else { 0 }).sum();
        if summin <= 6 && weight(l) <= 800.0 {
            return;
        }
        // lower the largest min (last one among equals)
        let mut best: Option<usize> = None;
        for (i, b) in l.iter().enumerate() {
            if let MBrick::B { min, .. } = b {
                if *min > 0 && best.map(|j| if let MBrick::B { min: mj, .. } = &l[j] { *min >= *mj } else { true }).unwrap_or(true) {
                    best = Some(i);
                }
            }
        }
        match best {
            Some(i) => {
                if let MBrick::B { min, .. } = &mut l[i] {
                    *min -= 1;
                }
            }
            None => return,
        }
    }
}

fn decode_list(t: &mut Tape) -> MBricks {
    if t.prob(20) {
        return MBricks::Top;
    }
    let n = t.below(5);
    let mut l: Vec<MBrick> = (0..n).map(|_| decode_brick(t)).collect();
    tame(&mut l);
    MBricks::List(l)
}

/// y derived from x so that the pair is often comparable: grow bricks, drop / insert bricks.
fn decode_variant(x: &[MBrick], t: &mut Tape) -> MBricks {
    let mut l = vec![];
    for b in x {
        let what = t.below(8);
        match what {
            0 | 1 | 2 => l.push(b.clone()),
            3 => {} // dropped: padding path
            4 | 5 => {
                // grown: more elements, wider bounds
                match b {
                    MBrick::Top => l.push(MBrick::Top),
                    MBrick::B { seq, min, max } => {
                        let mut s = seq.clone();
                        if seq.len() >= 4 {
                            for _ in 0..t.below(7) {
                                s.insert(t.choose(&POOL2).to_string());
                            }
                        } else {
                            for _ in 0..t.below(3) {
                                s.insert(t.choose(&POOL).to_string());
                            }
                        }
                        let nmin = min.saturating_sub(t.below(3) as u32);
                        let nmax = if *max == u32::MAX { *max } else { max + t.below(3) as u32 };
                        l.push(MBrick::B { seq: s, min: nmin, max: nmax });
                    }
                }
            }
            6 => {
                l.push(b.clone());
                l.push(decode_brick(t)); // inserted
            }
            _ => l.push(decode_brick(t)), // replaced
        }
    }
    if l.len() > 4 {
        l.truncate(4);
    }
    tame(&mut l);
    MBricks::List(l)
}

fn decode_pair(t: &mut Tape) -> (MBricks, MBricks) {
    let x = decode_list(t);
    let y = match &x {
        MBricks::List(l) if t.prob(150) => decode_variant(l, t),
        _ => decode_list(t),
    };
    if t.flag() {
        (y, x)
    } else {
        (x, y)
    }
}

// reduced brick universe for the exhaustive normalize section
fn small_bricks() -> Vec<MBrick> {
    let seqs: [&[&str]; 7] = [&[], &["a"], &["b"], &["a", "b"], &[""], &["", "a"], &["ab"]];
    let bounds: [(u32, u32); 9] = [(0, 0), (0, 1), (0, 2), (1, 1), (1, 2), (2, 2), (1, 3), (2, 3), (0, u32::MAX)];
    let mut v = vec![MBrick::Top];
    for s in seqs {
        for (m, mx) in bounds {
            v.push(MBrick::B { seq: s.iter().map(|x| x.to_string()).collect(), min: m, max: mx });
        }
    }
    v
}

fn small_list(univ: &[MBrick], mut i: u64) -> Vec<MBrick> {
    // lists of length 0..=3 in length order
    let n = univ.len() as u64;
    let mut len = 0;
    let mut block = 1u64;
    while i >= block {
        i -= block;
        block *= n;
        len += 1;
    }
    let mut l = vec![];
    for _ in 0..len {
        l.push(univ[(i % n) as usize].clone());
        i /= n;
    }
    l
}

// exhaustive single-brick universe
fn brick_universe() -> Vec<MBrick> {
    let elems = ["", "a", "b", "ab"];
    let mut v = vec![MBrick::Top];
    for mask in 0..16u32 {
        let seq: BTreeSet<String> = (0..4).filter(|i| mask >> i & 1 == 1).map(|i| elems[i].to_string()).collect();
        for min in 0..3u32 {
            for d in 0..3u32 {
                v.push(MBrick::B { seq: seq.clone(), min, max: min + d });
            }
        }
        v.push(MBrick::B { seq: seq.clone(), min: 0, max: 10 });
        v.push(MBrick::B { seq, min: 0, max: u32::MAX });
    }
    // large element sets: unions exceed the sequence threshold
    for big in [["a", "b", "ab", "ba", "aa"], ["bb", "aab", "abb", "bab", "bba"], ["a", "bb", "aaa", "abb", "bab"]] {
        for (min, max) in [(0u32, 1u32), (1, 1), (1, 2)] {
            v.push(MBrick::B { seq: big.iter().map(|x| x.to_string()).collect(), min, max });
        }
    }
    v
}

// ---------------------------------------------------------------------------------------------
// Character inclusion domain

#[derive(Clone, Debug, PartialEq, Eq)]
enum MCi {
    Top,
    /// certain set (bit mask over a,b,c), possible set (None = Top)
    V(u8, Option<u8>),
}

fn ci_universe() -> Vec<MCi> {
    let mut v = vec![MCi::Top];
    for p in 0..8u8 {
        for c in 0..8u8 {
            if c & !p == 0 {
                v.push(MCi::V(c, Some(p)));
            }
        }
    }
    for c in 0..8u8 {
        v.push(MCi::V(c, None));
    }
    v
}

fn mask_set(m: u8) -> BTreeSet<char> {
    ['a', 'b', 'c'].iter().enumerate().filter(|(i, _)| m >> i & 1 == 1).map(|(_, c)| *c).collect()
}

fn build_ci(x: &MCi) -> CharacterInclusionDomain {
    match x {
        MCi::Top => CharacterInclusionDomain::Top,
        MCi::V(c, p) => CharacterInclusionDomain::Value((
            CharacterSet::Value(mask_set(*c)),
            match p {
                Some(p) => CharacterSet::Value(mask_set(*p)),
                None => CharacterSet::Top,
            },
        )),
    }
}

/// observed result: sets as sets of chars (no restriction to the alphabet)
#[derive(Debug, Clone)]
enum OCi {
    Top,
    V(Option<BTreeSet<char>>, Option<BTreeSet<char>>),
}

fn observe_ci(x: &CharacterInclusionDomain) -> OCi {
    let s = |c: &CharacterSet| match c {
        CharacterSet::Top => None,
        CharacterSet::Value(v) => Some(v.clone()),
    };
    match x {
        CharacterInclusionDomain::Top => OCi::Top,
        CharacterInclusionDomain::Value((c, p)) => OCi::V(s(c), s(p)),
    }
}

/// membership of a concrete string: every certain character occurs, every character is possible
fn ci_member(x: &OCi, w: &str) -> bool {
    match x {
        OCi::Top => true,
        OCi::V(c, p) => {
            let certain_ok = match c {
                None => false, // "all characters certainly occur": no finite string over a larger alphabet does
                Some(c) => c.iter().all(|ch| w.contains(*ch)),
            };
            let possible_ok = match p {
                None => true,
                Some(p) => w.chars().all(|ch| p.contains(&ch)),
            };
            certain_ok && possible_ok
        }
    }
}

fn ci_input(x: &MCi) -> OCi {
    match x {
        MCi::Top => OCi::Top,
        MCi::V(c, p) => OCi::V(Some(mask_set(*c)), p.map(mask_set)),
    }
}

fn ci_strings() -> &'static Vec<String> {
    static S: std::sync::OnceLock<Vec<String>> = std::sync::OnceLock::new();
    S.get_or_init(|| {
        let mut v = vec![String::new()];
        let mut start = 0;
        for _ in 0..4 {
            let end = v.len();
            for i in start..end {
                for c in ['a', 'b', 'c', 'd'] {
                    let mut s = v[i].clone();
                    s.push(c);
                    v.push(s);
                }
            }
            start = end;
        }
        v
    })
}

fn check_ci_pair(x: &MCi, y: &MCi, ctx: &mut Ctx) -> CaseResult {
    let strs = ci_strings();
    let (ix, iy) = (ci_input(x), ci_input(y));
    let mx: Vec<&String> = strs.iter().filter(|w| ci_member(&ix, w)).collect();
    let my: Vec<&String> = strs.iter().filter(|w| ci_member(&iy, w)).collect();
    let (rx, ry) = (build_ci(x), build_ci(y));
    let mut n = 0u64;
    if let Some(app) = ctx.cut(|| observe_ci(&rx.append_string_domain(&ry)))? {
        'outer: for u in mx.iter() {
            for v in my.iter() {
                let uv = format!("{}{}", u, v);
                n += 1;
                if !ci_member(&app, &uv) {
                    ctx.report(
                        "C06:ci-append-misses-a-concatenation".to_string(),
                        format!("append({:?}, {:?}) = {:?} does not contain {:?} = {:?} + {:?}", x, y, app, uv, u, v),
                    )?;
                    break 'outer;
                }
            }
        }
    }
    if let Some(m) = ctx.cut(|| observe_ci(&rx.merge(&ry)))? {
        for w in mx.iter().chain(my.iter()) {
            n += 1;
            if !ci_member(&m, w) {
                ctx.report("C06:ci-merge-misses-a-member".to_string(), format!("merge({:?}, {:?}) = {:?} does not contain {:?}", x, y, m, w))?;
                break;
            }
        }
    }
    ctx.label_n("ci:member-checks", n);
    if !mx.is_empty() && !my.is_empty() {
        ctx.nontrivial_by_construction(1);
    }
    Ok(())
}

// ---------------------------------------------------------------------------------------------

/// Self-test of the matcher on the examples of the module documentation (a panic here is a
/// harness bug, exit 2).
fn self_test() {
    let b = |seq: &[&str], min: u32, max: u32| MBrick::B { seq: seq.iter().map(|s| s.to_string()).collect(), min, max };
    let lang_of = |l: Vec<MBrick>| -> Vec<String> { lang_members(&language(&MBricks::List(l))).into_iter().map(|c| String::from_utf8(decode_code(c)).unwrap()).collect() };
    // [{"mo","de"}]^{1,2} = {mo, de, momo, dede, mode, demo} (with mo := ab, de := ba)
    let mut got = lang_of(vec![b(&["ab", "ba"], 1, 2)]);
    got.sort();
    assert_eq!(got, vec!["ab", "abab", "abba", "ba", "baab", "baba"]);
    // [{a,b}]^{2,2} = {aa, ab, ba, bb}; [{a}]^{2,5} = {aa, .., aaaaa}
    assert_eq!(lang_of(vec![b(&["a", "b"], 2, 2)]), vec!["aa", "ab", "ba", "bb"]);
    assert_eq!(lang_of(vec![b(&["a"], 2, 5)]), vec!["aa", "aaa", "aaaa", "aaaaa"]);
    // concatenation, empty string brick, unbounded, Top
    assert_eq!(lang_of(vec![b(&["a"], 1, 1), b(&[], 0, 0), b(&["b"], 0, 1)]), vec!["a", "ab"]);
    assert_eq!(lang_of(vec![]), vec![""]);
    assert_eq!(lang_of(vec![b(&[], 1, 1)]), Vec::<String>::new());
    assert_eq!(lang_of(vec![b(&["ab"], 0, u32::MAX)]), vec!["", "ab", "abab", "ababab"]);
    assert_eq!(lang_of(vec![b(&["", "ab"], 3, 3)]), vec!["", "ab", "abab", "ababab"]);
    assert_eq!(lang_of(vec![b(&["a"], 1, 1), MBrick::Top]).len(), 127);
    assert_eq!(lang_of(vec![MBrick::Top, b(&["ab"], 1, 1)]).len(), 1 + 2 + 4 + 8 + 16 + 32);
    assert_eq!(lang_members(&language(&MBricks::Top)).len(), 255);
    let c = concat_lang(&language(&MBricks::List(vec![b(&["a", "ab"], 1, 1)])), &language(&MBricks::List(vec![b(&["b", ""], 1, 1)])));
    let mut cs: Vec<String> = lang_members(&c).into_iter().map(|x| String::from_utf8(decode_code(x)).unwrap()).collect();
    cs.sort();
    assert_eq!(cs, vec!["a", "ab", "abb"]);
    // character inclusion membership
    let v = OCi::V(Some(mask_set(0b001)), Some(mask_set(0b011)));
    assert!(ci_member(&v, "ab") && ci_member(&v, "a") && !ci_member(&v, "b") && !ci_member(&v, "ac") && !ci_member(&v, ""));
    assert!(ci_member(&OCi::V(Some(mask_set(0)), None), "dd") && ci_member(&OCi::Top, "d"));
    assert_eq!(ci_strings().len(), 341);
}

pub fn run(eng: &mut Engine) {
    self_test();
    start_monitor(eng);
    eng.rule = "bricks: pair of brick lists (0..4 bricks; element sets from {\"\",a,b,ab,ba,aa,...}; min 0..3, max min..min+3, occasionally 0..9-12 or 0..unbounded; brick/list Top; second list often a grown/shrunk variant of the first) decoded from a byte tape, languages compared on all 255 strings over {a,b} up to length 7; non-trivial = normalize changes a list, or lists of different length are merged via padding without collapsing to Top, or a widening threshold fires; distinct by hash of the pair. Exhaustive sections: all lists of <= 3 bricks over a 64-brick universe (normalize), all pairs over a 186-brick universe (brick merge/widen), all 36x36 character-inclusion pairs.".into();
    eng.assumptions = vec![
        "normalize and widen are only called on non-Top lists, BrickDomain::widen only on non-Top bricks (they unwrap)".into(),
        "brick semantics: [S]^{m,M} = concatenations of k in [m,M] elements of S; max = u32::MAX means unbounded; empty S with m = 0 contributes the empty string".into(),
        "two adjacent unbounded (u32::MAX) bricks with equal content are out of scope (DESIGN §1, F8): never generated adjacent, and lists on which rule 4 would add two unbounded bounds are recognised by the rule simulation and skipped; an unbounded bound plus a FINITE one is in scope (widening emits such lists) and its u32 wrap is reported under its own signature".into(),
        "lists whose normalization can create more than 30000 strings in one brick are skipped (small repetition bounds)".into(),
        "character inclusion: certain ⊆ possible, certain is never Top (not constructible through the API)".into(),
        "non-termination is reported only when a real call of normalize/merge did not return within 8 s (normal duration: microseconds): calls predicted to cycle run on a watchdog thread, all others under a heartbeat monitor; the two classes have different signatures".into(),
    ];
    // 1. exhaustive: character inclusion pairs
    {
        let univ = ci_universe();
        let n = univ.len() as u64;
        eng.enumerate(
            "ci-all-pairs",
            n * n,
            true,
            |i, ctx| {
                let (x, y) = (&univ[(i / n) as usize], &univ[(i % n) as usize]);
                if i % 97 == 3 {
                    ctx.sample(|| format!("{:?} / {:?}", x, y));
                }
                match (x, y) {
                    (MCi::Top, _) | (_, MCi::Top) => ctx.label("ci:with-Top"),
                    (MCi::V(_, None), _) | (_, MCi::V(_, None)) => ctx.label("ci:possible-Top"),
                    _ => ctx.label("ci:both-finite"),
                }
                check_ci_pair(x, y, ctx)
            },
            |i| format!("{:?} / {:?}", univ[(i / n) as usize], univ[(i % n) as usize]),
        );
    }
    // 2. exhaustive: single brick pairs
    {
        let univ = brick_universe();
        let n = univ.len() as u64;
        eng.enumerate(
            "brick-pairs-exhaustive",
            n * n,
            true,
            |i, ctx| {
                let (x, y) = (&univ[(i / n) as usize], &univ[(i % n) as usize]);
                ctx.nontrivial_by_construction(1);
                if i % 3001 == 17 {
                    ctx.sample(|| format!("{} / {}", show_brick(x), show_brick(y)));
                }
                check_brick_pair(x, y, ctx)
            },
            |i| format!("{} / {}", show_brick(&univ[(i / n) as usize]), show_brick(&univ[(i % n) as usize])),
        );
    }
    // 3. exhaustive: normalize on all short lists over the reduced universe
    {
        let univ = small_bricks();
        let n = univ.len() as u64;
        let maxlen = eng.tier.pick(3u32, 3u32);
        let total: u64 = (0..=maxlen).map(|k| n.pow(k)).sum();
        eng.enumerate(
            "normalize-small-lists-exhaustive",
            total,
            true,
            |i, ctx| {
                let l = small_list(&univ, i);
                begin_case("normalize-small-lists-exhaustive", None, Some(i), |_, i| show(&MBricks::List(small_list(&small_bricks(), i.unwrap_or(0)))));
                if i % 9973 == 11 {
                    ctx.sample(|| show(&MBricks::List(l.clone())));
                }
                if let Some(info) = check_normalize(&l, ctx)? {
                    if info.changed {
                        ctx.nontrivial_by_construction(1);
                    }
                }
                Ok(())
            },
            |i| show(&MBricks::List(small_list(&univ, i))),
        );
    }
    // 4. random pairs
    let cases = eng.tier.pick(1_000_000u64, 20_000_000u64);
    eng.random(
        "brick-list-pairs",
        RandomSpec { cases, max_tape: 96 },
        |tape, ctx| {
            let (x, y) = decode_pair(&mut Tape::new(tape));
            begin_case("brick-list-pairs", Some(tape), None, |t, _| {
                let (x, y) = decode_pair(&mut Tape::new(t.unwrap_or(&[])));
                format!("x = {}\ny = {}", show(&x), show(&y))
            });
            ctx.sample(|| format!("{} / {}", show(&x), show(&y)));
            match (&x, &y) {
                (MBricks::List(a), MBricks::List(b)) => {
                    if a.len() != b.len() {
                        ctx.label("pair:different-length");
                    } else {
                        ctx.label("pair:same-length");
                    }
                }
                _ => ctx.label("pair:with-Top"),
            }
            check_pair(&x, &y, ctx)
        },
        |tape| {
            let (x, y) = decode_pair(&mut Tape::new(tape));
            format!("x = {}\ny = {}", show(&x), show(&y))
        },
    );
    eng.require_fraction("brick-list-pairs", "normalize:changes-the-list", 0.20);
    eng.require_fraction("brick-list-pairs", "merge:result-list", 0.10);
    eng.require_fraction("brick-list-pairs", "widen:padding-path(non-Top)", 0.03);
    eng.require_fraction("brick-list-pairs", "widen:interval-threshold", 0.005);
    eng.require_fraction("brick-list-pairs", "widen:sequence-threshold", 0.001);
}
