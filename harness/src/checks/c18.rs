//! C18 — constant-argument checkers (CWE560 umask, CWE467 sizeof-on-pointer) decide on the
//! argument's actual value.
//!
//! One block per case that ends in a call to `umask` or to a size-taking function. The defs of
//! the block compute the parameter(s) from constants only: constant assignments, copies,
//! add/sub/and/or/xor/shift/mult of already-constant variables, negation, zero/sign extension,
//! subpiece, stores to aligned non-overlapping stack slots and loads back with the same size,
//! stack pointer adjustments, frame pointer copies, noise on other registers. The program is
//! normalized with `Project::normalize()`; an own concrete evaluator (integer semantics from
//! `crate::refsem`) runs the *normalized* block from two unrelated initial states and yields the
//! actual parameter values. Pointer sizes 8 (x86_64 skeleton) and 4 (x86_32-like skeleton).

use super::c16_prog::{multiset_diff, wkey, WKey};
use crate::conv::{bs, to_v};
use crate::engine::{cut, CaseResult, Ctx, Engine, RandomSpec};
use crate::irb;
use crate::refsem::{self as rs, R, V};
use crate::tape::{fnv, mix64, Tape};
use cwe_checker_lib::analysis::graph::get_program_cfg;
use cwe_checker_lib::checkers::{cwe_467, cwe_560};
use cwe_checker_lib::intermediate_representation::*;
use cwe_checker_lib::pipeline::AnalysisResults;
use serde_json::json;
use std::collections::{BTreeMap, BTreeSet};

const SIZE_FNS: [(&str, usize); 4] = [("malloc", 1), ("calloc", 2), ("memcpy", 3), ("strncpy", 3)];

#[derive(Clone, Debug, PartialEq, Eq, Hash)]
pub enum ParamLoc {
    /// register parameter; `sub4`: the parameter is the low 4 bytes of the 8-byte register
    Reg { reg: String, sub4: bool },
    /// stack parameter at `SP + off` of `size` bytes
    Stack { off: i64, size: usize },
}

#[derive(Clone, Debug)]
pub struct Case {
    pub ptr: usize,
    pub target: String,
    pub listed: Vec<String>,
    pub params: Vec<ParamLoc>,
    pub defs: Vec<Term<Def>>,
    /// values the generator aimed at (only for cross-checking the evaluator; never used as oracle)
    pub aimed: Vec<u128>,
}

fn show_case(c: &Case) -> String {
    let mut s = format!("pointer size {}, call {}({:?}), CWE467 symbols {:?}, aimed values {:?}\n", c.ptr, c.target, c.params, c.listed, c.aimed);
    for d in &c.defs {
        s.push_str(&format!("  [{}] {}\n", d.tid, d.term));
    }
    s
}

// ---------------------------------------------------------------------------------------------
// Generator (pure function of the tape). It tracks the concrete values of everything it has
// defined so that it can steer parameters onto the thresholds.

struct Gen<'a, 'b> {
    t: &'a mut Tape<'b>,
    ptr: usize,
    umask: bool,
    sp: Variable,
    fp: Variable,
    regs: Vec<Variable>,
    temps: Vec<Variable>,
    vals: BTreeMap<Variable, V>,
    sp_delta: i64,
    fp_delta: Option<i64>,
    /// (offset relative to the initial stack pointer, size, value)
    slots: Vec<(i64, usize, V)>,
    defs: Vec<Term<Def>>,
}

fn reg_names(ptr: usize) -> (Vec<&'static str>, &'static str, &'static str) {
    if ptr == 8 {
        (vec!["RAX", "RBX", "RCX", "RDX", "RSI", "RDI", "R8", "R9", "R10", "R12"], "RSP", "RBP")
    } else {
        (vec!["EAX", "EBX", "ECX", "EDX", "ESI", "EDI"], "ESP", "EBP")
    }
}

impl<'a, 'b> Gen<'a, 'b> {
    fn tid(&self) -> Tid {
        irb::instr_tid(0x1000, self.defs.len())
    }
    fn konst(&mut self, size: usize) -> V {
        let p = self.ptr as i128;
        let table: [i128; 18] = [0, 1, 0o22, 0o177, 0o200, 0o776, 0o777, 0o1000, p, p - 1, p + 1, 2, 0o644, 0o666, -1, 0o77, 8 * p, 0o7777];
        let sel = self.t.byte();
        if sel < 150 {
            rs::from_i(table[(sel as usize * table.len()) / 150], size)
        } else if sel < 225 {
            rs::from_i(self.t.range(-16, 16) as i128, size)
        } else {
            rs::val(self.t.int(size), size)
        }
    }
    fn known(&mut self, size: usize) -> Option<(Variable, V)> {
        let c: Vec<(Variable, V)> = self.vals.iter().filter(|(k, _)| u64::from(k.size) as usize == size).map(|(k, v)| (k.clone(), *v)).collect();
        if c.is_empty() {
            None
        } else {
            Some(c[self.t.below(c.len())].clone())
        }
    }
    fn any_known(&mut self) -> Option<(Variable, V)> {
        let c: Vec<(Variable, V)> = self.vals.iter().map(|(k, v)| (k.clone(), *v)).collect();
        if c.is_empty() {
            None
        } else {
            Some(c[self.t.below(c.len())].clone())
        }
    }
    /// an operand of the given size: a known variable or a constant
    fn operand(&mut self, size: usize) -> (Expression, V) {
        if self.t.prob(150) {
            if let Some((v, x)) = self.known(size) {
                return (irb::evar(&v), x);
            }
        }
        let k = self.konst(size);
        (irb::econst_u(k.v, size), k)
    }
    fn dst(&mut self, size: usize) -> Variable {
        let c: Vec<Variable> = self.regs.iter().chain(self.temps.iter()).filter(|v| u64::from(v.size) as usize == size).cloned().collect();
        c[self.t.below(c.len())].clone()
    }
    fn any_dst(&mut self) -> Variable {
        let n = self.regs.len() + self.temps.len();
        let i = self.t.below(n);
        if i < self.regs.len() {
            self.regs[i].clone()
        } else {
            self.temps[i - self.regs.len()].clone()
        }
    }
    fn assign(&mut self, var: &Variable, e: Expression, value: V) {
        let t = self.tid();
        self.defs.push(irb::assign(t, var, e));
        self.vals.insert(var.clone(), value);
    }
    /// address expression of the slot at `abs` (relative to the initial SP) through SP or the frame pointer
    fn addr(&mut self, abs: i64) -> Expression {
        let (base, delta) = match self.fp_delta {
            Some(d) if self.t.prob(100) => (self.fp.clone(), d),
            _ => (self.sp.clone(), self.sp_delta),
        };
        let off = abs - delta;
        let p = self.ptr;
        if off == 0 && self.t.prob(160) {
            irb::evar(&base)
        } else if off < 0 && self.t.prob(128) {
            irb::ebin(BinOpType::IntSub, irb::evar(&base), irb::econst((-off) as i128, p))
        } else {
            irb::ebin(BinOpType::IntAdd, irb::evar(&base), irb::econst(off as i128, p))
        }
    }
    fn overlaps(&self, abs: i64, size: usize) -> bool {
        self.slots.iter().any(|(a, s, _)| !(abs + size as i64 <= *a || *a + *s as i64 <= abs) && !(*a == abs && *s == size))
    }
    /// a free (or identical) aligned slot of the given size
    fn pick_slot(&mut self, size: usize) -> Option<i64> {
        let same: Vec<i64> = self.slots.iter().filter(|(_, s, _)| *s == size).map(|(a, _, _)| *a).collect();
        if !same.is_empty() && self.t.prob(70) {
            return Some(same[self.t.below(same.len())]);
        }
        let k0 = self.t.range(-8, 8);
        for d in 0..17 {
            let k = ((k0 + 8 + d) % 17) - 8;
            let abs = k * size as i64;
            if !self.overlaps(abs, size) {
                return Some(abs);
            }
        }
        None
    }
    fn store(&mut self, abs: i64, size: usize, e: Expression, value: V) {
        let a = self.addr(abs);
        let t = self.tid();
        self.defs.push(irb::store(t, a, e));
        self.slots.retain(|(x, s, _)| !(*x == abs && *s == size));
        self.slots.push((abs, size, value));
    }
    fn load(&mut self, var: &Variable, abs: i64, value: V) {
        let a = self.addr(abs);
        let t = self.tid();
        self.defs.push(irb::load(t, var, a));
        self.vals.insert(var.clone(), value);
    }

    fn bin_step(&mut self) {
        use BinOpType::*;
        let size = *self.t.choose(&[self.ptr, self.ptr, 4, 8, 2, 1]);
        let op = *self.t.choose(&[IntAdd, IntSub, IntAdd, IntSub, IntAnd, IntOr, IntXOr, IntLeft, IntRight, IntSRight, IntMult]);
        let (le, lv) = self.operand(size);
        let (re, rv) = if rs::is_shift(op) {
            let bits = 8 * size as i64;
            let amount = if self.t.prob(225) { self.t.range(0, 10.min(bits - 1)) } else { self.t.range(bits - 2, bits + 1) };
            let asz = if self.t.prob(64) { 1 } else { size };
            (irb::econst(amount as i128, asz), rs::val(amount as u128, asz))
        } else if op == IntMult {
            let k = self.t.range(0, 9) as u128;
            (irb::econst_u(k, size), rs::val(k, size))
        } else {
            self.operand(size)
        };
        if let R::Val(x) = rs::bin(op, lv, rv) {
            let d = self.dst(size);
            self.assign(&d, irb::ebin(op, le, re), x);
        }
    }

    fn step(&mut self) {
        // weights: const, copy, bin, un, ext, subpiece, store, load, sp-adjust, fp-set, noise, partial store/load
        let w = [5u32, 2, 6, 1, 2, 2, 5, 5, 2, 1, 2, 3];
        let total: u32 = w.iter().sum();
        let mut x = self.t.below(total as usize) as u32;
        let mut kind = 0;
        for (i, wi) in w.iter().enumerate() {
            if x < *wi {
                kind = i;
                break;
            }
            x -= wi;
        }
        match kind {
            0 => {
                let d = self.any_dst();
                let size = u64::from(d.size) as usize;
                let k = self.konst(size);
                self.assign(&d, irb::econst_u(k.v, size), k);
            }
            1 => {
                if let Some((s, v)) = self.any_known() {
                    let d = self.dst(v.w);
                    if d != s {
                        self.assign(&d, irb::evar(&s), v);
                    }
                }
            }
            2 => self.bin_step(),
            3 => {
                if let Some((s, v)) = self.any_known() {
                    let op = *self.t.choose(&[UnOpType::IntNegate, UnOpType::Int2Comp]);
                    if let R::Val(x) = rs::un(op, v) {
                        let d = self.dst(v.w);
                        self.assign(&d, irb::eun(op, irb::evar(&s)), x);
                    }
                }
            }
            4 => {
                if let Some((s, v)) = self.any_known() {
                    let bigger: Vec<usize> = [2usize, 4, 8].iter().copied().filter(|x| *x > v.w).collect();
                    if !bigger.is_empty() {
                        let size = *self.t.choose(&bigger);
                        let op = *self.t.choose(&[CastOpType::IntZExt, CastOpType::IntSExt]);
                        if let R::Val(x) = rs::cast(op, v, size) {
                            let d = self.dst(size);
                            self.assign(&d, irb::ecast(op, size, irb::evar(&s)), x);
                        }
                    }
                }
            }
            5 => {
                if let Some((s, v)) = self.any_known() {
                    let smaller: Vec<usize> = [1usize, 2, 4].iter().copied().filter(|x| *x < v.w).collect();
                    if !smaller.is_empty() {
                        let size = *self.t.choose(&smaller);
                        let low = self.t.below(v.w - size + 1);
                        let x = rs::subpiece(v, low, size);
                        let d = self.dst(size);
                        self.assign(&d, irb::esub(low, size, irb::evar(&s)), x);
                    }
                }
            }
            6 => {
                let size = *self.t.choose(&[self.ptr, 4, 8, 2, 1]);
                if let Some(abs) = self.pick_slot(size) {
                    let (e, v) = self.operand(size);
                    self.store(abs, size, e, v);
                }
            }
            7 => {
                if !self.slots.is_empty() {
                    let (abs, size, v) = self.slots[self.t.below(self.slots.len())];
                    let d = self.dst(size);
                    self.load(&d, abs, v);
                }
            }
            8 => {
                let c = self.ptr as i64 * self.t.range(1, 4);
                let down = !self.t.prob(90);
                let (op, nd) = if down { (BinOpType::IntSub, self.sp_delta - c) } else { (BinOpType::IntAdd, self.sp_delta + c) };
                let t = self.tid();
                let sp = self.sp.clone();
                self.defs.push(irb::assign(t, &sp, irb::ebin(op, irb::evar(&sp), irb::econst(c as i128, self.ptr))));
                self.sp_delta = nd;
            }
            9 => {
                let t = self.tid();
                let (sp, fp) = (self.sp.clone(), self.fp.clone());
                self.defs.push(irb::assign(t, &fp, irb::evar(&sp)));
                self.fp_delta = Some(self.sp_delta);
            }
            11 => {
                // a smaller store into / load out of the middle of an existing slot (the analysis
                // may lose the slot's value, it must not keep a stale one)
                let big: Vec<(i64, usize, V)> = self.slots.iter().filter(|(_, s, _)| *s >= 2).cloned().collect();
                if !big.is_empty() {
                    let (abs, size, v) = big[self.t.below(big.len())];
                    let smaller: Vec<usize> = [1usize, 2, 4].iter().copied().filter(|x| *x < size).collect();
                    let sz = *self.t.choose(&smaller);
                    let off = self.t.below(size - sz + 1);
                    if self.t.prob(170) {
                        let (e, k) = self.operand(sz);
                        let a = self.addr(abs + off as i64);
                        let t = self.tid();
                        self.defs.push(irb::store(t, a, e));
                        let mask = ((1u128 << (8 * sz)) - 1) << (8 * off);
                        let nv = rs::val((v.v & !mask) | (k.v << (8 * off)), size);
                        for slot in self.slots.iter_mut() {
                            if slot.0 == abs && slot.1 == size {
                                slot.2 = nv;
                            }
                        }
                    } else {
                        let d = self.dst(sz);
                        self.load(&d, abs + off as i64, rs::subpiece(v, off, sz));
                    }
                }
            }
            _ => {
                // noise: a register gets an unknown value (it is not used as operand afterwards)
                let d = self.dst(self.ptr);
                let unknown = irb::var(if self.ptr == 8 { "R13" } else { "UNK" }, self.ptr);
                let t = self.tid();
                if self.t.flag() {
                    self.defs.push(irb::load(t, &d, irb::evar(&unknown)));
                } else {
                    self.defs.push(irb::assign(t, &d, irb::ebin(BinOpType::IntAdd, irb::evar(&unknown), irb::econst(1, self.ptr))));
                }
                self.vals.remove(&d);
            }
        }
    }

    /// the value a parameter should get: on or next to a threshold, or whatever a known variable holds
    fn aim(&mut self, size: usize) -> V {
        let p = self.ptr as i128;
        let umask_table: [i128; 16] = [0o177, 0o200, 0o776, 0o777, 0o1000, p, p - 1, p + 1, 0, 0o22, 0o666, 0o176, 0o201, 0o1777, 2 * p, -1];
        let size_table: [i128; 16] = [p, p - 1, p + 1, p, 8 * p, 2 * p, 0, 1, 0o177, 0o200, p, p + 1, p - 1, 0o777, 16, -1];
        let table = if self.umask { umask_table } else { size_table };
        if self.t.prob(215) {
            rs::from_i(*self.t.choose(&table), size)
        } else {
            self.konst(size)
        }
    }

    /// expression over already known material that evaluates to `goal`
    fn produce(&mut self, goal: V) -> Expression {
        let size = goal.w;
        match self.t.below(4) {
            0 => irb::econst_u(goal.v, size),
            1 | 2 => {
                if let Some((s, v)) = self.known(size) {
                    match self.t.below(3) {
                        0 => irb::ebin(BinOpType::IntAdd, irb::evar(&s), irb::econst_u(goal.v.wrapping_sub(v.v) & rs::mask(size), size)),
                        1 => irb::ebin(BinOpType::IntSub, irb::evar(&s), irb::econst_u(v.v.wrapping_sub(goal.v) & rs::mask(size), size)),
                        _ => irb::ebin(BinOpType::IntXOr, irb::evar(&s), irb::econst_u(goal.v ^ v.v, size)),
                    }
                } else {
                    irb::econst_u(goal.v, size)
                }
            }
            _ => {
                // split into two constants
                let a = self.konst(size);
                irb::ebin(BinOpType::IntAdd, irb::econst_u(a.v, size), irb::econst_u(goal.v.wrapping_sub(a.v) & rs::mask(size), size))
            }
        }
    }

    /// make variable `var` hold `goal` through one of several routes
    fn materialize_var(&mut self, var: &Variable, goal: V) {
        let size = goal.w;
        match self.t.below(6) {
            0 | 1 => {
                let e = self.produce(goal);
                self.assign(var, e, goal);
            }
            2 | 3 => {
                // through a stack slot
                if let Some(abs) = self.pick_slot(size) {
                    let e = self.produce(goal);
                    if self.t.flag() {
                        let tmp = self.dst(size);
                        if tmp != *var {
                            self.assign(&tmp, e, goal);
                            self.store(abs, size, irb::evar(&tmp), goal);
                        } else {
                            self.store(abs, size, e, goal);
                        }
                    } else {
                        self.store(abs, size, e, goal);
                    }
                    if self.t.prob(60) {
                        // unrelated traffic between the store and the load
                        self.step_no_sp();
                    }
                    // the slot may have been overwritten by the traffic: reload its tracked value
                    if let Some((_, _, v)) = self.slots.iter().find(|(a, s, _)| *a == abs && *s == size).cloned() {
                        self.load(var, abs, v);
                    }
                } else {
                    let e = self.produce(goal);
                    self.assign(var, e, goal);
                }
            }
            4 => {
                // through a smaller temporary and an extension
                let small = if size == 8 { *self.t.choose(&[4usize, 2, 1]) } else if size == 4 { *self.t.choose(&[2usize, 1]) } else { 0 };
                if small > 0 {
                    let low = rs::val(goal.v, small);
                    let z = rs::val(low.v, size);
                    let s = rs::from_i(rs::sext(low.v, small), size);
                    let op = if z == goal { Some(CastOpType::IntZExt) } else if s == goal { Some(CastOpType::IntSExt) } else { None };
                    if let Some(op) = op {
                        let tmp = self.temps.iter().find(|t| u64::from(t.size) as usize == small).cloned().unwrap();
                        let e = self.produce(low);
                        self.assign(&tmp, e, low);
                        self.assign(var, irb::ecast(op, size, irb::evar(&tmp)), goal);
                        return;
                    }
                }
                let e = self.produce(goal);
                self.assign(var, e, goal);
            }
            _ => {
                // as the subpiece of a wider temporary with garbage above
                if size < 8 {
                    let wide = 8;
                    let garbage = (self.t.byte() as u128 | 0x100) << (8 * size);
                    let wv = rs::val(garbage | goal.v, wide);
                    let tmp = self.temps.iter().find(|t| u64::from(t.size) as usize == wide && *t != var).cloned().unwrap();
                    let e = self.produce(wv);
                    self.assign(&tmp, e, wv);
                    self.assign(var, irb::esub(0, size, irb::evar(&tmp)), goal);
                } else {
                    let e = self.produce(goal);
                    self.assign(var, e, goal);
                }
            }
        }
    }

    /// a step that does not move the stack pointer (used once parameters are being placed)
    fn step_no_sp(&mut self) {
        let before = self.defs.len();
        let (sd, fd) = (self.sp_delta, self.fp_delta);
        self.step();
        if self.sp_delta != sd || self.fp_delta != fd {
            self.defs.truncate(before);
            self.sp_delta = sd;
            self.fp_delta = fd;
        }
    }
}

pub fn decode(t: &mut Tape) -> Case {
    let ptr = if t.prob(90) { 4 } else { 8 };
    let umask = !t.prob(128);
    let (target, nparams) = if umask { ("umask", 1) } else { SIZE_FNS[t.below(SIZE_FNS.len())] };
    let mut listed = vec![];
    if umask {
        if t.prob(40) {
            listed.push("umask".to_string());
        }
    } else if !t.prob(40) {
        listed.push(target.to_string());
    }
    for (n, _) in SIZE_FNS {
        if n != target && t.prob(100) {
            listed.push(n.to_string());
        }
    }
    let (names, spn, fpn) = reg_names(ptr);
    let regs: Vec<Variable> = names.iter().map(|n| irb::var(n, ptr)).collect();
    let mut temps = vec![];
    for (i, s) in [1usize, 2, 4, 8, 4, 8].iter().enumerate() {
        temps.push(irb::tmp(&format!("$U{}", i), *s));
    }
    let mut g = Gen { t, ptr, umask, sp: irb::var(spn, ptr), fp: irb::var(fpn, ptr), regs, temps, vals: BTreeMap::new(), sp_delta: 0, fp_delta: None, slots: vec![], defs: vec![] };
    let nsteps = g.t.below(9);
    for _ in 0..nsteps {
        g.step();
    }
    // parameter locations
    let param_regs: Vec<&str> = if ptr == 8 { vec!["RDI", "RSI", "RDX"] } else { vec!["ECX", "EDX", "EAX"] };
    let stack_params = if ptr == 4 { !g.t.prob(60) } else { g.t.prob(50) };
    let mut params = vec![];
    let mut aimed = vec![];
    let mut planned: Vec<(ParamLoc, V)> = vec![];
    for i in 0..nparams {
        let loc = if stack_params {
            let size = if ptr == 8 && g.t.prob(80) { 4 } else { ptr };
            ParamLoc::Stack { off: (ptr * (i + if ptr == 4 { 1 } else { 0 })) as i64, size }
        } else {
            ParamLoc::Reg { reg: param_regs[i].to_string(), sub4: ptr == 8 && g.t.prob(90) }
        };
        let vsize = match &loc {
            ParamLoc::Stack { size, .. } => *size,
            ParamLoc::Reg { sub4, .. } => {
                if *sub4 {
                    4
                } else {
                    ptr
                }
            }
        };
        let goal = g.aim(vsize);
        planned.push((loc, goal));
    }
    // stack parameter slots must be free: drop conflicting earlier slots by choosing the SP so that
    // the parameter area is fresh (move SP below everything written so far)
    if stack_params {
        // below everything written so far and below the range `pick_slot` draws from, 16-byte aligned
        let lowest = g.slots.iter().map(|(a, _, _)| *a).min().unwrap_or(0).min(g.sp_delta).min(-72);
        let need = (lowest - (ptr as i64) * 8).div_euclid(16) * 16;
        if g.sp_delta > need {
            let c = g.sp_delta - need;
            let t = g.tid();
            let sp = g.sp.clone();
            g.defs.push(irb::assign(t, &sp, irb::ebin(BinOpType::IntSub, irb::evar(&sp), irb::econst(c as i128, ptr))));
            g.sp_delta = need;
        }
    }
    for (loc, goal) in planned {
        match &loc {
            ParamLoc::Reg { reg, sub4 } => {
                let var = irb::var(reg, ptr);
                if *sub4 {
                    // garbage in the upper half: the parameter is only the low 4 bytes
                    let upper = if g.t.flag() { 0u128 } else { (g.t.byte() as u128 | 1) << 32 };
                    let full = rs::val(upper | goal.v, 8);
                    g.materialize_var(&var, full);
                } else {
                    g.materialize_var(&var, goal);
                }
                // parameters placed later must not use this register as scratch
                g.regs.retain(|r| *r != var);
            }
            ParamLoc::Stack { off, size } => {
                let abs = g.sp_delta + off;
                let e = if g.t.flag() {
                    g.produce(goal)
                } else {
                    let tmp = g.dst(*size);
                    g.materialize_var(&tmp, goal);
                    irb::evar(&tmp)
                };
                // the slot is inside the fresh area below everything else, hence free and aligned
                let a = irb::ebin(BinOpType::IntAdd, irb::evar(&g.sp), irb::econst(*off as i128, ptr));
                let a = if *off == 0 && g.t.flag() { irb::evar(&g.sp) } else { a };
                let t = g.tid();
                g.defs.push(irb::store(t, a, e));
                g.slots.push((abs, *size, goal));
            }
        }
        aimed.push(goal.v);
        params.push(loc);
        if g.t.prob(50) {
            g.step_no_sp();
        }
    }
    // a parameter register may have been clobbered by the trailing noise step: that is fine, the
    // oracle evaluates the block; `aimed` is informational only.
    Case { ptr, target: target.to_string(), listed, params, defs: g.defs, aimed }
}

// ---------------------------------------------------------------------------------------------
// Project construction

fn project32(subs: Vec<Term<Sub>>, externs: Vec<ExternSymbol>, entry: Vec<Tid>) -> Project {
    let mut p = irb::project(subs, externs, entry);
    let regs = ["EAX", "EBX", "ECX", "EDX", "ESI", "EDI", "EBP", "ESP", "UNK"];
    let mut set = BTreeSet::new();
    for r in regs {
        set.insert(irb::var(r, 4));
    }
    for f in irb::FLAGS {
        set.insert(irb::var(f, 1));
    }
    p.register_set = set;
    p.stack_pointer_register = irb::var("ESP", 4);
    p.cpu_architecture = "x86_32".to_string();
    p.datatype_properties.pointer_size = bs(4);
    p.datatype_properties.long_size = bs(4);
    let cc = CallingConvention {
        name: "__stdcall".to_string(),
        integer_parameter_register: vec![],
        float_parameter_register: vec![],
        integer_return_register: vec![irb::var("EAX", 4)],
        float_return_register: vec![],
        callee_saved_register: ["EBX", "ESI", "EDI", "EBP"].iter().map(|r| irb::var(r, 4)).collect(),
    };
    p.calling_conventions.clear();
    p.calling_conventions.insert("__stdcall".to_string(), cc);
    p
}

fn arg_of(loc: &ParamLoc, ptr: usize) -> Arg {
    let sp = irb::var(if ptr == 8 { "RSP" } else { "ESP" }, ptr);
    match loc {
        ParamLoc::Reg { reg, sub4 } => {
            let v = irb::evar(&irb::var(reg, ptr));
            Arg::Register { expr: if *sub4 { irb::esub(0, 4, v) } else { v }, data_type: None }
        }
        ParamLoc::Stack { off, size } => Arg::Stack { address: irb::ebin(BinOpType::IntAdd, irb::evar(&sp), irb::econst(*off as i128, ptr)), size: bs(*size), data_type: None },
    }
}

pub fn build(c: &Case) -> Project {
    let ext_tid = irb::sub_tid(0x100000);
    let b0 = irb::blk(
        irb::blk_tid(0x1000),
        c.defs.clone(),
        vec![irb::jmp(irb::instr_tid(0x1000, 900), Jmp::Call { target: ext_tid.clone(), return_: Some(irb::blk_tid(0x1100)) })],
    );
    let ret_reg = irb::var(if c.ptr == 8 { "RAX" } else { "EAX" }, c.ptr);
    let b1 = irb::blk(irb::blk_tid(0x1100), vec![], vec![irb::jmp(irb::instr_tid(0x1100, 0), Jmp::Return(irb::evar(&ret_reg)))]);
    let sub = irb::sub(irb::sub_tid(0x1000), "caller", vec![b0, b1]);
    let mut ext = irb::extern_symbol(ext_tid, &c.target, &[], false);
    ext.parameters = c.params.iter().map(|l| arg_of(l, c.ptr)).collect();
    ext.return_values = vec![Arg::Register { expr: irb::evar(&ret_reg), data_type: None }];
    if c.ptr == 8 {
        irb::project(vec![sub], vec![ext], vec![irb::sub_tid(0x1000)])
    } else {
        project32(vec![sub], vec![ext], vec![irb::sub_tid(0x1000)])
    }
}

// ---------------------------------------------------------------------------------------------
// Own concrete evaluator of a block (integer semantics from refsem)

#[derive(Clone, Copy, Debug)]
struct Cv {
    v: V,
    /// passed an operation on which the interval domain documents precision loss (signed overflow
    /// of add/sub/mult/shift-left, two's complement of MIN, operands wider than 8 bytes)
    fragile: bool,
    /// number of operator applications on the way
    depth: u32,
    /// went through a stack slot
    mem: bool,
}

struct Machine {
    seed: u64,
    vars: BTreeMap<(String, usize), Cv>,
    /// address -> (byte, fragile, depth, id of the store, index of the byte in the store, width of the store)
    mem: BTreeMap<u128, (u8, bool, u32, u32, usize, usize)>,
    stores: u32,
    /// loads that did not read back exactly one earlier store
    composite_loads: u32,
}

fn fits_signed(x: i128, w: usize) -> bool {
    let min = -(1i128 << (8 * w - 1));
    let max = (1i128 << (8 * w - 1)) - 1;
    x >= min && x <= max
}

impl Machine {
    fn new(seed: u64, sp: &Variable) -> Machine {
        let mut m = Machine { seed, vars: BTreeMap::new(), mem: BTreeMap::new(), stores: 0, composite_loads: 0 };
        let w = u64::from(sp.size) as usize;
        let base: u128 = if w == 8 { 0x7ffd_0000_0000 + ((mix64(seed) as u128 & 0xffff) << 12) } else { 0x7f00_0000 + ((mix64(seed) as u128 & 0xff) << 12) };
        m.vars.insert((sp.name.clone(), w), Cv { v: rs::val(base, w), fragile: false, depth: 0, mem: false });
        m
    }
    fn get(&mut self, v: &Variable) -> Cv {
        let w = u64::from(v.size) as usize;
        let key = (v.name.clone(), w);
        if let Some(x) = self.vars.get(&key) {
            return *x;
        }
        let h = mix64(fnv(v.name.as_bytes()) ^ self.seed);
        let x = ((h as u128) << 64) | mix64(h) as u128;
        Cv { v: rs::val(x, w), fragile: false, depth: 0, mem: false }
    }
    fn eval(&mut self, e: &Expression) -> Result<Cv, String> {
        use BinOpType::*;
        match e {
            Expression::Var(v) => Ok(self.get(v)),
            Expression::Const(b) => Ok(Cv { v: to_v(b), fragile: false, depth: 0, mem: false }),
            Expression::BinOp { op, lhs, rhs } => {
                let a = self.eval(lhs)?;
                let b = self.eval(rhs)?;
                if !rs::is_shift(*op) && *op != Piece && a.v.w != b.v.w {
                    return Err(format!("operand sizes differ in {}", e));
                }
                let r = match rs::bin(*op, a.v, b.v) {
                    R::Val(x) => x,
                    other => return Err(format!("unsupported operation {:?} -> {:?}", op, other)),
                };
                let w = a.v.w;
                let (sa, sb) = (rs::sext(a.v.v, a.v.w), rs::sext(b.v.v, b.v.w));
                let lossy = w > 8
                    || match op {
                        IntAdd => !fits_signed(sa + sb, w),
                        IntSub => !fits_signed(sa - sb, w),
                        IntMult => w <= 8 && !fits_signed(sa * sb, w),
                        IntLeft => b.v.v >= (8 * w - 1) as u128 || !fits_signed(sa * (1i128 << (b.v.v as u32)), w),
                        IntDiv | IntSDiv | IntRem | IntSRem => true,
                        _ => false,
                    };
                Ok(Cv { v: r, fragile: a.fragile || b.fragile || lossy, depth: a.depth.max(b.depth) + 1, mem: a.mem || b.mem })
            }
            Expression::UnOp { op, arg } => {
                let a = self.eval(arg)?;
                let r = match rs::un(*op, a.v) {
                    R::Val(x) => x,
                    other => return Err(format!("unsupported operation {:?} -> {:?}", op, other)),
                };
                let min = 1u128 << (8 * a.v.w - 1);
                let lossy = a.v.w > 8 || (*op == UnOpType::Int2Comp && a.v.v == min);
                Ok(Cv { v: r, fragile: a.fragile || lossy, depth: a.depth + 1, mem: a.mem })
            }
            Expression::Cast { op, size, arg } => {
                let a = self.eval(arg)?;
                let w = u64::from(*size) as usize;
                match rs::cast(*op, a.v, w) {
                    R::Val(x) => Ok(Cv { v: x, fragile: a.fragile || w > 8, depth: a.depth + 1, mem: a.mem }),
                    other => Err(format!("unsupported cast {:?} -> {:?}", op, other)),
                }
            }
            Expression::Subpiece { low_byte, size, arg } => {
                let a = self.eval(arg)?;
                let x = rs::subpiece(a.v, u64::from(*low_byte) as usize, u64::from(*size) as usize);
                Ok(Cv { v: x, fragile: a.fragile, depth: a.depth + 1, mem: a.mem })
            }
            Expression::Unknown { .. } => Err("unknown expression".into()),
        }
    }
    fn load(&mut self, addr: u128, w: usize) -> Cv {
        let mut x = 0u128;
        let mut fragile = false;
        let mut depth = 0;
        let mut pieces: std::collections::BTreeSet<u32> = Default::default();
        for i in 0..w {
            let a = addr.wrapping_add(i as u128);
            let (b, f, d, id, idx, width) = self.mem.get(&a).copied().unwrap_or(((mix64(a as u64 ^ self.seed.rotate_left(17)) & 0xff) as u8, false, 0, 0, i, w));
            x |= (b as u128) << (8 * i);
            fragile |= f;
            depth = depth.max(d);
            pieces.insert(id);
            // not the value of one store read back with its offset and size: the memory model of
            // the analysis documents that it does not track such values
            if idx != i || width != w {
                fragile = true;
            }
        }
        if pieces.len() > 1 {
            fragile = true;
        }
        if fragile && !pieces.contains(&0) {
            self.composite_loads += 1;
        }
        Cv { v: rs::val(x, w), fragile, depth, mem: true }
    }
    fn store(&mut self, addr: u128, c: Cv) {
        self.stores += 1;
        for i in 0..c.v.w {
            self.mem.insert(addr.wrapping_add(i as u128), (((c.v.v >> (8 * i)) & 0xff) as u8, c.fragile, c.depth, self.stores, i, c.v.w));
        }
    }
    fn run(&mut self, defs: &[Term<Def>]) -> Result<(), String> {
        for d in defs {
            match &d.term {
                Def::Assign { var, value } => {
                    let c = self.eval(value)?;
                    if c.v.w != u64::from(var.size) as usize {
                        return Err(format!("size mismatch in {}", d.term));
                    }
                    self.vars.insert((var.name.clone(), c.v.w), c);
                }
                Def::Load { var, address } => {
                    let a = self.eval(address)?;
                    let w = u64::from(var.size) as usize;
                    let c = self.load(a.v.v, w);
                    self.vars.insert((var.name.clone(), w), c);
                }
                Def::Store { address, value } => {
                    let a = self.eval(address)?;
                    let c = self.eval(value)?;
                    self.store(a.v.v, c);
                }
            }
        }
        Ok(())
    }
    fn param(&mut self, arg: &Arg) -> Result<Cv, String> {
        match arg {
            Arg::Register { expr, .. } => self.eval(expr),
            Arg::Stack { address, size, .. } => {
                let a = self.eval(address)?;
                Ok(self.load(a.v.v, u64::from(*size) as usize))
            }
        }
    }
}

/// Parameter values of the call at the end of `block`, evaluated from two unrelated initial
/// states; `None` if they depend on the initial state (not a constant computed from constants).
fn actual_params(project: &Project, block: &Term<Blk>, sym: &ExternSymbol) -> Result<Option<(Vec<Cv>, u32)>, String> {
    let mut out: Vec<Vec<Cv>> = vec![];
    let mut composite = 0;
    for seed in [0x1234_5678_9abc_def0u64, 0x0fed_cba9_8765_4321] {
        let mut m = Machine::new(seed, &project.stack_pointer_register);
        m.run(&block.term.defs)?;
        let mut ps = vec![];
        for a in &sym.parameters {
            ps.push(m.param(a)?);
        }
        out.push(ps);
        composite = m.composite_loads;
    }
    for (a, b) in out[0].iter().zip(out[1].iter()) {
        if a.v != b.v {
            return Ok(None);
        }
    }
    Ok(Some((out.remove(0), composite)))
}

// ---------------------------------------------------------------------------------------------

fn near(v: u128, t: u128) -> bool {
    v == t || v + 1 == t || v == t + 1
}

pub fn check(case: &Case, ctx: &mut Ctx) -> CaseResult {
    let project = match ctx.cut(|| {
        let mut p = build(case);
        let _logs = p.normalize();
        p
    })? {
        Some(p) => p,
        None => return Ok(()),
    };
    let graph = match ctx.cut(|| get_program_cfg(&project.program))? {
        Some(g) => g,
        None => return Ok(()),
    };
    let binary: Vec<u8> = vec![];
    let ar = AnalysisResults::new(&binary, &graph, &project);
    let ptr = u64::from(project.stack_pointer_register.size) as u128;

    // the call site in the normalized program
    let sym = match project.program.term.extern_symbols.values().next() {
        Some(s) => s,
        None => {
            ctx.label("skipped-extern-symbol-lost");
            return Ok(());
        }
    };
    let mut site = None;
    for sub in project.program.term.subs.values() {
        for b in &sub.term.blocks {
            for j in &b.term.jmps {
                if let Jmp::Call { target, .. } = &j.term {
                    if *target == sym.tid {
                        site = Some((sub, b, j));
                    }
                }
            }
        }
    }
    let (sub, block, jmp) = match site {
        Some(x) => x,
        None => {
            ctx.label("skipped-call-site-lost");
            return Ok(());
        }
    };
    let vals = match actual_params(&project, block, sym) {
        Ok(Some((v, composite))) => {
            if composite > 0 {
                ctx.label("load-of-partially-overwritten-or-partial-slot");
            }
            v
        }
        Ok(None) => {
            ctx.label("skipped-parameter-not-constant");
            return Ok(());
        }
        Err(e) => {
            ctx.label("skipped-evaluator-unsupported");
            ctx.sample(|| format!("evaluator: {}", e));
            return Ok(());
        }
    };
    if vals.iter().map(|c| c.v.v).collect::<Vec<_>>() != case.aimed {
        ctx.label("parameter-differs-from-aimed-value");
    }

    // ---- expectations
    let is_umask = sym.name == "umask";
    let listed = case.listed.contains(&sym.name);
    let any_fragile = vals.iter().any(|c| c.fragile);
    let chmod_style = |v: u128| v > 0o177 && v != 0o777;
    let exp560: Option<bool> = if is_umask && vals.len() == 1 { Some(chmod_style(vals[0].v.v)) } else { None };
    let sure467 = listed && vals.iter().any(|c| !c.fragile && c.v.v == ptr);
    let maybe467 = listed && vals.iter().any(|c| c.v.v == ptr);

    // ---- statistics
    ctx.label(if is_umask { "umask-call" } else { "size-function-call" });
    if ptr == 4 {
        ctx.label("pointer-size-4");
    }
    if any_fragile {
        ctx.label("fragile-signed-overflow-on-the-way");
    }
    if case.params.iter().any(|p| matches!(p, ParamLoc::Stack { .. })) {
        ctx.label("stack-parameter");
    }
    if case.params.iter().any(|p| matches!(p, ParamLoc::Reg { sub4: true, .. })) {
        ctx.label("subregister-parameter");
    }
    if exp560 == Some(true) {
        ctx.label("cwe560-warning-expected");
    }
    if exp560 == Some(false) {
        ctx.label("cwe560-silence-expected");
    }
    if listed {
        ctx.label("cwe467-symbol-listed");
    }
    if maybe467 {
        ctx.label("cwe467-warning-expected");
    }
    if listed && !maybe467 {
        ctx.label("cwe467-silence-expected-on-listed-symbol");
    }
    if vals.len() > 1 && listed && vals[0].v.v != ptr && maybe467 {
        ctx.label("cwe467-only-a-later-parameter-is-pointer-sized");
    }
    if listed && vals.iter().any(|c| c.v.v == 8 * ptr) && !maybe467 {
        ctx.label("cwe467-parameter-equals-pointer-bit-size");
    }
    let computed = vals.iter().any(|c| c.depth >= 1 || c.mem);
    let near_threshold = vals.iter().any(|c| {
        let v = c.v.v;
        (is_umask && (near(v, 0o177) || near(v, 0o200) || near(v, 0o777))) || (listed && near(v, ptr))
    });
    if vals.iter().any(|c| c.mem) {
        ctx.label("parameter-through-stack-slot");
    }
    if computed {
        ctx.label("parameter-computed");
    }
    if near_threshold {
        ctx.label("parameter-within-1-of-threshold");
    }
    if computed && near_threshold {
        ctx.label("nontrivial");
        ctx.nontrivial(fnv(show_case(case).as_bytes()));
    }
    ctx.sample(|| format!("{}({:?}) ptr {} listed {} -> 560 {:?} 467 {}", sym.name, vals.iter().map(|c| format!("{:#o}", c.v.v)).collect::<Vec<_>>(), ptr, listed, exp560, maybe467));
    ctx.extra_evaluations(1);

    let dump = || format!("{}\nnormalized block:\n{}", show_case(case), block.term.defs.iter().map(|d| format!("  [{}] {}\n", d.tid, d.term)).collect::<String>());

    // ---- CWE560
    match cut(|| (cwe_560::CWE_MODULE.run)(&ar, &serde_json::Value::Null)) {
        Err(f) => ctx.report("C18:CWE560:panic", format!("{}\n{}", f.detail, dump()))?,
        Ok((_logs, warnings)) => {
            let act: Vec<WKey> = warnings.iter().map(wkey).collect();
            let exp_key = |v: u128| WKey {
                name: cwe_560::CWE_MODULE.name.into(),
                version: cwe_560::CWE_MODULE.version.into(),
                addresses: vec![jmp.tid.address.clone()],
                tids: vec![jmp.tid.to_string()],
                symbols: vec![],
                other: vec![vec!["umask_arg".to_string(), format!("{:#o}", v)]],
            };
            let expected: Vec<WKey> = match exp560 {
                Some(true) => vec![exp_key(vals[0].v.v)],
                _ => vec![],
            };
            let fragile = exp560.is_some() && vals[0].fragile;
            let (missing, surplus) = multiset_diff(&expected, &act);
            if !surplus.is_empty() {
                let sig = if exp560 == Some(true) { "C18:CWE560:wrong-warning-content" } else { "C18:CWE560:warning-for-harmless-value" };
                ctx.report(sig, format!("umask argument is {:?}; unexpected warning {:?} (expected {:?})\n{}", vals.iter().map(|c| format!("{:#o}", c.v.v)).collect::<Vec<_>>(), surplus, expected, dump()))?;
            } else if !missing.is_empty() {
                if fragile {
                    ctx.label("cwe560-missed-behind-documented-precision-loss");
                } else {
                    ctx.report("C18:CWE560:missing-warning", format!("umask argument is {:#o} (chmod-style) but no warning; reported {:?}\n{}", vals[0].v.v, act, dump()))?;
                }
            }
        }
    }

    // ---- CWE467
    let cfg467 = json!({ "symbols": case.listed });
    match cut(|| (cwe_467::CWE_MODULE.run)(&ar, &cfg467)) {
        Err(f) => ctx.report("C18:CWE467:panic", format!("{}\n{}", f.detail, dump()))?,
        Ok((_logs, warnings)) => {
            let act: Vec<WKey> = warnings.iter().map(wkey).collect();
            let key = WKey {
                name: cwe_467::CWE_MODULE.name.into(),
                version: cwe_467::CWE_MODULE.version.into(),
                addresses: vec![jmp.tid.address.clone()],
                tids: vec![jmp.tid.to_string()],
                symbols: vec![],
                other: vec![],
            };
            let pv: Vec<String> = vals.iter().map(|c| format!("{}", c.v.v)).collect();
            if act.is_empty() {
                if sure467 {
                    ctx.report("C18:CWE467:missing-warning", format!("a parameter of the listed function {} equals the pointer size {}: {:?}, but no warning\n{}", sym.name, ptr, pv, dump()))?;
                } else if maybe467 {
                    ctx.label("cwe467-missed-behind-documented-precision-loss");
                }
            } else if act != vec![key.clone()] {
                ctx.report("C18:CWE467:wrong-warning-content", format!("reported {:?}, expected at most {:?}\n{}", act, key, dump()))?;
            } else if !maybe467 {
                let sig = if listed { "C18:CWE467:warning-without-pointer-sized-parameter" } else { "C18:CWE467:warning-for-unlisted-function" };
                ctx.report(sig, format!("warning for {} with parameters {:?} (pointer size {}, listed: {})\n{}", sym.name, pv, ptr, listed, dump()))?;
            }
        }
    }
    let _ = sub;
    Ok(())
}

pub fn run(eng: &mut Engine) {
    eng.rule = "case = one block ending in a call to umask (one parameter) or to malloc/calloc/memcpy/strncpy (1..3 parameters) whose parameters (full register, low half of a register, or stack slot; pointer size 8 or 4) are computed from constants only by 0..8 random defs (constant assignments, copies, add/sub/and/or/xor/shifts/mult, negation, zero/sign extension, subpiece, stores to aligned stack slots and loads back, smaller stores into / loads out of the middle of a slot, SP adjustments, frame pointer copies, noise) followed by a goal-directed placement that steers each parameter onto or next to 0o177/0o200/0o777/pointer size; normalized with Project::normalize; actual parameter values from an own evaluator on the normalized block; non-trivial = some parameter is produced by at least one operator application or passes through a stack slot AND lies within 1 of a threshold relevant for the called function; distinct by hash of the decoded case".into();
    eng.assumptions = vec![
        "values that pass a signed overflow of add/sub/mult/shift-left, a two's complement of MIN or a division are only checked one-sidedly (the interval domain documents precision loss there): a warning must still be correct, a missing one is tolerated and counted".into(),
        "stack slots are aligned; addresses are SP/frame pointer plus constant; a value that is not one earlier store read back with the same offset and size (partially overwritten slot, partial load) is treated like documented precision loss: a missing warning is tolerated, a warning for a value that does not meet the condition is not".into(),
        "the oracle evaluates the normalized block (normalization itself is the subject of C10); cases whose parameter depends on the initial state after normalization are skipped and counted".into(),
        "neither check reads pointer-inference results (main.rs does not compute them for CWE467/CWE560); AnalysisResults carries project and CFG only".into(),
    ];
    let cases = eng.tier.pick(1_500_000, 30_000_000);
    eng.random(
        "constant-arguments",
        RandomSpec { cases, max_tape: 256 },
        |tape, ctx| {
            let mut t = Tape::new(tape);
            let case = decode(&mut t);
            check(&case, ctx)
        },
        |tape| show_case(&decode(&mut Tape::new(tape))),
    );
    // floors are relative to the section's evaluations = 2 module runs per case
    eng.require_fraction("constant-arguments", "nontrivial", 0.125);
    eng.require_fraction("constant-arguments", "cwe560-warning-expected", 0.05);
    eng.require_fraction("constant-arguments", "cwe560-silence-expected", 0.05);
    eng.require_fraction("constant-arguments", "cwe467-warning-expected", 0.03);
    eng.require_fraction("constant-arguments", "cwe467-silence-expected-on-listed-symbol", 0.03);
    eng.require_fraction("constant-arguments", "parameter-through-stack-slot", 0.05);
    eng.require_fraction("constant-arguments", "cwe467-only-a-later-parameter-is-pointer-sized", 0.005);
}
