//! C23 — analysis results do not depend on hashing or scheduling nondeterminism.
//!
//! Metamorphic: the same command line (all checks enabled) is executed k times in fresh
//! processes (fresh `RandomState` keys, fresh thread schedules); stdout must be byte-identical,
//! for `--json` and for plain output. Inputs are biased to shapes where hash iteration order can
//! leak: blocks of one function reachable from several others (block duplication in `HashSet`
//! order), several sinks per taint source, many extern symbols, several warnings per check.

use super::cli_gen::*;
use crate::engine::{CaseResult, Ctx, Engine, RandomSpec};
use crate::tape::Tape;
use std::collections::BTreeSet;
use std::sync::Mutex;

pub fn decode(tape: &[u8]) -> Input {
    let mut t = Tape::new(tape);
    let kind = if t.below(2) == 0 { ElfKind::Exec } else { ElfKind::Dyn };
    let debug = t.prob(64);
    let raw = t.u16() as u32;
    // bit 16: the TOCTOU trigger has a sink call on both sides of a branch (two thirds of the cases)
    // bit 17: deep-expression trigger (half of the cases)
    let mask = raw | 0b0010_0011_0010_0001 | if raw % 3 != 0 { 1 << 16 } else { 0 } | if (raw >> 3) & 1 == 1 { 1 << 17 } else { 0 }
        // bit 18: allocation wrapper with a constant and an unknown size (half of the cases)
        | if (raw >> 4) & 1 == 1 { 1 << 18 } else { 0 };
    let at = t.pos();
    let body = if at <= tape.len() { &tape[at..] } else { &tape[0..0] };
    gen_input(body, kind, &PROFILE_C23, Pack::User(mask), debug)
}

/// Names of the checks whose warnings differ between two outputs (for a stable signature).
fn differing_names(a: &[u8], b: &[u8], shared_blocks: bool) -> (String, String) {
    match (parse_warnings(a), parse_warnings(b)) {
        (Ok(x), Ok(y)) => {
            let sx: BTreeSet<&Warning> = x.iter().collect();
            let sy: BTreeSet<&Warning> = y.iter().collect();
            let only_x: Vec<&&Warning> = sx.difference(&sy).collect();
            let only_y: Vec<&&Warning> = sy.difference(&sx).collect();
            let mut names: BTreeSet<String> = BTreeSet::new();
            for w in only_x.iter().chain(only_y.iter()) {
                names.insert(w.name.clone());
            }
            let detail = format!(
                "{} warnings vs {} warnings\nonly in run A ({}):\n{}\nonly in run B ({}):\n{}",
                x.len(),
                y.len(),
                only_x.len(),
                only_x.iter().take(6).map(|w| format!("  {:?}", w)).collect::<Vec<_>>().join("\n"),
                only_y.len(),
                only_y.iter().take(6).map(|w| format!("  {:?}", w)).collect::<Vec<_>>().join("\n")
            );
            // class: the outputs agree after removing the `_sub_<address>` suffix that the block
            // duplication pass appends to the TIDs of block copies
            let strip = |w: &Warning| -> Warning {
                let mut w = w.clone();
                for t in w.tids.iter_mut() {
                    if let Some(p) = t.find("_sub_") {
                        t.truncate(p);
                    }
                }
                w
            };
            let mut nx: Vec<Warning> = x.iter().map(strip).collect();
            let mut ny: Vec<Warning> = y.iter().map(strip).collect();
            nx.sort();
            ny.sort();
            if shared_blocks && nx == ny && !names.is_empty() {
                return ("block-copy-suffix-only".to_string(), detail);
            }
            // class: the same warnings (check, source address, symbols, description), only the
            // reported sink (later addresses / tids) differs
            let reduce = |w: &Warning| (w.name.clone(), w.version.clone(), w.addresses.first().cloned(), w.symbols.clone(), w.other.clone(), w.description.clone());
            let mut rx: Vec<_> = x.iter().map(reduce).collect();
            let mut ry: Vec<_> = y.iter().map(reduce).collect();
            rx.sort();
            ry.sort();
            if shared_blocks && rx == ry && !names.is_empty() {
                return ("block-copy-reported-sink".to_string(), detail);
            }
            // class: for every check whose warnings differ, a differing warning refers to a block
            // copy (a TID with the `_sub_<address>` suffix), i.e. the choice between sites inside
            // duplicated blocks differs
            let involves_copy = |n: &String| only_x.iter().chain(only_y.iter()).any(|w| &w.name == n && w.tids.iter().any(|t| t.contains("_sub_")));
            if shared_blocks && !names.is_empty() && names.iter().all(involves_copy) {
                return ("block-copy-other-site".to_string(), detail);
            }
            if names.is_empty() {
                ("order-or-multiplicity".to_string(), detail)
            } else {
                (names.into_iter().collect::<Vec<_>>().join("+"), detail)
            }
        }
        _ => ("unparsable".to_string(), String::new()),
    }
}

pub fn run(eng: &mut Engine) {
    let k = eng.tier.pick(4usize, 12usize);
    eng.rule = format!(
        "a case is one generated input (trigger pack + shared-block/many-extern biased program) analysed {} times with --json and 2 times with plain output, all checks enabled, each in a fresh process; \
         non-trivial = >= 2 blocks shared between functions and >= 4 warnings; distinct by hash of the tape",
        k
    );
    eng.assumptions = vec![
        "per-process hash seeds cannot be chosen, only re-drawn by starting fresh processes: a dependence that shows with probability p per run is missed with probability (1-p)^(k-1) per input".into(),
        "inputs on which every run fails identically (exit status / stderr) are C21's business and skipped (label)".into(),
    ];
    let table = match scan_modules(&repo_root()) {
        Ok(m) => ModuleTable { modules: m },
        Err(e) => {
            eng.inconclusive.push(format!("source scan failed: {}", e));
            return;
        }
    };
    if !std::path::Path::new(&cli_path()).is_file() {
        eng.inconclusive.push(format!("CLI binary {} not found (build it / set VERIF_CLI)", cli_path()));
        return;
    }
    eng.extra.insert("cli".into(), serde_json::json!(cli_path()));
    eng.extra.insert("runs_per_input".into(), serde_json::json!(k));
    let names = table.names();
    let all_arg = names.join(",");
    let problems: Mutex<Vec<String>> = Mutex::new(vec![]);
    let config = config_path();
    let cases = cases(eng.tier.pick(320, 3000));

    eng.random(
        "repeat",
        RandomSpec { cases, max_tape: 400 },
        |tape: &[u8], ctx: &mut Ctx| -> CaseResult {
            if let Some(r) = shrink_gate(tape, 8) {
                return r;
            }
            let r = (|| -> CaseResult {
                let inp = decode(tape);
                let dir = TmpDir::new("c23_");
                let (pj, ef) = dir.write_input("in", &inp);
                for (mode, json_out, reps) in [("json", true, k), ("plain", false, 2usize)] {
                    let args = analysis_args(&pj, &ef, &config, json_out, Some(&all_arg));
                    let mut first: Option<RunOut> = None;
                    for rep in 0..reps {
                        let run = run_cli(&dir, &format!("{}{}", mode, rep), &args);
                        if let Some(e) = &run.spawn_error {
                            problems.lock().unwrap().push(format!("cannot run CLI: {}", e));
                            return Ok(());
                        }
                        if run.timed_out {
                            handle_timeout("C23", ctx, &problems, tape, mode, &dir, &pj, &ef, &config, &names, true);
                            return Ok(());
                        }
                        ctx.extra_evaluations(1);
                        match &first {
                            None => {
                                if mode == "json" && run.code == Some(0) {
                                    if let Ok(ws) = parse_warnings(&run.stdout) {
                                        let names: BTreeSet<&str> = ws.iter().map(|w| w.name.as_str()).collect();
                                        ctx.label_n("warnings", ws.len() as u64);
                                        if ws.len() >= 4 {
                                            ctx.label("warnings>=4");
                                        }
                                        if ws.len() >= 12 {
                                            ctx.label("warnings>=12");
                                        }
                                        if names.len() >= 6 {
                                            ctx.label("firing-checks>=6");
                                        }
                                        let mut per: std::collections::BTreeMap<&str, usize> = Default::default();
                                        for w in &ws {
                                            *per.entry(w.name.as_str()).or_insert(0) += 1;
                                        }
                                        if per.values().any(|c| *c >= 3) {
                                            ctx.label("check-with>=3-warnings");
                                        }
                                        if inp.stats.shared_blocks.len() >= 2 && ws.len() >= 4 {
                                            ctx.label("nontrivial");
                                            ctx.nontrivial(case_hash(tape));
                                        }
                                        ctx.sample(|| format!("subs={} blocks={} shared={} externs={} warnings={} checks={:?}", inp.stats.subs, inp.stats.blocks, inp.stats.shared_blocks.len(), inp.stats.externs, ws.len(), names));
                                    }
                                }
                                first = Some(run);
                            }
                            Some(f) => {
                                if f.code != run.code {
                                    ctx.report(
                                        format!("C23:{}:exit-status-differs", mode),
                                        format!("run 0: exit {:?}, run {}: exit {:?}\nstderr 0: {}\nstderr {}: {}", f.code, rep, run.code, f.stderr.chars().take(400).collect::<String>(), rep, run.stderr.chars().take(400).collect::<String>()),
                                    )?;
                                    break;
                                }
                                if f.stdout != run.stdout {
                                    let (names, detail) = if json_out { differing_names(&f.stdout, &run.stdout, !inp.stats.shared_blocks.is_empty()) } else { {
                                        // plain output is the projection (name, version, description) of the JSON
                                        // output; without TIDs only the coarse class "input has shared blocks" is decidable
                                        let la: BTreeSet<&str> = std::str::from_utf8(&f.stdout).unwrap_or("").lines().collect();
                                        let lb: BTreeSet<&str> = std::str::from_utf8(&run.stdout).unwrap_or("").lines().collect();
                                        let mut names: BTreeSet<String> = BTreeSet::new();
                                        for l in la.symmetric_difference(&lb) {
                                            names.insert(l.split(']').next().unwrap_or("").trim_start_matches('[').to_string());
                                        }
                                        let n = if names.is_empty() { "order-or-multiplicity".to_string() } else { names.into_iter().collect::<Vec<_>>().join("+") };
                                        if !inp.stats.shared_blocks.is_empty() && n != "order-or-multiplicity" {
                                            ("shared-blocks-input".to_string(), n)
                                        } else {
                                            (n, String::new())
                                        }
                                    } };
                                    let (a, b) = (String::from_utf8_lossy(&f.stdout), String::from_utf8_lossy(&run.stdout));
                                    let first_diff = a.lines().zip(b.lines()).position(|(x, y)| x != y).unwrap_or(0);
                                    let ctxl = |s: &str| s.lines().skip(first_diff.saturating_sub(2)).take(8).collect::<Vec<_>>().join("\n");
                                    ctx.report(
                                        format!("C23:{}:output-differs:{}", mode, names),
                                        format!("`cwe_checker {}` run 0 and run {} differ (first differing line {}):\n--- run 0\n{}\n--- run {}\n{}\n{}", args.join(" "), rep, first_diff + 1, ctxl(&a), rep, ctxl(&b), detail),
                                    )?;
                                    // keep comparing the remaining runs (a known class must not hide another one)
                                }
                            }
                        }
                    }
                    if let Some(f) = &first {
                        if f.code != Some(0) {
                            ctx.label("all-runs-fail-identically(C21)");
                        }
                    }
                }
                if inp.stats.shared_blocks.len() >= 3 {
                    ctx.label("shared-blocks>=3");
                }
                if inp.stats.externs >= 20 {
                    ctx.label("externs>=20");
                }
                Ok(())
            })();
            shrink_note(tape, &r);
            r
        },
        |tape| {
            let inp = decode(tape);
            save_failing_input("C23", tape, &[("in", &inp)])
        },
    );
    for p in problems.into_inner().unwrap().into_iter().take(5) {
        eng.inconclusive.push(p);
    }
    eng.require_fraction("repeat", "nontrivial", 0.4 / 7.0);
    eng.require_fraction("repeat", "shared-blocks>=3", 0.25 / 7.0);
    eng.require_fraction("repeat", "externs>=20", 0.4 / 7.0);
}
