//! C21 — the analyzer completes on every well-formed input and its output is well-formed.
//!
//! Drives the real CLI binary (`VERIF_CLI`) on generated P-Code project JSON + ELF files with the
//! shipped configuration and three check selections (default, random `--partial` subset, all).
//! Oracle: exit status 0, empty stderr, stdout is a JSON array of `CweWarning` objects with known
//! (name, version), addresses occurring in the input, sorted in the canonical order recomputed here.

use super::cli_gen::*;
use crate::engine::{CaseResult, Ctx, Engine, RandomSpec};
use crate::tape::Tape;
use std::sync::Mutex;

pub struct Head {
    pub kind: ElfKind,
    pub debug: bool,
    pub pack: Pack,
    pub subset: u32,
    pub partial_style: usize,
    pub body_at: usize,
}

pub fn decode_head(tape: &[u8]) -> Head {
    let mut t = Tape::new(tape);
    // executables, shared objects and relocatable objects (kernel-module shaped: the section-based loader)
    let kind = match t.below(5) {
        0 | 1 => ElfKind::Exec,
        2 | 3 => ElfKind::Dyn,
        _ => ElfKind::Lkm,
    };
    let debug = t.prob(if kind == ElfKind::Lkm { 128 } else { 64 });
    let pack = if t.prob(128) { Pack::User(t.u16() as u32) } else { Pack::None };
    let subset = t.u32();
    let partial_style = t.below(4);
    Head { kind, debug, pack, subset, partial_style, body_at: t.pos() }
}

pub fn decode(tape: &[u8]) -> (Head, Input) {
    let h = decode_head(tape);
    let body = if h.body_at <= tape.len() { &tape[h.body_at..] } else { &tape[0..0] };
    let inp = gen_input(body, h.kind, &PROFILE_C21, h.pack, h.debug);
    (h, inp)
}

/// `--partial` argument for the subset `bits` of `names`; style varies the spelling
/// (order, duplicates, empty items) without changing the set.
pub fn partial_arg(names: &[String], bits: u32, style: usize) -> (Vec<String>, String) {
    // The two top bits of the drawn word select the shape of the subset: a uniformly random subset (half of the
    // cases), exactly one check, or exactly two checks. Single checks matter because the pipeline schedules the
    // shared analyses (function signatures, pointer inference, string abstraction) per selection.
    let n = names.len().max(1) as u32;
    let bits = match bits >> 30 {
        2 => 1u32 << (((bits >> 20) & 0x3ff) % n),
        3 => (1u32 << (((bits >> 20) & 0x3ff) % n)) | (1u32 << (((bits >> 10) & 0x3ff) % n)),
        _ => bits & 0x3fff_ffff,
    };
    let mut sel: Vec<String> = names.iter().enumerate().filter(|(i, _)| bits & (1 << i) != 0).map(|(_, n)| n.clone()).collect();
    let set = sel.clone();
    match style {
        1 => sel.reverse(),
        2 => {
            if let Some(f) = sel.first().cloned() {
                sel.push(f);
            }
        }
        3 => sel.push(String::new()),
        _ => {}
    }
    (set, sel.join(","))
}

/// The well-formedness oracle for one run. Returns the parsed warnings.
#[allow(clippy::too_many_arguments)]
pub fn check_run(prop: &str, what: &str, run: &RunOut, inp: &Input, table: &ModuleTable, ctx: &mut Ctx, cmd: &str) -> Result<Option<Vec<Warning>>, crate::engine::Failure> {
    let tail = |s: &str| -> String { s.chars().take(600).collect() };
    if run.code != Some(0) {
        ctx.report(
            format!("{}:exit:{}", prop, abnormal_signature(&run.stderr)),
            format!("[{}] exit status {:?} for `{}`\nstderr: {}", what, run.code, cmd, tail(&run.stderr)),
        )?;
        return Ok(None);
    }
    if !run.stderr.is_empty() {
        ctx.report(format!("{}:stderr-not-empty", prop), format!("[{}] `{}` wrote to stderr: {}", what, cmd, tail(&run.stderr)))?;
        return Ok(None);
    }
    let ws = match parse_warnings(&run.stdout) {
        Ok(w) => w,
        Err(e) => {
            ctx.report(format!("{}:stdout-malformed", prop), format!("[{}] `{}`: {}\nstdout: {}", what, cmd, e, tail(&String::from_utf8_lossy(&run.stdout))))?;
            return Ok(None);
        }
    };
    for w in &ws {
        if !table.name_known(&w.name) {
            ctx.report(format!("{}:unknown-check-name", prop), format!("[{}] warning names unknown check {:?}: {:?}", what, w.name, w))?;
            continue;
        }
        if table.emitters(&w.name, &w.version).is_empty() {
            ctx.report(format!("{}:wrong-version:{}", prop, w.name), format!("[{}] warning {:?} has version {:?}, known modules: {:?}", what, w.name, w.version, table.modules))?;
        }
        if w.addresses.is_empty() && !ADDRESSLESS.contains(&w.name.as_str()) {
            ctx.report(format!("{}:empty-addresses:{}", prop, w.name), format!("[{}] warning without addresses: {:?}", what, w))?;
        }
        for a in &w.addresses {
            if !inp.addrs.contains(a) {
                ctx.report(format!("{}:foreign-address:{}", prop, w.name), format!("[{}] address {:?} does not occur in the input: {:?}", what, a, w))?;
            }
        }
    }
    if let Some(i) = is_sorted(&ws) {
        ctx.report(format!("{}:not-sorted", prop), format!("[{}] `{}`: warnings {} and {} are out of canonical order:\n{:?}\n{:?}", what, cmd, i - 1, i, ws[i - 1], ws[i]))?;
    }
    Ok(Some(ws))
}

pub const PI_MODULES: &[&str] = &["CWE119", "CWE134", "CWE190", "CWE252", "CWE337", "CWE416", "CWE476", "CWE789", "Memory", "CWE78"];

pub fn run(eng: &mut Engine) {
    eng.rule = "a case is one generated (P-Code project JSON, ELF) pair run with 3 check selections (default, random --partial subset, all checks); \
                non-trivial = the all-checks run emits warnings of >= 3 different checks and the partial selection contains a pointer-inference dependent check; distinct by hash of the tape-decoded input"
        .into();
    eng.assumptions = vec![
        "extractor-shaped input synthesised from reading src/ghidra/p_code_extractor (tid naming, <= 2 jumps per block, __stdcall present, parameter registers are base registers, unique sub TIDs)".into(),
        "CWE332 and CWE215 are program-wide warnings and carry no address by design; CWE125/CWE787 are emitted by CWE119, CWE415 by CWE416, CWE476 (with the Memory version) by the pointer inference".into(),
        "chroot calls always have a return site (the call-without-return panic of cwe_243 belongs to C17)".into(),
        "a 60 s per-process watchdog yields inconclusive, never a violation".into(),
    ];
    let table = match scan_modules(&repo_root()) {
        Ok(m) => ModuleTable { modules: m },
        Err(e) => {
            eng.inconclusive.push(format!("source scan failed: {}", e));
            return;
        }
    };
    if !std::path::Path::new(&cli_path()).is_file() {
        eng.inconclusive.push(format!("CLI binary {} not found (build it / set VERIF_CLI)", cli_path()));
        return;
    }
    eng.extra.insert("cli".into(), serde_json::json!(cli_path()));
    eng.extra.insert("modules_scanned".into(), serde_json::json!(table.modules.iter().map(|m| format!("{} {}", m.name, m.version)).collect::<Vec<_>>()));
    let names = table.names();
    let all_arg = names.join(",");
    let problems: Mutex<Vec<String>> = Mutex::new(vec![]);
    let config = config_path();
    let cases = cases(eng.tier.pick(1216, 16000));

    eng.random(
        "pipeline",
        RandomSpec { cases, max_tape: 400 },
        |tape: &[u8], ctx: &mut Ctx| -> CaseResult {
            if let Some(r) = shrink_gate(tape, 24) {
                return r;
            }
            let r = (|| -> CaseResult {
                let (h, inp) = decode(tape);
                if std::env::var("VERIF_DUMP_INPUT").is_ok() {
                    eprintln!("{}", save_failing_input("C21", tape, &[("dump", &inp)]).lines().next().unwrap_or(""));
                }
                let dir = TmpDir::new("c21_");
                let (pj, ef) = dir.write_input("in", &inp);
                let (set, parg) = partial_arg(&names, h.subset, h.partial_style);
                let sels: [(&str, Option<&str>); 3] = [("all", Some(all_arg.as_str())), ("partial", Some(parg.as_str())), ("default", None)];
                let mut firing_all = std::collections::BTreeSet::new();
                let mut n_all = 0;
                let mut hang = false;
                for (what, partial) in sels {
                    if hang && partial.map(|p| p.split(',').any(|n| n == "CWE78")).unwrap_or(false) {
                        ctx.label("skipped-after-hang");
                        continue;
                    }
                    let args = analysis_args(&pj, &ef, &config, true, partial);
                    let run = run_cli(&dir, what, &args);
                    if let Some(e) = &run.spawn_error {
                        problems.lock().unwrap().push(format!("cannot run CLI: {}", e));
                        return Ok(());
                    }
                    if run.timed_out {
                        let has78 = partial.map(|p| p.split(',').any(|n| n == "CWE78")).unwrap_or(false);
                        handle_timeout("C21", ctx, &problems, tape, what, &dir, &pj, &ef, &config, &names, has78);
                        if what == "all" {
                            // the partial selection would hang as well if it contains CWE78
                            hang = true;
                        }
                        continue;
                    }
                    ctx.extra_evaluations(1);
                    if run.millis > 2000 {
                        ctx.label("run>2s");
                    }
                    if run.millis > 10000 {
                        ctx.label("run>10s");
                        ctx.sample(|| format!("slow run {} ms: tape {}", run.millis, crate::tape::hex(tape)));
                    }
                    let cmd = format!("cwe_checker {}", args.join(" "));
                    if let Some(ws) = check_run("C21", what, &run, &inp, &table, ctx, &cmd)? {
                        if what == "all" {
                            n_all = ws.len();
                            for w in &ws {
                                firing_all.insert(w.name.clone());
                            }
                        }
                        ctx.label_n(&format!("warnings-{}", what), ws.len() as u64);
                    }
                }
                // labels
                ctx.label(match firing_all.len() {
                    0 => "firing-checks-0",
                    1..=2 => "firing-checks-1-2",
                    3..=5 => "firing-checks-3-5",
                    _ => "firing-checks-6+",
                });
                if n_all >= 10 {
                    ctx.label("warnings>=10");
                }
                let pi_in_partial = set.iter().any(|n| PI_MODULES.contains(&n.as_str()));
                if pi_in_partial {
                    ctx.label("partial-runs-pointer-inference");
                }
                if set.is_empty() {
                    ctx.label("partial-empty");
                }
                ctx.label(match inp.lay.kind {
                    ElfKind::Exec => "elf-exec",
                    ElfKind::Dyn => "elf-dyn",
                    ElfKind::Lkm => "elf-lkm",
                });
                if inp.stats.loops > 0 {
                    ctx.label("has-loop");
                }
                if inp.stats.shared_block_jumps > 0 {
                    ctx.label("has-shared-block");
                }
                if inp.stats.indirect > 0 {
                    ctx.label("has-indirect");
                }
                if inp.stats.mem_global > 0 {
                    ctx.label("has-global-access");
                }
                if inp.stats.subs >= 3 {
                    ctx.label("subs>=3");
                }
                if inp.stats.misaddressed_subs > 0 {
                    ctx.label("has-function-entry-inside-a-block");
                }
                if firing_all.len() >= 3 && pi_in_partial {
                    ctx.label("nontrivial");
                    ctx.nontrivial(case_hash(tape));
                }
                ctx.sample(|| format!("subs={} blocks={} defs={} externs={} firing={:?} partial={:?}", inp.stats.subs, inp.stats.blocks, inp.stats.defs, inp.stats.externs, firing_all, parg));
                Ok(())
            })();
            shrink_note(tape, &r);
            r
        },
        |tape| {
            let (h, inp) = decode(tape);
            let (_, parg) = partial_arg(&names, h.subset, h.partial_style);
            format!("partial={:?}\n{}", parg, save_failing_input("C21", tape, &[("in", &inp)]))
        },
    );
    for p in problems.into_inner().unwrap().into_iter().take(5) {
        eng.inconclusive.push(p);
    }
    eng.require_fraction("pipeline", "nontrivial", 0.15 / 4.0);
    eng.require_fraction("pipeline", "partial-runs-pointer-inference", 0.5 / 4.0);
    eng.require_fraction("pipeline", "has-loop", 0.1 / 4.0);
}
