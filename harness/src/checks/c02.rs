//! C02 — interval transfer functions are sound and keep intervals well-formed.
//!
//! For R = op(A, B): (i) refsem(op, a, b) is a member of R for concrete members a of A, b of B
//! (own membership predicate on the serde-observed R), (ii) R has the P-Code result width,
//! (iii) R is well-formed (start <=s end, end on the stride, stride 0 iff singleton).
//! Inputs are built through serde (`IParts::build`), results observed through serde (`c02_obs`).

use super::c02_obs::{hint_variant, hints_in_position, ill_formed, observe, wide_grid, Obs, U1Layout};
use crate::conv::bs;
use crate::dom::{decode_interval, reduced_universe_1byte, universe_1byte, IParts};
use crate::engine::{CaseResult, Ctx, Engine, RandomSpec};
use crate::refsem::{self as rs, from_i, R};
use crate::tape::{fnv, mix64, Tape};
use cwe_checker_lib::abstract_domain::{IntervalDomain, RegisterDomain};
use cwe_checker_lib::intermediate_representation::{BinOpType, CastOpType, UnOpType};

/// Binary operations under test: `bin_op` for every `BinOpType` plus the four public methods.
#[derive(Clone, Copy, Debug, PartialEq, Eq, Hash)]
pub enum BOp {
    Bin(BinOpType),
    PubAdd,
    PubSub,
    PubMul,
    PubShl,
}

impl BOp {
    fn sem(self) -> BinOpType {
        match self {
            BOp::Bin(o) => o,
            BOp::PubAdd => BinOpType::IntAdd,
            BOp::PubSub => BinOpType::IntSub,
            BOp::PubMul => BinOpType::IntMult,
            BOp::PubShl => BinOpType::IntLeft,
        }
    }
    fn name(self) -> String {
        match self {
            BOp::Bin(o) => format!("{:?}", o),
            BOp::PubAdd => "fn-add".into(),
            BOp::PubSub => "fn-sub".into(),
            BOp::PubMul => "fn-signed_mul".into(),
            BOp::PubShl => "fn-shift_left".into(),
        }
    }
    fn apply(self, a: &IntervalDomain, b: &IntervalDomain) -> IntervalDomain {
        match self {
            BOp::Bin(o) => a.bin_op(o, b),
            BOp::PubAdd => a.add(b),
            BOp::PubSub => a.sub(b),
            BOp::PubMul => a.signed_mul(b),
            BOp::PubShl => a.shift_left(b),
        }
    }
}

/// Per-case counters, flushed into labels once per case (keeps the hot loops free of map lookups).
#[derive(Default)]
struct Loc {
    abstract_evals: u64,
    member_checks: u64,
    top: u64,
    exact_singleton: u64,
    stride_gt1: u64,
    nontop_multi: u64,
    hint_out: u64,
    hint_kept: u64,
    undef_skipped: u64,
}

impl Loc {
    fn flush(&self, ctx: &mut Ctx) {
        // one evaluation = one call of the code under test with all three oracle clauses;
        // the engine counted one for the case itself. Member checks are reported as a label.
        ctx.extra_evaluations(self.abstract_evals.saturating_sub(1));
        ctx.label("cases");
        ctx.label_n("member-checks", self.member_checks);
        ctx.label_n("result-top", self.top);
        ctx.label_n("result-exact-singleton", self.exact_singleton);
        ctx.label_n("result-stride>1", self.stride_gt1);
        ctx.label_n("result-nontop-multi", self.nontop_multi);
        ctx.label_n("result-hint-out-of-position(measured)", self.hint_out);
        ctx.label_n("result-keeps-a-hint", self.hint_kept);
        ctx.label_n("members-skipped-undefined-div0", self.undef_skipped);
    }
}

/// Clauses (ii) and (iii) on an observed result. `Ok(false)` = the value is unusable for the
/// membership clause (wrong width, known finding), `Ok(true)` = go on.
fn check_shape(ctx: &mut Ctx, name: &str, class: &str, o: &Obs, expect_w: usize, loc: &mut Loc, what: &dyn Fn() -> String) -> Result<bool, crate::engine::Failure> {
    if o.p.w != expect_w || o.end_w != expect_w {
        ctx.report(
            format!("C02:wrong-width:{}{}", name, class),
            format!("{}: result bounds have widths ({}, {}) bytes, P-Code result width is {}", what(), o.p.w, o.end_w, expect_w),
        )?;
        return Ok(false);
    }
    if o.lo_w.map(|w| w != expect_w).unwrap_or(false) || o.hi_w.map(|w| w != expect_w).unwrap_or(false) {
        ctx.report(
            format!("C02:hint-width:{}{}", name, class),
            format!("{}: widening hints of widths {:?}/{:?} in a result of width {}", what(), o.lo_w, o.hi_w, expect_w),
        )?;
    }
    if let Some((kind, msg)) = ill_formed(&o.p) {
        ctx.report(format!("C02:{}:{}{}", kind, name, class), format!("{}: ill-formed result {:?}: {}", what(), o.p, msg))?;
    }
    if !hints_in_position(&o.p) {
        loc.hint_out += 1;
        ctx.label(&format!("result-hint-out-of-position(measured):{}", name));
    }
    if o.p.lo.is_some() || o.p.hi.is_some() {
        loc.hint_kept += 1;
    }
    if o.p.is_top() {
        loc.top += 1;
    } else if o.p.start == o.p.end {
        loc.exact_singleton += 1;
    } else {
        loc.nontop_multi += 1;
        if o.p.stride > 1 {
            loc.stride_gt1 += 1;
        }
    }
    Ok(true)
}

/// Decidable input classes of confirmed repository defects. The class becomes part of the
/// signature, so that a known finding only covers its own class and every other failure of the
/// same operation still is a fresh violation.
fn bin_class(sem: BinOpType, pa: &IParts, pb: &IParts) -> &'static str {
    let a_has = |v: i128| pa.start == v || pa.end == v;
    let b_has = |v: i128| pb.start == v || pb.end == v;
    match sem {
        BinOpType::IntMult => {
            if a_has(-1) && b_has(pb.smin()) {
                // Bitvector::signed_mult_with_overflow_flag(-1, MIN) does not report the overflow
                ":corner-minus1-times-MIN"
            } else if (pa.start == 0 && pa.end == 0) || (pb.start == 0 && pb.end == 0) {
                ":zero-factor"
            } else {
                ""
            }
        }
        BinOpType::IntLeft => {
            // shift_left multiplies with 1 << amount, which is MIN for amount = bits - 1
            let amount = (pb.start as u128) & rs::mask(pb.w);
            if pb.start == pb.end && amount == (8 * pa.w as u128 - 1) && a_has(-1) {
                ":corner-minus1-times-MIN"
            } else {
                ""
            }
        }
        BinOpType::Piece => {
            // Interval::piece computes `self.stride << bits(other)` in u64 for a singleton low part
            let sh = 8 * pb.w as u32;
            if pb.start == pb.end && pa.stride != 0 && (sh >= 64 || pa.stride.leading_zeros() < sh) {
                ":stride-shift-overflow"
            } else {
                ""
            }
        }
        _ => "",
    }
}

fn cast_class(op: CastOpType, tw: usize, pa: &IParts) -> &'static str {
    if op == CastOpType::IntZExt && tw > 8 && sign_crossing(pa) {
        ":sign-crossing-to-more-than-8-bytes"
    } else {
        ""
    }
}

#[allow(clippy::too_many_arguments)]
fn check_bin(
    ctx: &mut Ctx,
    op: BOp,
    name: &str,
    pa: &IParts,
    pb: &IParts,
    da: &IntervalDomain,
    db: &IntervalDomain,
    ma: &[i128],
    mb: &[i128],
    loc: &mut Loc,
) -> CaseResult {
    loc.abstract_evals += 1;
    let r = match ctx.cut(|| op.apply(da, db))? {
        Some(r) => r,
        None => return Ok(()),
    };
    let sem = op.sem();
    let ew = rs::bin_width(sem, pa.w, pb.w);
    let o = observe(&r);
    let what = || format!("{}({:?}, {:?})", name, pa, pb);
    let class = bin_class(sem, pa, pb);
    if !check_shape(ctx, name, class, &o, ew, loc, &what)? {
        return Ok(());
    }
    if rs::is_float_bin(sem) {
        if !o.p.is_top() {
            ctx.report(format!("C02:float-not-top:{}", name), format!("{} = {:?}: a floating point operation must yield Top", what(), o.p))?;
        }
        return Ok(());
    }
    if o.p.is_top() {
        return Ok(()); // every value of the right width is represented
    }
    for a in ma {
        let va = from_i(*a, pa.w);
        for b in mb {
            loc.member_checks += 1;
            match rs::bin(sem, va, from_i(*b, pb.w)) {
                R::Val(c) => {
                    if c.w != ew || !o.p.member_u(c.v) {
                        return ctx.report(
                            format!("C02:unsound:{}{}", name, class),
                            format!("{} = {:?}, but concrete {} {:?} {} = {} (width {}) is not represented", what(), o.p, a, sem, b, rs::sext(c.v, c.w), c.w),
                        );
                    }
                }
                R::Undef(_) => loc.undef_skipped += 1,
                R::Float(_) => {}
            }
        }
    }
    Ok(())
}

fn check_un(ctx: &mut Ctx, op: UnOpType, name: &str, pa: &IParts, da: &IntervalDomain, ma: &[i128], loc: &mut Loc) -> CaseResult {
    loc.abstract_evals += 1;
    let r = match ctx.cut(|| da.un_op(op))? {
        Some(r) => r,
        None => return Ok(()),
    };
    let o = observe(&r);
    let what = || format!("{}({:?})", name, pa);
    let probe = rs::un(op, from_i(pa.start, pa.w));
    let (ew, float) = match probe {
        R::Val(v) => (v.w, false),
        R::Undef(w) => (w, false),
        R::Float(w) => (w, true),
    };
    if !check_shape(ctx, name, "", &o, ew, loc, &what)? {
        return Ok(());
    }
    if float {
        if !o.p.is_top() {
            ctx.report(format!("C02:float-not-top:{}", name), format!("{} = {:?}: a floating point operation must yield Top", what(), o.p))?;
        }
        return Ok(());
    }
    if o.p.is_top() {
        return Ok(());
    }
    for a in ma {
        loc.member_checks += 1;
        if let R::Val(c) = rs::un(op, from_i(*a, pa.w)) {
            if !o.p.member_u(c.v) {
                return ctx.report(
                    format!("C02:unsound:{}", name),
                    format!("{} = {:?}, but concrete {:?}({}) = {} is not represented", what(), o.p, op, a, rs::sext(c.v, c.w)),
                );
            }
        }
    }
    Ok(())
}

fn check_cast(ctx: &mut Ctx, op: CastOpType, name: &str, tw: usize, pa: &IParts, da: &IntervalDomain, ma: &[i128], loc: &mut Loc) -> CaseResult {
    loc.abstract_evals += 1;
    let r = match ctx.cut(|| da.cast(op, bs(tw)))? {
        Some(r) => r,
        None => return Ok(()),
    };
    let o = observe(&r);
    let what = || format!("{}({:?} -> {} bytes)", name, pa, tw);
    let class = cast_class(op, tw, pa);
    if !check_shape(ctx, name, class, &o, tw, loc, &what)? {
        return Ok(());
    }
    if matches!(op, CastOpType::Int2Float | CastOpType::Float2Float | CastOpType::Trunc) {
        if !o.p.is_top() {
            ctx.report(format!("C02:float-not-top:{}", name), format!("{} = {:?}: a floating point cast must yield Top", what(), o.p))?;
        }
        return Ok(());
    }
    if o.p.is_top() {
        return Ok(());
    }
    for a in ma {
        loc.member_checks += 1;
        if let R::Val(c) = rs::cast(op, from_i(*a, pa.w), tw) {
            if !o.p.member_u(c.v) {
                return ctx.report(
                    format!("C02:unsound:{}{}", name, class),
                    format!("{} = {:?}, but concrete {:?}({}) = {} is not represented", what(), o.p, op, a, rs::sext(c.v, c.w)),
                );
            }
        }
    }
    Ok(())
}

fn check_subpiece(ctx: &mut Ctx, low: usize, size: usize, pa: &IParts, da: &IntervalDomain, ma: &[i128], loc: &mut Loc) -> CaseResult {
    loc.abstract_evals += 1;
    let r = match ctx.cut(|| da.subpiece(bs(low), bs(size)))? {
        Some(r) => r,
        None => return Ok(()),
    };
    let o = observe(&r);
    let what = || format!("subpiece({:?}, low {}, size {})", pa, low, size);
    if !check_shape(ctx, "Subpiece", "", &o, size, loc, &what)? {
        return Ok(());
    }
    if o.p.is_top() {
        return Ok(());
    }
    for a in ma {
        loc.member_checks += 1;
        let c = rs::subpiece(from_i(*a, pa.w), low, size);
        if !o.p.member_u(c.v) {
            return ctx.report(
                "C02:unsound:Subpiece",
                format!("{} = {:?}, but concrete subpiece({}) = {} is not represented", what(), o.p, a, rs::sext(c.v, c.w)),
            );
        }
    }
    Ok(())
}

const UN_NAMES: [(&str, UnOpType); 10] = [
    ("IntNegate", UnOpType::IntNegate),
    ("Int2Comp", UnOpType::Int2Comp),
    ("BoolNegate", UnOpType::BoolNegate),
    ("FloatNegate", UnOpType::FloatNegate),
    ("FloatAbs", UnOpType::FloatAbs),
    ("FloatSqrt", UnOpType::FloatSqrt),
    ("FloatCeil", UnOpType::FloatCeil),
    ("FloatFloor", UnOpType::FloatFloor),
    ("FloatRound", UnOpType::FloatRound),
    ("FloatNaN", UnOpType::FloatNaN),
];
const CAST_NAMES: [(&str, CastOpType); 7] = [
    ("IntZExt", CastOpType::IntZExt),
    ("IntSExt", CastOpType::IntSExt),
    ("Int2Float", CastOpType::Int2Float),
    ("Float2Float", CastOpType::Float2Float),
    ("Trunc", CastOpType::Trunc),
    ("PopCount", CastOpType::PopCount),
    ("LzCount", CastOpType::LzCount),
];
const CAST_TARGETS: [usize; 5] = [1, 2, 4, 8, 16];

fn is_bool_interval(p: &IParts) -> bool {
    p.w == 1 && p.start >= 0 && p.end <= 1
}

/// One unary-style operation (unary op, cast to a width, subpiece).
#[derive(Clone, Copy, Debug)]
enum UDesc {
    Un(&'static str, UnOpType),
    Cast(&'static str, CastOpType, usize),
    Sub(usize, usize),
}

/// All unary operations (except BoolNegate), casts and subpieces that are legal for width `w`.
fn unary_descs(w: usize) -> Vec<UDesc> {
    let mut v = vec![];
    for (name, op) in UN_NAMES {
        if op != UnOpType::BoolNegate {
            v.push(UDesc::Un(name, op));
        }
    }
    for (name, op) in CAST_NAMES {
        for tw in CAST_TARGETS {
            if matches!(op, CastOpType::IntZExt | CastOpType::IntSExt) && tw < w {
                continue;
            }
            v.push(UDesc::Cast(name, op, tw));
        }
    }
    for size in 1..=w {
        for low in 0..=(w - size) {
            v.push(UDesc::Sub(low, size));
        }
    }
    v
}

fn check_udesc(ctx: &mut Ctx, d: UDesc, pa: &IParts, da: &IntervalDomain, ma: &[i128], loc: &mut Loc) -> CaseResult {
    match d {
        UDesc::Un(name, op) => check_un(ctx, op, name, pa, da, ma, loc),
        UDesc::Cast(name, op, tw) => check_cast(ctx, op, name, tw, pa, da, ma, loc),
        UDesc::Sub(low, size) => check_subpiece(ctx, low, size, pa, da, ma, loc),
    }
}

/// `require_fraction` relative to the number of cases of a section whose evaluation count
/// includes extra evaluations (the engine's version divides by `evaluations`).
fn require_case_fraction(eng: &mut Engine, section: &str, label: &str, min: f64) {
    if matches!(eng.mode, crate::engine::Mode::Replay { .. }) || eng.violations.iter().any(|v| v.section == section) {
        return;
    }
    let n = eng.label_count(section, "cases");
    let c = eng.label_count(section, label);
    if n == 0 || (c as f64) < min * n as f64 {
        eng.inconclusive.push(format!("generator starvation: section {} label {} = {} of {} cases (< {:.3})", section, label, c, n, min));
    }
}

fn all_bops() -> Vec<(BOp, String)> {
    let mut v: Vec<BOp> = rs::INT_BIN_OPS.iter().chain(rs::FLOAT_BIN_OPS.iter()).map(|o| BOp::Bin(*o)).collect();
    v.extend([BOp::PubAdd, BOp::PubSub, BOp::PubMul, BOp::PubShl]);
    v.into_iter().map(|o| (o, o.name())).collect()
}

fn sign_crossing(p: &IParts) -> bool {
    p.start < 0 && p.end >= 0
}

fn input_labels(ctx: &mut Ctx, ps: &[&IParts]) {
    if ps.iter().any(|p| p.lo.is_some() || p.hi.is_some()) {
        ctx.label("hint-present");
    }
    if ps.iter().any(|p| sign_crossing(p)) {
        ctx.label("sign-crossing-input");
    }
    if ps.iter().any(|p| p.stride > 1) {
        ctx.label("input-stride>1");
    }
}

fn nontrivial_rule(ps: &[&IParts]) -> bool {
    ps.iter().any(|p| p.count() >= 2 || p.lo.is_some() || p.hi.is_some())
}

/// Member lists for a pair: all pairs when there are at most 4096, else a deterministic selection
/// (endpoints, stride neighbours, values around 0/-1/MIN/MAX, pseudo-random members).
fn member_lists(pa: &IParts, pb: &IParts, salt: u64, budget: u128) -> (Vec<i128>, Vec<i128>) {
    let (na, nb) = (pa.count(), pb.count());
    if na.saturating_mul(nb) <= budget {
        return (pa.members(budget as usize, salt), pb.members(budget as usize, salt ^ 1));
    }
    let side = (budget as f64).sqrt() as u128; // 64 for 4096
    let lb0 = nb.min(side);
    let la = (budget / lb0).max(side);
    let na_eff = na.min(la);
    let lb = (budget / na_eff).max(side);
    (pa.members(la.max(16) as usize, salt), pb.members(lb.max(16) as usize, salt ^ 1))
}

// ---------------------------------------------------------------------------------------------
// random section

#[derive(Debug, Clone)]
enum Case {
    Bin(BOp, IParts, IParts),
    Un(UnOpType, IParts),
    Cast(CastOpType, usize, IParts),
    Sub(usize, usize, IParts),
}

fn decode_bool_interval(t: &mut Tape) -> IParts {
    match t.below(3) {
        0 => IParts::singleton(0, 1),
        1 => IParts::singleton(1, 1),
        _ => IParts::new(0, 1, 1, 1),
    }
}

fn decode_small_pair(t: &mut Tape, w: usize, hints: bool) -> (IParts, IParts) {
    // operands whose sums/products have a chance not to overflow at width w
    let bits = 8 * w as u32;
    let mk = |t: &mut Tape| -> IParts {
        let mag_bits = t.below((bits as usize / 2).max(2)) as u32;
        let lim = 1i128 << mag_bits;
        let s = (t.u64() as i128 % (2 * lim + 1)) - lim;
        let len_k = t.below(40) as i128;
        let stride = match t.below(6) {
            0 | 1 => 1u64,
            2 => 2,
            3 => 1 + t.below(16) as u64,
            4 => 1u64 << t.below(mag_bits.max(1) as usize),
            _ => 3,
        };
        if len_k == 0 {
            IParts::singleton(s, w)
        } else {
            let smax = (1i128 << (bits - 1)) - 1;
            let e = s + len_k * stride as i128;
            if e > smax {
                IParts::singleton(s, w)
            } else {
                IParts::new(s, e, stride, w)
            }
        }
    };
    let a = mk(t);
    let b = mk(t);
    if hints {
        (hint_variant(&a, 1 + t.below(6) as u64), hint_variant(&b, 1 + t.below(6) as u64))
    } else {
        (a, b)
    }
}

fn decode(t: &mut Tape, ops: &[(BOp, String)], u1: &[IParts]) -> Case {
    let kind = t.below(10);
    let w = *t.choose(&[8usize, 4, 2, 1]);
    let hints = t.prob(110);
    match kind {
        0..=6 => {
            let op = ops[t.below(ops.len())].0;
            let sem = op.sem();
            if rs::is_bool_bin(sem) {
                return Case::Bin(op, decode_bool_interval(t), decode_bool_interval(t));
            }
            if w == 1 && t.prob(128) {
                // random pair from the complete 1-byte universe
                let a = u1[t.below(u1.len())].clone();
                let b = u1[t.below(u1.len())].clone();
                let (a, b) = if hints { (hint_variant(&a, 1 + t.below(6) as u64), hint_variant(&b, 1 + t.below(6) as u64)) } else { (a, b) };
                return Case::Bin(op, a, b);
            }
            if matches!(sem, BinOpType::IntAdd | BinOpType::IntSub | BinOpType::IntMult | BinOpType::IntLeft) && t.prob(128) {
                let (a, mut b) = decode_small_pair(t, w, hints);
                if sem == BinOpType::IntLeft {
                    let bw = *t.choose(&[w, 1, 2, 4, 8]);
                    b = IParts::singleton(t.below(8 * w + 3) as i128, bw);
                    if bw == 1 && b.start > 127 {
                        b = IParts::singleton(b.start - 256, 1);
                    }
                }
                return Case::Bin(op, a, b);
            }
            let a = decode_interval(t, w, hints);
            let bw = if rs::is_shift(sem) || sem == BinOpType::Piece { *t.choose(&[w, 1, 2, 4, 8]) } else { w };
            let mut b = decode_interval(t, bw, hints);
            if rs::is_shift(sem) && t.prob(150) {
                let amt = t.below(8 * w + 3) as i128;
                let amt = if bw == 1 && amt > 127 { amt - 256 } else { amt };
                b = IParts::singleton(amt, bw);
            }
            if !rs::is_shift(sem) && sem != BinOpType::Piece && t.prob(40) {
                // fallback operations are only exact on singletons
                let x = rs::sext(t.int(w), w);
                b = IParts::singleton(x, w);
                if t.prob(200) {
                    return Case::Bin(op, IParts::singleton(a.start, w), b);
                }
            }
            Case::Bin(op, a, b)
        }
        7 => {
            let (_, op) = UN_NAMES[t.below(UN_NAMES.len())];
            if op == UnOpType::BoolNegate {
                Case::Un(op, decode_bool_interval(t))
            } else {
                Case::Un(op, decode_interval(t, w, hints))
            }
        }
        8 => {
            let (_, op) = CAST_NAMES[t.below(CAST_NAMES.len())];
            let a = decode_interval(t, w, hints);
            let targets: Vec<usize> = CAST_TARGETS.iter().copied().filter(|x| !matches!(op, CastOpType::IntZExt | CastOpType::IntSExt) || *x >= w).collect();
            Case::Cast(op, *t.choose(&targets), a)
        }
        _ => {
            let w = if w == 1 && t.prob(200) { 8 } else { w };
            let a = decode_interval(t, w, hints);
            let size = if t.prob(200) {
                let c: Vec<usize> = [1usize, 2, 4, 8].iter().copied().filter(|s| *s <= w).collect();
                *t.choose(&c)
            } else {
                1 + t.below(w)
            };
            let low = t.below(w - size + 1);
            // interval lengths exactly at (and next to) the number of values the kept bytes can hold
            let k = if t.flag() { size } else { low + size };
            if k < w && t.prob(70) {
                let smax = (1i128 << (8 * w - 1)) - 1;
                let stride = *t.choose(&[1i128, 1, 2, 4, 16, 256, 3, 5]);
                let span = ((1i128 << (8 * k)) + t.range(-1, 1) as i128) / stride * stride;
                if span > 0 && span <= smax {
                    let mut start = rs::sext(t.int(w), w);
                    if start > smax - span {
                        start = smax - span;
                    }
                    return Case::Sub(low, size, IParts::new(start, start + span, stride as u64, w));
                }
            }
            Case::Sub(low, size, a)
        }
    }
}

fn run_random_case(c: &Case, ctx: &mut Ctx) -> CaseResult {
    let mut loc = Loc::default();
    let salt = fnv(format!("{:?}", c).as_bytes());
    let r = match c {
        Case::Bin(op, a, b) => {
            let name = op.name();
            ctx.label(&format!("op:{}", name));
            ctx.label(&format!("width:{}", a.w));
            input_labels(ctx, &[a, b]);
            if nontrivial_rule(&[a, b]) {
                ctx.nontrivial(salt);
            }
            let (ma, mb) = member_lists(a, b, salt, 4096);
            let (da, db) = (a.build(), b.build());
            check_bin(ctx, *op, &name, a, b, &da, &db, &ma, &mb, &mut loc)
        }
        Case::Un(op, a) => {
            let name = UN_NAMES.iter().find(|x| x.1 == *op).unwrap().0;
            ctx.label("kind:unary");
            input_labels(ctx, &[a]);
            if nontrivial_rule(&[a]) {
                ctx.nontrivial(salt);
            }
            let ma = a.members(1024, salt);
            check_un(ctx, *op, name, a, &a.build(), &ma, &mut loc)
        }
        Case::Cast(op, tw, a) => {
            let name = CAST_NAMES.iter().find(|x| x.1 == *op).unwrap().0;
            ctx.label("kind:cast");
            input_labels(ctx, &[a]);
            if nontrivial_rule(&[a]) {
                ctx.nontrivial(salt);
            }
            let ma = a.members(1024, salt);
            check_cast(ctx, *op, name, *tw, a, &a.build(), &ma, &mut loc)
        }
        Case::Sub(low, size, a) => {
            ctx.label("kind:subpiece");
            input_labels(ctx, &[a]);
            if nontrivial_rule(&[a]) {
                ctx.nontrivial(salt);
            }
            let ma = a.members(1024, salt);
            check_subpiece(ctx, *low, *size, a, &a.build(), &ma, &mut loc)
        }
    };
    if loc.top == 0 {
        ctx.label("result-not-top");
    }
    loc.flush(ctx);
    r
}

/// In replay mode only the section of the replayed case is set up.
fn wanted(eng: &Engine, section: &str) -> bool {
    match &eng.mode {
        crate::engine::Mode::Replay { section: s, .. } => s == section,
        _ => true,
    }
}

pub fn run(eng: &mut Engine) {
    // anyhow captures a backtrace (global lock + stack unwinding) for every Err of the code under
    // test when RUST_BACKTRACE is set in the environment; that only costs time (10^7 Err results per
    // run), it has no influence on any verdict. Must happen before the first Err is created.
    std::env::set_var("RUST_LIB_BACKTRACE", "0");
    eng.rule = "cases = (operation, input interval values incl. stride, widening hints and delay) evaluated by IntervalDomain::bin_op/un_op/cast/subpiece and the public add/sub/signed_mul/shift_left; one evaluation = one such call whose result is observed through serde and checked for P-Code result width, well-formedness and for containing refsem(op, a, b) for the concrete members (all members at 1 byte; for wider values all pairs when there are few, else endpoints, stride neighbours, values around 0/-1/MIN/MAX and pseudo-random members; counted in the label member-checks). non-trivial = at least one input has >= 2 members or a widening hint; distinct (op, inputs, hint variant) by construction in enumerations, by hash of (op, inputs) in the random section".into();
    eng.assumptions = vec![
        "refsem (harness/src/refsem.rs) is a faithful transcription of the P-Code reference semantics; division by zero is skipped (undefined)".into(),
        "membership = {start + k*stride | start <=s . <=s end} evaluated by dom::IParts::member on the serde-observed result (Interval::contains is not used)".into(),
        "preconditions respected: equal widths except Piece/shifts; shift amount operand <= 8 bytes; extension target >= source width; Bool operations only on sub-intervals of [0,1] at 1 byte; widening hints only where every constructor puts them (lower hint <s start, upper hint >s end); input intervals well-formed".into(),
        "floating point operations are only required to yield Top of the P-Code result width".into(),
        "widths: operands 1/2/4/8 bytes; Piece results and extension targets up to 16 bytes".into(),
    ];
    let thorough = eng.tier == crate::engine::Tier::Thorough;
    let ops = all_bops();
    let int_ops: Vec<(BOp, String)> = ops.iter().filter(|(o, _)| !rs::is_bool_bin(o.sem())).cloned().collect();
    let bool_ops: Vec<(BOp, String)> = ops.iter().filter(|(o, _)| rs::is_bool_bin(o.sem())).cloned().collect();
    let nops = int_ops.len() as u64;

    // 0. boolean operations on all sub-intervals of [0,1] with hint variants (complete)
    if wanted(eng, "bool-operations") {
        let base = [IParts::singleton(0, 1), IParts::singleton(1, 1), IParts::new(0, 1, 1, 1)];
        let mut vals: Vec<IParts> = vec![];
        for k in 0..4 {
            for b in base.iter() {
                vals.push(hint_variant(b, k));
            }
        }
        let n = vals.len() as u64;
        let total = n * n * 3 + n;
        eng.enumerate(
            "bool-operations",
            total,
            true,
            |i, ctx| {
                let mut loc = Loc::default();
                let r = if i < n * n * 3 {
                    let (op, name) = &bool_ops[(i / (n * n)) as usize];
                    let (pa, pb) = (&vals[((i / n) % n) as usize], &vals[(i % n) as usize]);
                    if nontrivial_rule(&[pa, pb]) {
                        ctx.nontrivial_by_construction(1);
                    }
                    check_bin(ctx, *op, name, pa, pb, &pa.build(), &pb.build(), &pa.members(4, 0), &pb.members(4, 0), &mut loc)
                } else {
                    let pa = &vals[(i - n * n * 3) as usize];
                    if nontrivial_rule(&[pa]) {
                        ctx.nontrivial_by_construction(1);
                    }
                    check_un(ctx, UnOpType::BoolNegate, "BoolNegate", pa, &pa.build(), &pa.members(4, 0), &mut loc)
                };
                loc.flush(ctx);
                r
            },
            |i| {
                if i < n * n * 3 {
                    format!("{}({:?}, {:?})", bool_ops[(i / (n * n)) as usize].1, vals[((i / n) % n) as usize], vals[(i % n) as usize])
                } else {
                    format!("BoolNegate({:?})", vals[(i - n * n * 3) as usize])
                }
            },
        );
    }

    // 1. all pairs of 1-byte singletons x every operation (the exact fallback path of bin_op)
    if wanted(eng, "bin-1byte-singleton-pairs") {
        let doms: Vec<IntervalDomain> = (0..256).map(|i| IParts::singleton(i as i128 - 128, 1).build()).collect();
        let parts: Vec<IParts> = (0..256).map(|i| IParts::singleton(i as i128 - 128, 1)).collect();
        eng.enumerate(
            "bin-1byte-singleton-pairs",
            65536 * nops,
            true,
            |i, ctx| {
                let (op, name) = &int_ops[(i >> 16) as usize];
                let (ia, ib) = (((i >> 8) & 0xff) as usize, (i & 0xff) as usize);
                let (pa, pb) = (&parts[ia], &parts[ib]);
                let mut loc = Loc::default();
                if i % 199_999 == 17 {
                    ctx.sample(|| format!("{}({}, {}) on 1-byte singletons", name, pa.start, pb.start));
                }
                let r = check_bin(ctx, *op, name, pa, pb, &doms[ia], &doms[ib], &[pa.start], &[pb.start], &mut loc);
                loc.flush(ctx);
                r
            },
            |i| format!("{} on 1-byte singletons a={} b={}", int_ops[(i >> 16) as usize].1, ((i >> 8) & 0xff) as i128 - 128, (i & 0xff) as i128 - 128),
        );
    }

    // 2. all pairs of the boundary-rich reduced 1-byte universe x hint variants x every operation,
    //    exhaustive over the members of both inputs
    if wanted(eng, "bin-1byte-reduced-universe-pairs") {
        let ru = reduced_universe_1byte();
        // A runs through hint variants 0..nvar (quick: 2, thorough: 3; the index layout is
        // variant-major, so quick indices are a prefix of the thorough ones)
        let nvar: u64 = if thorough { 3 } else { 2 };
        let mut parts: Vec<IParts> = vec![];
        for k in 0..3 {
            for p in ru.iter() {
                parts.push(hint_variant(p, k));
            }
        }
        let doms: Vec<IntervalDomain> = parts.iter().map(|p| p.build()).collect();
        let mems: Vec<Vec<i128>> = ru.iter().map(|p| p.members(256, 0)).collect();
        let n = ru.len() as u64;
        let total = n * n * nvar * nops;
        eng.extra.insert("reduced_universe_1byte_size".into(), serde_json::json!(n));
        // variant k: A carries hint variant k, B carries variant (k + ia) mod 3, so that
        // hint/no-hint combinations of both operands occur
        let locate = |i: u64| -> (usize, usize, usize, usize, usize) {
            let o = (i % nops) as usize;
            let j = i / nops;
            let k = j / (n * n);
            let r = j % (n * n);
            let (ia, ib) = ((r / n) as usize, (r % n) as usize);
            let kb = (k + ia as u64) % 3;
            (o, ia, ib, k as usize * n as usize + ia, kb as usize * n as usize + ib)
        };
        eng.enumerate(
            "bin-1byte-reduced-universe-pairs",
            total,
            true,
            |i, ctx| {
                let (o, ia, ib, xa, xb) = locate(i);
                let (op, name) = &int_ops[o];
                let (pa, pb) = (&parts[xa], &parts[xb]);
                let mut loc = Loc::default();
                input_labels(ctx, &[pa, pb]);
                if nontrivial_rule(&[pa, pb]) {
                    ctx.nontrivial_by_construction(1);
                }
                if i % 1_000_003 == 4242 {
                    ctx.sample(|| format!("{}({:?}, {:?})", name, pa, pb));
                }
                let r = check_bin(ctx, *op, name, pa, pb, &doms[xa], &doms[xb], &mems[ia], &mems[ib], &mut loc);
                loc.flush(ctx);
                r
            },
            |i| {
                let (o, _, _, xa, xb) = locate(i);
                format!("{}(A={:?}, B={:?})", int_ops[o].1, parts[xa], parts[xb])
            },
        );
        eng.require_fraction("bin-1byte-reduced-universe-pairs", "hint-present", 0.30);
        eng.require_fraction("bin-1byte-reduced-universe-pairs", "sign-crossing-input", 0.20);
        eng.require_fraction("bin-1byte-reduced-universe-pairs", "result-nontop-multi", 0.03);
    }

    // 3. unary operations, casts, subpiece over the 1-byte universe (quick: stride <= 8, two hint
    //    variants; thorough: all strides, three variants)
    if wanted(eng, "unary-cast-subpiece-1byte-universe") {
        let lay = U1Layout::new();
        let items = lay.items(if thorough { 9 } else { 4 });
        let descs = unary_descs(1);
        let nd = descs.len() as u64;
        eng.extra.insert("universe_1byte_items_used_for_unary".into(), serde_json::json!(items));
        eng.enumerate(
            "unary-cast-subpiece-1byte-universe",
            items * nd,
            thorough,
            |i, ctx| {
                let d = descs[(i % nd) as usize];
                let (p0, k) = lay.item(i / nd);
                let pa = hint_variant(p0, k);
                let da = pa.build();
                let ma = p0.members(256, 0);
                let mut loc = Loc::default();
                input_labels(ctx, &[&pa]);
                if nontrivial_rule(&[&pa]) {
                    ctx.nontrivial_by_construction(1);
                }
                if i % 1_000_003 == 77 {
                    ctx.sample(|| format!("{:?} on {:?}", d, pa));
                }
                let r = check_udesc(ctx, d, &pa, &da, &ma, &mut loc);
                loc.flush(ctx);
                r
            },
            |i| format!("{:?} on {:?}", descs[(i % nd) as usize], lay.value(i / nd)),
        );
        eng.require_fraction("unary-cast-subpiece-1byte-universe", "hint-present", 0.30);
        eng.require_fraction("unary-cast-subpiece-1byte-universe", "result-nontop-multi", 0.20);
    }

    // 4. unary operations, casts and all subpieces over boundary grids of 2/4/8-byte values
    if wanted(eng, "unary-cast-subpiece-wide-grid") {
        let mut g: Vec<IParts> = vec![];
        for w in [2usize, 4, 8] {
            g.extend(wide_grid(w, false));
        }
        let descs: Vec<Vec<UDesc>> = (0..=8).map(|w| if [2usize, 4, 8].contains(&w) { unary_descs(w) } else { vec![] }).collect();
        let nvar: u64 = 3;
        let n = g.len() as u64;
        eng.extra.insert("wide_grid_size".into(), serde_json::json!(n));
        let lim = if thorough { 4096 } else { 512 };
        eng.enumerate(
            "unary-cast-subpiece-wide-grid",
            n * nvar,
            false,
            |i, ctx| {
                let p0 = &g[(i % n) as usize];
                let pa = hint_variant(p0, i / n);
                let da = pa.build();
                let ma = p0.members(lim, i);
                let mut loc = Loc::default();
                input_labels(ctx, &[&pa]);
                ctx.label(&format!("width:{}", pa.w));
                let mut res = Ok(());
                for d in descs[pa.w].iter() {
                    if nontrivial_rule(&[&pa]) {
                        ctx.nontrivial_by_construction(1);
                    }
                    res = check_udesc(ctx, *d, &pa, &da, &ma, &mut loc);
                    if res.is_err() {
                        break;
                    }
                }
                if i % 20011 == 99 {
                    ctx.sample(|| format!("all unary/cast/subpiece ops on {:?}", pa));
                }
                loc.flush(ctx);
                res
            },
            |i| format!("all unary operations, casts and subpieces of {:?}", hint_variant(&g[(i % n) as usize], i / n)),
        );
    }

    // 5. pairs from boundary grids of 2/4/8-byte values for the operations with own transfer functions
    if wanted(eng, "bin-wide-grid-pairs") {
        let grid_ops: Vec<(BOp, String)> = [
            BOp::Bin(BinOpType::IntAdd),
            BOp::Bin(BinOpType::IntSub),
            BOp::Bin(BinOpType::IntMult),
            BOp::Bin(BinOpType::IntLeft),
            BOp::Bin(BinOpType::Piece),
            BOp::Bin(BinOpType::IntAnd),
            BOp::Bin(BinOpType::IntSDiv),
        ]
        .iter()
        .map(|o| (*o, o.name()))
        .collect();
        // (A grid, B grid) per width; flattened by prefix sums
        // quick: small x small per width; thorough appends big x big (prefix-compatible indices)
        let mut blocks: Vec<(Vec<IParts>, Vec<IParts>)> = vec![];
        for w in [2usize, 4, 8] {
            let small = wide_grid(w, true);
            blocks.push((small.clone(), small));
        }
        if thorough {
            for w in [2usize, 4, 8] {
                blocks.push((wide_grid(w, false), wide_grid(w, false)));
            }
        }
        let mut offs = vec![0u64];
        for (a, b) in &blocks {
            offs.push(offs.last().unwrap() + (a.len() * b.len()) as u64);
        }
        let total = *offs.last().unwrap();
        let locate = |i: u64| -> (IParts, IParts) {
            let k = match offs.binary_search(&i) {
                Ok(k) => k.min(blocks.len() - 1),
                Err(k) => k - 1,
            };
            let (ga, gb) = &blocks[k];
            let r = i - offs[k];
            let (ia, ib) = ((r / gb.len() as u64) as usize, (r % gb.len() as u64) as usize);
            let h = mix64(i);
            (hint_variant(&ga[ia], h % 3), hint_variant(&gb[ib], (h >> 8) % 3))
        };
        eng.enumerate(
            "bin-wide-grid-pairs",
            total,
            false,
            |i, ctx| {
                let (pa, pb) = locate(i);
                let (da, db) = (pa.build(), pb.build());
                let (ma, mb) = member_lists(&pa, &pb, i, 1024);
                let mut loc = Loc::default();
                input_labels(ctx, &[&pa, &pb]);
                ctx.label(&format!("width:{}", pa.w));
                if i % 70001 == 31 {
                    ctx.sample(|| format!("add/sub/mult/left/piece/and/sdiv on {:?} , {:?}", pa, pb));
                }
                let mut res = Ok(());
                for (op, name) in grid_ops.iter() {
                    if nontrivial_rule(&[&pa, &pb]) {
                        ctx.nontrivial_by_construction(1);
                    }
                    res = check_bin(ctx, *op, name, &pa, &pb, &da, &db, &ma, &mb, &mut loc);
                    if res.is_err() {
                        break;
                    }
                }
                loc.flush(ctx);
                res
            },
            |i| {
                let (pa, pb) = locate(i);
                format!("IntAdd/IntSub/IntMult/IntLeft/Piece/IntAnd/IntSDiv on A={:?} B={:?}", pa, pb)
            },
        );
        require_case_fraction(eng, "bin-wide-grid-pairs", "hint-present", 0.30);
    }

    // 6. random, boundary biased: every operation, widths 1/2/4/8, mixed widths for Piece/shifts
    if wanted(eng, "random-all-operations") {
        let u1 = universe_1byte(255);
        let cases = eng.tier.pick(4_000_000u64, 40_000_000u64);
        let ops_r = ops.clone();
        let u1_r = &u1;
        eng.random(
            "random-all-operations",
            RandomSpec { cases, max_tape: 160 },
            |tape, ctx| {
                let c = decode(&mut Tape::new(tape), &ops_r, u1_r);
                ctx.sample(|| format!("{:?}", c));
                run_random_case(&c, ctx)
            },
            |tape| format!("{:?}", decode(&mut Tape::new(tape), &ops, &u1)),
        );
        require_case_fraction(eng, "random-all-operations", "result-not-top", 0.15);
        require_case_fraction(eng, "random-all-operations", "hint-present", 0.10);
        require_case_fraction(eng, "random-all-operations", "sign-crossing-input", 0.10);
        require_case_fraction(eng, "random-all-operations", "input-stride>1", 0.10);
    }
}
