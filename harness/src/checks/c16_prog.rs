//! Shared by C16 and C17: a small "program spec" (extern table, subs, blocks, block ends),
//! its pure tape decoder, the builder that turns it into a `Project` with `crate::irb`, and a
//! few helpers to read the (normalized) project back without any repository logic.
//!
//! The builder produces the shape the lifter produces: unique tids, every jump/return target
//! is a block of the same sub, a block has 0, 1 or 2 jumps and a 2-jump block is always
//! `[CBranch, Branch]`, the key of an extern symbol in the table is the symbol's own tid.

use crate::irb;
use crate::tape::Tape;
use cwe_checker_lib::intermediate_representation::*;
use cwe_checker_lib::utils::log::CweWarning;
use std::collections::BTreeMap;

#[derive(Clone, Debug, PartialEq, Eq, Hash)]
pub struct ExtSpec {
    pub name: String,
    pub no_return: bool,
}

#[derive(Clone, Debug, PartialEq, Eq, Hash)]
pub enum End {
    /// block without jump (dead end)
    None,
    Branch(usize),
    /// `[CBranch cond -> .0, Branch -> .1]`
    CBranch(usize, usize),
    /// indirect branch with target hints
    BranchInd(Vec<usize>),
    CallExt { sym: usize, ret: Option<usize> },
    CallInt { sub: usize, ret: Option<usize> },
    CallInd { ret: Option<usize> },
    CallOther { ret: Option<usize> },
    Return,
}

#[derive(Clone, Debug, PartialEq, Eq, Hash)]
pub struct BlkSpec {
    /// number of (irrelevant) defs; 0 gives an empty forwarding block
    pub ndefs: u8,
    /// which flag the CBranch tests / whether it is negated (only used by CBranch ends)
    pub cond: u8,
    pub end: End,
    /// a call end is preceded by a conditional jump to this block (conditional call: the call is the second jump)
    pub cond_call: Option<usize>,
}

#[derive(Clone, Debug, PartialEq, Eq, Hash)]
pub struct SubSpec {
    pub name: String,
    pub blocks: Vec<BlkSpec>,
}

#[derive(Clone, Debug, PartialEq, Eq, Hash)]
pub struct ProgSpec {
    pub externs: Vec<ExtSpec>,
    pub subs: Vec<SubSpec>,
    /// The first call of every later function carries the address of the first call of the first function (own TID):
    /// the shape that block duplication produces for a block shared between functions (copies keep the addresses).
    pub same_call_address: bool,
}

/// Generator profile.
pub struct Profile<'a> {
    /// extern name pool with presence probability (of 256) and the weight with which a call site picks it
    pub pool: &'a [(&'a str, u16, u32)],
    /// names of non-returning extern symbols of the pool
    pub no_return: &'a [&'a str],
    pub max_subs: usize,
    pub max_blocks: usize,
    /// weights of the block ends: None, Branch, CBranch, BranchInd, CallExt, CallInt, CallInd, CallOther, Return
    pub end_weights: [u32; 9],
    /// probability (of 256) that a call has no return site
    pub p_no_return_site: u16,
    /// probability (of 256) that a sub is named like a pool symbol (an internal function called `system` …)
    pub p_pool_sub_name: u16,
    /// names that may occur twice in the extern table (two import entries with distinct tids, as a binary
    /// with a PLT entry and an external thunk for the same function has) with the given probability (of 256)
    pub dup_names: &'a [&'a str],
    pub p_dup: u16,
    /// probability (of 256) that a call to an extern or internal function is a conditional call `[CBranch, Call]`
    pub p_cond_call: u16,
    /// a quarter of the programs get call sites with equal addresses (see `ProgSpec::same_call_address`)
    pub same_call_address: bool,
}

fn weighted(t: &mut Tape, w: &[u32]) -> usize {
    let total: u32 = w.iter().sum();
    if total == 0 {
        return 0;
    }
    let x = t.below(total as usize) as u32;
    let mut acc = 0;
    for (i, wi) in w.iter().enumerate() {
        acc += wi;
        if x < acc {
            return i;
        }
    }
    w.len() - 1
}

pub fn decode_prog(t: &mut Tape, p: &Profile) -> ProgSpec {
    // extern table
    let mut externs = vec![];
    for (name, presence, _) in p.pool {
        if t.prob(*presence) {
            externs.push(ExtSpec { name: name.to_string(), no_return: p.no_return.contains(name) });
        }
    }
    // duplicate import entries (same name, own tid); placed at the END of the table so that the indices
    // (and tids) of the primary entries do not change
    let primary: Vec<String> = externs.iter().map(|e: &ExtSpec| e.name.clone()).collect();
    for n in p.dup_names {
        if primary.iter().any(|x| x == n) && t.prob(p.p_dup) {
            externs.push(ExtSpec { name: n.to_string(), no_return: p.no_return.contains(n) });
        }
    }
    let call_w: Vec<u32> = externs.iter().map(|e| p.pool.iter().find(|(n, _, _)| *n == e.name).map(|x| x.2).unwrap_or(1)).collect();
    let nsubs = 1 + t.below(p.max_subs);
    let nblocks: Vec<usize> = (0..nsubs).map(|_| 1 + t.below(p.max_blocks)).collect();
    let mut subs = vec![];
    for s in 0..nsubs {
        let name = if t.prob(p.p_pool_sub_name) {
            // an internal function with the name of a pool symbol; made unique per sub by construction below
            let n = p.pool[t.below(p.pool.len())].0;
            if subs.iter().any(|x: &SubSpec| x.name == n) {
                format!("fn{}", s)
            } else {
                n.to_string()
            }
        } else {
            format!("fn{}", s)
        };
        let nb = nblocks[s];
        let mut blocks = vec![];
        for bi in 0..nb {
            let ndefs = t.below(3) as u8;
            let cond = t.below(4) as u8;
            let ret_site = |t: &mut Tape| -> Option<usize> {
                if t.prob(p.p_no_return_site) {
                    None
                } else if t.prob(140) {
                    Some((bi + 1) % nb) // fall-through, the common shape
                } else {
                    Some(t.below(nb))
                }
            };
            let mut kind = weighted(t, &p.end_weights);
            if kind == 4 && externs.is_empty() {
                kind = 0;
            }
            let end = match kind {
                0 => End::None,
                1 => End::Branch(t.below(nb)),
                2 => End::CBranch(t.below(nb), t.below(nb)),
                3 => {
                    let n = t.below(4);
                    End::BranchInd((0..n).map(|_| t.below(nb)).collect())
                }
                4 => {
                    let sym = weighted(t, &call_w);
                    End::CallExt { sym, ret: ret_site(t) }
                }
                5 => End::CallInt { sub: t.below(nsubs), ret: ret_site(t) },
                6 => End::CallInd { ret: ret_site(t) },
                7 => End::CallOther { ret: ret_site(t) },
                _ => End::Return,
            };
            let cond_call = if matches!(end, End::CallExt { .. } | End::CallInt { .. }) && t.prob(p.p_cond_call) { Some(t.below(nb)) } else { None };
            blocks.push(BlkSpec { ndefs, cond, end, cond_call });
        }
        subs.push(SubSpec { name, blocks });
    }
    // derived from the decoded program, not from the tape: the decoding of everything else is unchanged
    let same_call_address = p.same_call_address && crate::tape::fnv(format!("{:?}", subs).as_bytes()) % 4 == 0;
    ProgSpec { externs, subs, same_call_address }
}

pub fn sub_addr(s: usize) -> u64 {
    0x1000 * (s as u64 + 1)
}
pub fn blk_addr(s: usize, b: usize) -> u64 {
    sub_addr(s) + 0x10 * b as u64
}
pub fn ext_tid(k: usize) -> Tid {
    irb::sub_tid(0x100000 + 0x10 * k as u64)
}

fn cond_expr(c: u8) -> Expression {
    let f = irb::evar(&irb::var(if c & 1 == 0 { "ZF" } else { "CF" }, 1));
    if c & 2 == 0 {
        f
    } else {
        irb::eun(UnOpType::BoolNegate, f)
    }
}

pub fn build(spec: &ProgSpec) -> Project {
    let mut subs = vec![];
    for (s, ss) in spec.subs.iter().enumerate() {
        let mut blocks = vec![];
        for (b, bs) in ss.blocks.iter().enumerate() {
            let a = blk_addr(s, b);
            let mut defs = vec![];
            for d in 0..bs.ndefs as usize {
                // harmless defs on a scratch register that is never a parameter
                let r = irb::var("R11", 8);
                let e = if d == 0 { irb::econst(b as i128 + 1, 8) } else { irb::ebin(BinOpType::IntAdd, irb::evar(&r), irb::econst(1, 8)) };
                defs.push(irb::assign(irb::instr_tid(a, d), &r, e));
            }
            let jt = |n: usize| irb::instr_tid(a, 8 + n);
            let bt = |x: usize| irb::blk_tid(blk_addr(s, x));
            let jmps = match &bs.end {
                End::None => vec![],
                End::Branch(x) => vec![irb::jmp(jt(0), Jmp::Branch(bt(*x)))],
                End::CBranch(x, y) => vec![
                    irb::jmp(jt(0), Jmp::CBranch { target: bt(*x), condition: cond_expr(bs.cond) }),
                    irb::jmp(jt(1), Jmp::Branch(bt(*y))),
                ],
                End::BranchInd(_) => vec![irb::jmp(jt(0), Jmp::BranchInd(irb::evar(&irb::var("RAX", 8))))],
                End::CallExt { sym, ret } => vec![irb::jmp(jt(0), Jmp::Call { target: ext_tid(*sym), return_: ret.map(bt) })],
                End::CallInt { sub, ret } => vec![irb::jmp(jt(0), Jmp::Call { target: irb::sub_tid(sub_addr(*sub)), return_: ret.map(bt) })],
                End::CallInd { ret } => vec![irb::jmp(jt(0), Jmp::CallInd { target: irb::evar(&irb::var("RAX", 8)), return_: ret.map(bt) })],
                End::CallOther { ret } => vec![irb::jmp(jt(0), Jmp::CallOther { description: "other".into(), return_: ret.map(bt) })],
                End::Return => vec![irb::jmp(jt(0), Jmp::Return(irb::evar(&irb::var("RAX", 8))))],
            };
            let mut jmps = jmps;
            if let Some(x) = bs.cond_call {
                jmps.insert(0, irb::jmp(jt(2), Jmp::CBranch { target: bt(x), condition: cond_expr(bs.cond) }));
            }
            let mut blk = irb::blk(irb::blk_tid(a), defs, jmps);
            if let End::BranchInd(ts) = &bs.end {
                blk.term.indirect_jmp_targets = ts.iter().map(|x| bt(*x)).collect();
            }
            blocks.push(blk);
        }
        subs.push(irb::sub(irb::sub_tid(sub_addr(s)), &ss.name, blocks));
    }
    if spec.same_call_address {
        let first = subs.first().and_then(|s0: &Term<Sub>| s0.term.blocks.iter().flat_map(|b| b.term.jmps.iter()).find(|j| matches!(j.term, Jmp::Call { .. })).map(|j| j.tid.address.clone()));
        if let Some(addr) = first {
            for s in subs.iter_mut().skip(1) {
                if let Some(j) = s.term.blocks.iter_mut().flat_map(|b| b.term.jmps.iter_mut()).find(|j| matches!(j.term, Jmp::Call { .. })) {
                    j.tid.address = addr.clone();
                }
            }
        }
    }
    let externs: Vec<ExternSymbol> = spec.externs.iter().enumerate().map(|(k, e)| irb::extern_symbol(ext_tid(k), &e.name, &["RDI"], e.no_return)).collect();
    irb::project(subs, externs, vec![irb::sub_tid(sub_addr(0))])
}

// ---------------------------------------------------------------------------------------------
// Reading a (normalized) project back. Plain traversals of the public IR structs.

/// tid of the extern symbol with this name (first in table order, as a symbol table lookup does)
pub fn ext_by_name<'a>(p: &'a Project, name: &str) -> Option<&'a ExternSymbol> {
    p.program.term.extern_symbols.values().find(|s| s.name == name)
}

pub fn is_extern(p: &Project, t: &Tid) -> bool {
    p.program.term.extern_symbols.contains_key(t)
}

/// All `Call` jumps of a sub: (block, jump term, target, return site)
pub fn calls_of_sub(sub: &Term<Sub>) -> Vec<(&Term<Blk>, &Term<Jmp>, &Tid, Option<&Tid>)> {
    let mut v = vec![];
    for b in &sub.term.blocks {
        for j in &b.term.jmps {
            if let Jmp::Call { target, return_ } = &j.term {
                v.push((b, j, target, return_.as_ref()));
            }
        }
    }
    v
}

/// The structured fields of a warning (everything but the free-text description).
#[derive(Clone, Debug, PartialEq, Eq, PartialOrd, Ord, Hash)]
pub struct WKey {
    pub name: String,
    pub version: String,
    pub addresses: Vec<String>,
    pub tids: Vec<String>,
    pub symbols: Vec<String>,
    pub other: Vec<Vec<String>>,
}

pub fn wkey(w: &CweWarning) -> WKey {
    WKey { name: w.name.clone(), version: w.version.clone(), addresses: w.addresses.clone(), tids: w.tids.clone(), symbols: w.symbols.clone(), other: w.other.clone() }
}

/// Multiset difference: (missing = expected but not reported, surplus = reported but not expected)
pub fn multiset_diff<T: Ord + Clone>(expected: &[T], actual: &[T]) -> (Vec<T>, Vec<T>) {
    let mut m: BTreeMap<T, i64> = BTreeMap::new();
    for e in expected {
        *m.entry(e.clone()).or_insert(0) += 1;
    }
    for a in actual {
        *m.entry(a.clone()).or_insert(0) -= 1;
    }
    let mut missing = vec![];
    let mut surplus = vec![];
    for (k, n) in m {
        for _ in 0..n.max(0) {
            missing.push(k.clone());
        }
        for _ in 0..(-n).max(0) {
            surplus.push(k.clone());
        }
    }
    (missing, surplus)
}

/// Compact listing of a project for failure details.
pub fn show_project(p: &Project) -> String {
    let mut s = String::new();
    for (t, e) in &p.program.term.extern_symbols {
        s.push_str(&format!("extern {} = {}{}\n", t, e.name, if e.no_return { " (no_return)" } else { "" }));
    }
    for sub in p.program.term.subs.values() {
        s.push_str(&format!("sub {} \"{}\"\n", sub.tid, sub.term.name));
        for b in &sub.term.blocks {
            s.push_str(&format!("  {} defs={}", b.tid, b.term.defs.len()));
            for j in &b.term.jmps {
                s.push_str(&format!(" | [{}] {}", j.tid, j.term));
            }
            if !b.term.indirect_jmp_targets.is_empty() {
                s.push_str(&format!(" hints={:?}", b.term.indirect_jmp_targets.iter().map(|t| t.to_string()).collect::<Vec<_>>()));
            }
            s.push('\n');
        }
    }
    s
}
