//! C22 — check selection runs exactly the requested checks.
//!
//! Inputs carry a "trigger pack" so that many checks fire at once. With F = the (name, version)
//! pairs of the all-checks run and S a selection: a `--partial S` run shows exactly the pairs of F
//! whose emitting module is in S; the default run shows F without the pairs of CWE78; a kernel
//! module (ET_REL with .modinfo/.gnu.linkonce.this_module, lkm_config.json) run without --partial
//! shows exactly what `--partial K` shows, K = the check sections of lkm_config.json;
//! `--module-versions` lists every `CweModule` static of the sources exactly once with its version.

use super::c21::{check_run, partial_arg};
use super::cli_gen::*;
use crate::engine::{CaseResult, Ctx, Engine, RandomSpec};
use crate::tape::Tape;
use std::collections::BTreeSet;
use std::sync::Mutex;

pub struct Head {
    pub kind: ElfKind,
    pub debug: bool,
    pub mask: u32,
    pub subsets: [(u32, usize); 2],
    pub lkm_mask: u32,
    pub lkm_debug: bool,
    pub body_at: usize,
}

pub fn decode_head(tape: &[u8]) -> Head {
    let mut t = Tape::new(tape);
    let kind = if t.below(2) == 0 { ElfKind::Exec } else { ElfKind::Dyn };
    let debug = t.prob(128);
    // strcpy, ioctl and the CWE78 trigger are always present
    let mask = t.u16() as u32 | 0b10_0000_0011;
    let s1 = (t.u32(), t.below(4));
    let s2 = (t.u32(), t.below(4));
    let lkm_mask = t.below(16) as u32 | 1;
    let lkm_debug = t.prob(160);
    Head { kind, debug, mask, subsets: [s1, s2], lkm_mask, lkm_debug, body_at: t.pos() }
}

pub fn decode(tape: &[u8]) -> (Head, Input, Input) {
    let h = decode_head(tape);
    let body = if h.body_at <= tape.len() { &tape[h.body_at..] } else { &tape[0..0] };
    let user = gen_input(body, h.kind, &PROFILE_C22, Pack::User(h.mask), h.debug);
    let lkm = gen_input(body, ElfKind::Lkm, &PROFILE_C22, Pack::Lkm(h.lkm_mask), h.lkm_debug);
    (h, user, lkm)
}

type Pair = (String, String);

fn pairs(ws: &[Warning]) -> BTreeSet<Pair> {
    ws.iter().map(|w| (w.name.clone(), w.version.clone())).collect()
}

/// Modules firing in a run (pairs with a unique emitter).
fn firing_modules(ps: &BTreeSet<Pair>, table: &ModuleTable) -> BTreeSet<String> {
    ps.iter().filter_map(|(n, v)| {
        let e = table.emitters(n, v);
        if e.len() == 1 { Some(e[0].clone()) } else { None }
    }).collect()
}

/// Compare the pairs of a run with the expected pairs; pairs with an ambiguous emitter are ignored.
fn compare(kind: &str, got: &BTreeSet<Pair>, expected: &BTreeSet<Pair>, table: &ModuleTable, ctx: &mut Ctx, detail: &dyn Fn() -> String) -> CaseResult {
    for p in got.difference(expected) {
        if table.emitters(&p.0, &p.1).len() > 1 {
            continue;
        }
        ctx.report(format!("C22:{}:unselected-check-ran:{}", kind, p.0), format!("warning {:?} appears although its check was not selected\n{}", p, detail()))?;
    }
    for p in expected.difference(got) {
        if table.emitters(&p.0, &p.1).len() > 1 {
            continue;
        }
        ctx.report(format!("C22:{}:selected-check-missing:{}", kind, p.0), format!("warning {:?} of a selected check is missing\n{}", p, detail()))?;
    }
    Ok(())
}

/// The check sections of lkm_config.json (`CWE<digits>`) that are known modules.
pub fn lkm_subset(table: &ModuleTable) -> Result<Vec<String>, String> {
    let txt = std::fs::read_to_string(lkm_config_path()).map_err(|e| format!("{}: {}", lkm_config_path(), e))?;
    let v: serde_json::Value = serde_json::from_str(&txt).map_err(|e| format!("lkm_config.json: {}", e))?;
    let o = v.as_object().ok_or("lkm_config.json is not an object")?;
    let mut k: Vec<String> = o
        .keys()
        .filter(|k| k.starts_with("CWE") && k.len() > 3 && k[3..].chars().all(|c| c.is_ascii_digit()))
        .filter(|k| table.version_of(k).is_some())
        .cloned()
        .collect();
    k.sort();
    if k.is_empty() {
        return Err("no check sections in lkm_config.json".into());
    }
    Ok(k)
}

pub fn run(eng: &mut Engine) {
    eng.rule = "a case is one generated input with a trigger pack, run as: all checks (defines F), two random --partial subsets, default selection, and as a kernel module (ET_REL + lkm_config.json) with --partial K and without; \
                non-trivial = a partial subset S with {} != F∩S != F (module level); distinct by hash of (tape, subset)"
        .into();
    eng.assumptions = vec![
        "a warning is attributed to its emitting module by (name, version): CWE125/CWE787 -> CWE119, CWE415 -> CWE416, CWE476 with the Memory version -> Memory".into(),
        "the kernel-module subset K = sections named CWE<n> of the shipped lkm_config.json that are known modules (the Memory section configures the pointer inference, it does not select the Memory module)".into(),
        "F is measured with the same configuration file as the run it is compared with (config.json for user space, lkm_config.json for the kernel module)".into(),
        "runs whose reference run (all checks / --partial K) already fails are C21's business and are skipped here (label)".into(),
    ];
    let table = match scan_modules(&repo_root()) {
        Ok(m) => ModuleTable { modules: m },
        Err(e) => {
            eng.inconclusive.push(format!("source scan failed: {}", e));
            return;
        }
    };
    if !std::path::Path::new(&cli_path()).is_file() {
        eng.inconclusive.push(format!("CLI binary {} not found (build it / set VERIF_CLI)", cli_path()));
        return;
    }
    let k_names = match lkm_subset(&table) {
        Ok(k) => k,
        Err(e) => {
            eng.inconclusive.push(e);
            return;
        }
    };
    eng.extra.insert("cli".into(), serde_json::json!(cli_path()));
    eng.extra.insert("lkm_subset".into(), serde_json::json!(k_names));
    let names = table.names();
    let all_arg = names.join(",");
    let k_arg = k_names.join(",");
    let problems: Mutex<Vec<String>> = Mutex::new(vec![]);
    let config = config_path();
    let lkm_config = lkm_config_path();

    // ---- --module-versions ------------------------------------------------------------------
    eng.enumerate(
        "module-versions",
        1,
        true,
        |_i, ctx| {
            let dir = TmpDir::new("c22mv_");
            let run = run_cli(&dir, "mv", &["--module-versions".to_string()]);
            if run.spawn_error.is_some() || run.timed_out {
                problems.lock().unwrap().push("--module-versions could not be run".into());
                return Ok(());
            }
            let out = String::from_utf8_lossy(&run.stdout).to_string();
            if run.code != Some(0) || !run.stderr.is_empty() {
                return ctx.report("C22:module-versions:abnormal-exit", format!("exit {:?} stderr {}", run.code, run.stderr));
            }
            let mut lines: Vec<&str> = out.lines().collect();
            if lines.first().copied() != Some("[cwe_checker] module_versions:") {
                return ctx.report("C22:module-versions:header", format!("unexpected first line: {:?}", lines.first()));
            }
            lines.remove(0);
            let mut got: Vec<String> = lines.iter().map(|l| l.to_string()).collect();
            got.sort();
            let mut want: Vec<String> = table.modules.iter().map(|m| format!("\"{}\": \"{}\"", m.name, m.version)).collect();
            want.sort();
            ctx.nontrivial_by_construction(1);
            ctx.extra_evaluations(want.len() as u64);
            for w in &want {
                let n = got.iter().filter(|g| *g == w).count();
                if n == 0 {
                    return ctx.report("C22:module-versions:module-missing", format!("{} (found in the sources) is not listed; listing:\n{}", w, out));
                }
                if n > 1 {
                    return ctx.report("C22:module-versions:module-listed-twice", format!("{} is listed {} times", w, n));
                }
            }
            for g in &got {
                if !want.contains(g) {
                    return ctx.report("C22:module-versions:unknown-line", format!("line {:?} matches no CweModule static of the sources", g));
                }
            }
            Ok(())
        },
        |_| "cwe_checker --module-versions".to_string(),
    );

    // ---- selections -------------------------------------------------------------------------
    let cases = cases(eng.tier.pick(480, 6000));
    eng.random(
        "selection",
        RandomSpec { cases, max_tape: 300 },
        |tape: &[u8], ctx: &mut Ctx| -> CaseResult {
            if let Some(r) = shrink_gate(tape, 16) {
                return r;
            }
            let r = (|| -> CaseResult {
                let (h, user, lkm) = decode(tape);
                let dir = TmpDir::new("c22_");
                let (pj, ef) = dir.write_input("user", &user);
                let (lpj, lef) = dir.write_input("lkm", &lkm);
                let timeouts: std::cell::RefCell<Vec<String>> = std::cell::RefCell::new(vec![]);
                let exec = |what: &str, args: &[String]| -> Option<RunOut> {
                    let run = run_cli(&dir, what, args);
                    if let Some(e) = &run.spawn_error {
                        problems.lock().unwrap().push(format!("cannot run CLI: {}", e));
                        return None;
                    }
                    if run.timed_out {
                        timeouts.borrow_mut().push(what.to_string());
                        return None;
                    }
                    Some(run)
                };
                let ok = |r: &RunOut| r.code == Some(0) && r.stderr.is_empty();
                // reference: all checks
                let all_args = analysis_args(&pj, &ef, &config, true, Some(&all_arg));
                let all = match exec("all", &all_args) {
                    Some(r) => r,
                    None => {
                        if !timeouts.borrow().is_empty() {
                            handle_timeout("C22", ctx, &problems, tape, "all", &dir, &pj, &ef, &config, &names, true);
                        }
                        return Ok(());
                    }
                };
                let all_ws = if ok(&all) { parse_warnings(&all.stdout).ok() } else { None };
                if let Some(all_ws) = all_ws {
                    let f_pairs = pairs(&all_ws);
                    let f_mods = firing_modules(&f_pairs, &table);
                    ctx.label_n("firing-modules-total", f_mods.len() as u64);
                    if f_mods.len() >= 6 {
                        ctx.label("F>=6-modules");
                    }
                    if f_mods.contains("CWE78") {
                        ctx.label("cwe78-in-F");
                    }
                    ctx.sample(|| format!("F={:?}", f_mods));
                    // partial subsets
                    for (si, (bits, style)) in h.subsets.iter().enumerate() {
                        // make every other subset small so that prefix-like names are often alone
                        let bits = if si == 1 { bits & (bits >> 7) } else { *bits };
                        let (set, parg) = partial_arg(&names, bits, *style);
                        let args = analysis_args(&pj, &ef, &config, true, Some(&parg));
                        let run = match exec("partial", &args) {
                            Some(r) => r,
                            None => continue,
                        };
                        ctx.extra_evaluations(1);
                        let cmd = format!("cwe_checker {}", args.join(" "));
                        let ws = match check_run("C22:partial", "partial", &run, &user, &table, ctx, &cmd)? {
                            Some(w) => w,
                            None => continue,
                        };
                        let expected: BTreeSet<Pair> = f_pairs.iter().filter(|(n, v)| table.emitters(n, v).iter().any(|m| set.contains(m))).cloned().collect();
                        let got = pairs(&ws);
                        compare("partial", &got, &expected, &table, ctx, &|| format!("--partial {:?}\nF = {:?}\noutput names = {:?}", parg, f_pairs, got))?;
                        let filtered: Vec<&Warning> = all_ws.iter().filter(|w| table.emitters(&w.name, &w.version).iter().any(|m| set.contains(m))).collect();
                        if filtered.len() == ws.len() && filtered.iter().zip(ws.iter()).all(|(a, b)| *a == b) {
                            ctx.label("partial-warnings-identical-to-filtered-all-run");
                        } else {
                            ctx.label("partial-warnings-differ-from-filtered-all-run");
                        }
                        let inter: BTreeSet<&String> = f_mods.iter().filter(|m| set.contains(*m)).collect();
                        if !inter.is_empty() && inter.len() < f_mods.len() {
                            ctx.label("nontrivial-subset");
                            ctx.nontrivial(crate::tape::fnv(format!("{}|{}", crate::tape::hex(tape), parg).as_bytes()));
                        }
                        if set.iter().any(|m| m == "CWE782" || m == "CWE789") && !set.iter().any(|m| m == "CWE78") {
                            ctx.label("subset-with-CWE782/789-without-CWE78");
                        }
                    }
                    // default selection
                    let args = analysis_args(&pj, &ef, &config, true, None);
                    if let Some(run) = exec("default", &args) {
                        ctx.extra_evaluations(1);
                        let cmd = format!("cwe_checker {}", args.join(" "));
                        if let Some(ws) = check_run("C22:default", "default", &run, &user, &table, ctx, &cmd)? {
                            let expected: BTreeSet<Pair> = f_pairs.iter().filter(|(n, v)| table.emitters(n, v) != vec!["CWE78".to_string()]).cloned().collect();
                            let got = pairs(&ws);
                            compare("default", &got, &expected, &table, ctx, &|| format!("default run\nF = {:?}\noutput names = {:?}", f_pairs, got))?;
                            if expected.len() < f_pairs.len() {
                                ctx.label("default-run-with-CWE78-in-F");
                            }
                        }
                    }
                } else {
                    ctx.label("all-run-failed(C21)");
                }
                // kernel module
                let kargs = analysis_args(&lpj, &lef, &lkm_config, true, Some(&k_arg));
                let kref = match exec("lkm-partial", &kargs) {
                    Some(r) => r,
                    None => {
                        for w in timeouts.borrow().iter() {
                            problems.lock().unwrap().push(format!("timeout (> {} s) on tape {} run {}", TIMEOUT_SECS, crate::tape::hex(tape), w));
                        }
                        return Ok(());
                    }
                };
                let k_ws = if ok(&kref) { parse_warnings(&kref.stdout).ok() } else { None };
                if let Some(k_ws) = k_ws {
                    let fk = pairs(&k_ws);
                    let fk_mods = firing_modules(&fk, &table);
                    ctx.label_n("lkm-firing-modules-total", fk_mods.len() as u64);
                    if fk_mods.len() >= 3 {
                        ctx.label("lkm-F>=3-modules");
                    }
                    let args = analysis_args(&lpj, &lef, &lkm_config, true, None);
                    if let Some(run) = exec("lkm-default", &args) {
                        ctx.extra_evaluations(1);
                        let cmd = format!("cwe_checker {}", args.join(" "));
                        if let Some(ws) = check_run("C22:lkm", "lkm-default", &run, &lkm, &table, ctx, &cmd)? {
                            let got = pairs(&ws);
                            for p in &got {
                                let e = table.emitters(&p.0, &p.1);
                                if e.len() == 1 && !k_names.contains(&e[0]) {
                                    ctx.report(format!("C22:lkm:check-outside-subset-ran:{}", p.0), format!("kernel module run shows {:?}, emitted by {} which has no section in lkm_config.json (K = {:?})", p, e[0], k_names))?;
                                }
                            }
                            compare("lkm", &got, &fk, &table, ctx, &|| format!("kernel-module run without --partial vs --partial {}\nF_K = {:?}\noutput names = {:?}", k_arg, fk, got))?;
                            if ws == k_ws {
                                ctx.label("lkm-warnings-identical");
                            }
                        }
                    }
                } else {
                    ctx.label("lkm-reference-run-failed(C21)");
                }
                // kernel-module input analysed with an explicit selection: the kernel-module default subset must
                // not be applied on top of --partial. The input is the user-space program of this case emitted as
                // a kernel module (same trigger pack: calls to strcpy and ioctl are always present), so by
                // construction CWE676 / CWE782 report iff they are selected.
                {
                    let twin = gen_input(if h.body_at <= tape.len() { &tape[h.body_at..] } else { &tape[0..0] }, ElfKind::Lkm, &PROFILE_C22, Pack::User(h.mask), h.lkm_debug);
                    let (tpj, tef) = dir.write_input("lkmuser", &twin);
                    let (bits, style) = h.subsets[0];
                    // rotate so that the two forced names are selected independently of the user-space subset
                    let (set, parg) = partial_arg(&names, bits.rotate_left(7) ^ 0x5a5a, style);
                    let args = analysis_args(&tpj, &tef, &config, true, Some(&parg));
                    if let Some(run) = exec("lkm-explicit-partial", &args) {
                        ctx.extra_evaluations(1);
                        let cmd = format!("cwe_checker {}", args.join(" "));
                        if let Some(ws) = check_run("C22:lkm-partial", "lkm-partial", &run, &twin, &table, ctx, &cmd)? {
                            let got = pairs(&ws);
                            for p in &got {
                                let e = table.emitters(&p.0, &p.1);
                                if e.len() == 1 && !set.contains(&e[0]) {
                                    ctx.report(format!("C22:lkm-partial:unselected-check-ran:{}", p.0), format!("kernel module, --partial {:?}: warning {:?} of an unselected check\n{}", parg, p, cmd))?;
                                }
                            }
                            for forced in ["CWE676", "CWE782"] {
                                let selected = set.iter().any(|m| m == forced);
                                let present = got.iter().any(|p| p.0 == forced);
                                if selected && !present {
                                    ctx.report(format!("C22:lkm-partial:selected-check-missing:{}", forced), format!("kernel module with calls to strcpy and ioctl, --partial {:?}: no {} warning although the check is selected\noutput names = {:?}\n{}", parg, forced, got, cmd))?;
                                }
                                if selected {
                                    ctx.label("lkm-explicit-partial-with-forced-check-selected");
                                }
                            }
                        }
                    }
                }
                for w in timeouts.borrow().iter() {
                    problems.lock().unwrap().push(format!("timeout (> {} s) on tape {} run {}", TIMEOUT_SECS, crate::tape::hex(tape), w));
                }
                Ok(())
            })();
            shrink_note(tape, &r);
            r
        },
        |tape| {
            let (h, user, lkm) = decode(tape);
            format!("trigger mask {:#x} lkm mask {:#x} subsets {:?}\n{}", h.mask, h.lkm_mask, h.subsets, save_failing_input("C22", tape, &[("user", &user), ("lkm", &lkm)]))
        },
    );
    for p in problems.into_inner().unwrap().into_iter().take(5) {
        eng.inconclusive.push(p);
    }
    eng.require_fraction("selection", "nontrivial-subset", 0.5 / 5.0);
    eng.require_fraction("selection", "F>=6-modules", 0.5 / 5.0);
    eng.require_fraction("selection", "cwe78-in-F", 0.3 / 5.0);
    eng.require_fraction("selection", "lkm-F>=3-modules", 0.3 / 5.0);
    eng.require_fraction("selection", "subset-with-CWE782/789-without-CWE78", 0.1 / 5.0);
}
