//! C10 — optimizing normalization preserves behaviour.
//! Differential: own IR interpreter on the program before and after `normalize_optimize`.

use crate::engine::{cut, CaseResult, Ctx, Engine, RandomSpec};
use crate::irb::*;
use crate::irgen::{gen_bool, gen_int, small_const, Env};
use crate::irinterp::{run_sub, Event, Limits, NoObserver, Run, State, Stop};
use crate::tape::{fnv, Tape};
use cwe_checker_lib::analysis;
use cwe_checker_lib::intermediate_representation::*;

const STATES: usize = 6;

#[derive(Clone, Debug)]
pub struct InitState {
    pub regs: Vec<(String, u128, usize)>,
    pub mem_seed: u64,
}

pub struct Case {
    pub project: Project,
    pub states: Vec<InitState>,
    pub features: Vec<&'static str>,
}

fn temps() -> (Vec<Variable>, Vec<Variable>) {
    (vec![tmp("$U1", 8), tmp("$U2", 8), tmp("$U3", 4)], vec![tmp("$Ub1", 1), tmp("$Ub2", 1)])
}

fn reg_pool() -> Vec<Variable> {
    // a small pool makes def/use interference likely
    ["RAX", "RBX", "RCX", "RDX", "RSP", "RBP"].iter().map(|r| var(r, 8)).collect()
}

fn flag_pool() -> Vec<Variable> {
    ["ZF", "CF"].iter().map(|r| var(r, 1)).collect()
}

struct Gen<'a, 'b> {
    t: &'a mut Tape<'b>,
    features: Vec<&'static str>,
}

impl<'a, 'b> Gen<'a, 'b> {
    fn feat(&mut self, f: &'static str) {
        if !self.features.contains(&f) {
            self.features.push(f);
        }
    }

    fn addr_expr(&mut self, env: &Env) -> Expression {
        let t = &mut *self.t;
        match t.below(8) {
            0..=2 => {
                // stack relative
                let off = *t.choose(&[0i128, 8, -8, 16, -16, 4, 24, -24, 1]);
                if off == 0 {
                    evar(&var("RSP", 8))
                } else {
                    ebin(BinOpType::IntAdd, evar(&var("RSP", 8)), econst(off, 8))
                }
            }
            3 | 4 => {
                let regs: Vec<&Variable> = env.ints.iter().filter(|v| u64::from(v.size) == 8).collect();
                let r = regs[t.below(regs.len())].clone();
                let off = *t.choose(&[0i128, 8, -8, 0x10, 1]);
                ebin(if t.flag() { BinOpType::IntAdd } else { BinOpType::IntSub }, evar(&r), econst(off, 8))
            }
            5 => econst_u(0x601000 + 8 * t.below(4) as u128, 8),
            _ => gen_int(t, env, 8, 1),
        }
    }

    /// Defs of one block. `first_nonempty` enables the stack-pointer masking forms.
    fn defs(&mut self, base: u64, sp_forms: bool) -> (Vec<Term<Def>>, Env) {
        let (t8, tb) = temps();
        let mut env = Env { ints: reg_pool(), bools: flag_pool(), idioms: true, muldiv: true, casts: true };
        let n = self.t.below(6);
        let mut defs = vec![];
        let rsp = var("RSP", 8);
        // x86 flavour: flags are overwritten all the time, so they are dead on most edges unless a
        // conditional jump reads them (keeps the liveness analysis honest about jump conditions)
        if self.t.prob(90) {
            for (k, f) in ["ZF", "CF"].iter().enumerate() {
                let e = gen_bool(self.t, &Env { ints: reg_pool(), bools: vec![], idioms: false, muldiv: false, casts: false }, 1);
                defs.push(assign(instr_tid(base + 0x18 + k as u64, 0), &var(f, 1), e));
            }
            self.feat("flags-redefined-at-block-start");
        }
        for i in 0..n {
            let tid = instr_tid(base + i as u64, 0);
            let k = self.t.below(20);
            match k {
                0..=5 => {
                    // assign to a register
                    let regs = reg_pool();
                    let r = regs[self.t.below(regs.len() - 2)].clone(); // not RSP/RBP here
                    let e = gen_int(self.t, &env, 8, 2);
                    defs.push(assign(tid, &r, e));
                }
                6 | 7 => {
                    // assign to a temporary (8 or 4 bytes), readable afterwards in this block
                    let tv = t8[self.t.below(t8.len())].clone();
                    let s = u64::from(tv.size) as usize;
                    let e = gen_int(self.t, &env, s, 2);
                    defs.push(assign(tid, &tv, e));
                    if !env.ints.contains(&tv) {
                        env.ints.push(tv);
                    }
                }
                8 | 9 => {
                    // boolean: flag or boolean temporary
                    let e = gen_bool(self.t, &env, 2);
                    if self.t.flag() {
                        let f = flag_pool()[self.t.below(2)].clone();
                        defs.push(assign(tid, &f, e));
                    } else {
                        let tv = tb[self.t.below(tb.len())].clone();
                        defs.push(assign(tid, &tv, e));
                        if !env.bools.contains(&tv) {
                            env.bools.push(tv);
                        }
                    }
                }
                10 | 11 | 12 => {
                    // load into register or temporary
                    let a = self.addr_expr(&env);
                    if self.t.prob(170) {
                        let regs = reg_pool();
                        let r = regs[self.t.below(regs.len() - 2)].clone();
                        defs.push(load(tid, &r, a));
                    } else {
                        let tv = t8[self.t.below(2)].clone();
                        defs.push(load(tid, &tv, a));
                        if !env.ints.contains(&tv) {
                            env.ints.push(tv);
                        }
                    }
                    self.feat("load");
                }
                13 | 14 => {
                    let a = self.addr_expr(&env);
                    let s = *self.t.choose(&[8usize, 8, 4, 1]);
                    let v = gen_int(self.t, &env, s, 1);
                    defs.push(store(tid, a, v));
                    self.feat("store");
                }
                15 | 16 => {
                    // stack pointer arithmetic
                    let c = *self.t.choose(&[8i128, 16, 24, 32, 40, 0x48, 4, 1, 0x100]);
                    let op = if self.t.prob(170) { BinOpType::IntSub } else { BinOpType::IntAdd };
                    let e = if self.t.prob(230) { ebin(op, evar(&rsp), econst(c, 8)) } else { ebin(BinOpType::IntAdd, econst(-c, 8), evar(&rsp)) };
                    defs.push(assign(tid, &rsp, e));
                    self.feat("sp-arith");
                }
                17 if sp_forms => {
                    let kbits = 2 + self.t.below(5) as u32; // 2..6
                    let mask = econst(-(1i128 << kbits), 8);
                    let src = if self.t.prob(24) {
                        self.feat("sp-mask-other-reg");
                        var("RBX", 8)
                    } else {
                        rsp.clone()
                    };
                    let e = if self.t.prob(220) { ebin(BinOpType::IntAnd, evar(&src), mask) } else { ebin(BinOpType::IntAnd, mask, evar(&src)) };
                    defs.push(assign(tid, &rsp, e));
                    self.feat("sp-mask");
                }
                18 => {
                    // two consecutive assignments to the same register, the second using the first
                    let regs = reg_pool();
                    let r = regs[self.t.below(regs.len() - 2)].clone();
                    let e1 = gen_int(self.t, &env, 8, 1);
                    defs.push(assign(tid.clone(), &r, e1));
                    let e2 = ebin(*self.t.choose(&[BinOpType::IntAdd, BinOpType::IntXOr, BinOpType::IntSub]), evar(&r), gen_int(self.t, &env, 8, 1));
                    defs.push(assign(instr_tid(base + i as u64, 1), &r, e2));
                    self.feat("double-assign");
                }
                _ => {
                    // copy between registers (incl. RBP <-> RSP forms)
                    let regs = reg_pool();
                    let d = regs[self.t.below(regs.len())].clone();
                    let s = regs[self.t.below(regs.len())].clone();
                    if d.name != "RSP" {
                        defs.push(assign(tid, &d, evar(&s)));
                    } else {
                        defs.push(assign(tid, &d, ebin(BinOpType::IntSub, evar(&rsp), econst(8, 8))));
                    }
                }
            }
        }
        (defs, env)
    }
}

pub fn decode(t: &mut Tape) -> Case {
    let mut g = Gen { t, features: vec![] };
    let nsubs = 1 + g.t.below(3);
    let ext_a = tid("ext_a", "UNKNOWN");
    let ext_exit = tid("ext_exit", "UNKNOWN");
    let externs = vec![extern_symbol(ext_a.clone(), "ext_a", &["RDI"], false), extern_symbol(ext_exit.clone(), "ext_exit", &["RDI"], true)];
    let mut subs = vec![];
    for si in 0..nsubs {
        let sbase = 0x1000 * (si as u64 + 1);
        let nblocks = 1 + g.t.below(7);
        // condition pool over registers and flags only
        let penv = Env { ints: reg_pool(), bools: flag_pool(), idioms: false, muldiv: false, casts: false };
        let pool: Vec<Expression> = (0..2).map(|i| if i == 0 && g.t.prob(128) { evar(&var("ZF", 1)) } else { gen_bool(g.t, &penv, 1) }).collect();
        let mut blocks = vec![];
        let mut dedicated: Vec<usize> = vec![];
        // Either the entry block may be a jump target (loops back to the function entry), or it may
        // contain stack-pointer masking (which is only meaningful when executed once, at entry).
        let entry_targetable = g.t.prob(50);
        let sp_forms_open = !entry_targetable && nblocks > 1;
        for bi in 0..nblocks {
            let bbase = sbase + 0x20 * bi as u64;
            let empty = g.t.prob(64);
            let (defs, env) = if empty {
                g.feat("empty-block");
                (vec![], Env { ints: reg_pool(), bools: flag_pool(), idioms: true, muldiv: false, casts: true })
            } else {
                let d = g.defs(bbase, sp_forms_open && bi == 0);
                d
            };
            let jt = instr_tid(bbase + 0x1f, 0);
            let jt2 = instr_tid(bbase + 0x1f, 1);
            let target = |g: &mut Gen| {
                let k = if entry_targetable || nblocks == 1 { g.t.below(nblocks) } else { 1 + g.t.below(nblocks - 1) };
                blk_tid(sbase + 0x20 * k as u64)
            };
            let kind = if empty { g.t.below(6) } else { g.t.below(16) };
            let jmps = match kind {
                0..=2 => vec![jmp(jt, Jmp::Branch(target(&mut g)))],
                3..=6 => {
                    let cond = if g.t.prob(170) {
                        let c = pool[g.t.below(pool.len())].clone();
                        g.feat("pool-condition");
                        if g.t.prob(90) {
                            eun(UnOpType::BoolNegate, c)
                        } else {
                            c
                        }
                    } else {
                        gen_bool(g.t, &env, 2)
                    };
                    let t1 = target(&mut g);
                    let t2 = target(&mut g);
                    if g.t.prob(20) {
                        // conditional return (`bxeq lr`): the second jump of the block is a return through a register
                        g.feat("conditional-return");
                        vec![jmp(jt, Jmp::CBranch { target: t1, condition: cond }), jmp(jt2, Jmp::Return(evar(&var("RBX", 8))))]
                    } else {
                        vec![jmp(jt, Jmp::CBranch { target: t1, condition: cond }), jmp(jt2, Jmp::Branch(t2))]
                    }
                }
                7 => {
                    // return: x86 style (loaded temp), register, or small expression over registers
                    match g.t.below(3) {
                        0 => vec![jmp(jt, Jmp::Return(evar(&var("RBX", 8))))],
                        _ => vec![jmp(jt, Jmp::Return(gen_int(g.t, &Env { ints: reg_pool(), bools: vec![], idioms: true, muldiv: false, casts: false }, 8, 1)))],
                    }
                }
                8 | 9 => {
                    let tg = match g.t.below(4) {
                        0 => ext_exit.clone(),
                        1 if nsubs > 1 => sub_tid(0x1000 * (1 + g.t.below(nsubs) as u64)),
                        _ => ext_a.clone(),
                    };
                    let ret = if g.t.prob(230) { Some(target(&mut g)) } else { None };
                    g.feat("call");
                    vec![jmp(jt, Jmp::Call { target: tg, return_: ret })]
                }
                10 => {
                    let ret = if g.t.prob(230) { Some(target(&mut g)) } else { None };
                    let e = gen_int(g.t, &env, 8, 1);
                    g.feat("callind");
                    vec![jmp(jt, Jmp::CallInd { target: e, return_: ret })]
                }
                11 => {
                    // The extractor returns from CALLOTHER to the fall-through: mostly a dedicated
                    // return block; sometimes a block that other jumps target as well.
                    let ret = if g.t.prob(40) {
                        g.feat("callother-shared-return");
                        Some(target(&mut g))
                    } else if g.t.prob(230) {
                        g.feat("callother-dedicated-return");
                        dedicated.push(bi);
                        Some(tid(&format!("blk_{:08x}_r", bbase), &format!("{:08x}", bbase)))
                    } else {
                        None
                    };
                    vec![jmp(jt, Jmp::CallOther { description: "syscall".into(), return_: ret })]
                }
                12 => {
                    let e = gen_int(g.t, &env, 8, 1);
                    g.feat("branchind");
                    vec![jmp(jt, Jmp::BranchInd(e))]
                }
                13 => vec![],
                _ => vec![jmp(jt, Jmp::Return(evar(&var("RBX", 8))))],
            };
            let mut b = blk(blk_tid(bbase), defs, jmps);
            if let Some(Term { term: Jmp::BranchInd(e), .. }) = b.term.jmps.first_mut() {
                let nh = g.t.below(3);
                for _ in 0..nh {
                    let h = target(&mut g);
                    if !b.term.indirect_jmp_targets.contains(&h) {
                        b.term.indirect_jmp_targets.push(h);
                    }
                }
                // often make the jump really go to one of the hinted blocks (jump-table shape)
                if nh > 0 && g.t.prob(150) {
                    let k = if entry_targetable || nblocks == 1 { g.t.below(nblocks) } else { 1 + g.t.below(nblocks - 1) };
                    let a0 = sbase + 0x20 * k as u64;
                    let h0 = blk_tid(a0);
                    if !b.term.indirect_jmp_targets.contains(&h0) {
                        b.term.indirect_jmp_targets.push(h0);
                    }
                    if k + 1 < nblocks {
                        let h1 = blk_tid(a0 + 0x20);
                        if !b.term.indirect_jmp_targets.contains(&h1) {
                            b.term.indirect_jmp_targets.push(h1);
                        }
                        let r = reg_pool()[g.t.below(4)].clone();
                        *e = ebin(BinOpType::IntAdd, ebin(BinOpType::IntAnd, evar(&r), econst(0x20, 8)), econst(a0 as i128, 8));
                    } else {
                        *e = econst(a0 as i128, 8);
                    }
                    g.feat("branchind-to-hint");
                }
            }
            // x86-style return: load the return address into a temporary in the same block
            if let Some(Term { term: Jmp::Return(e), .. }) = b.term.jmps.first_mut() {
                let kind = g.t.below(8);
                if kind < 4 {
                    let tv = tmp("$U1", 8);
                    let n = b.term.defs.len();
                    b.term.defs.push(load(instr_tid(bbase + 0x1e, 0), &tv, evar(&var("RSP", 8))));
                    b.term.defs.push(assign(instr_tid(bbase + 0x1e, 1), &var("RSP", 8), ebin(BinOpType::IntAdd, evar(&var("RSP", 8)), econst(8, 8))));
                    *e = evar(&tv);
                    let _ = n;
                } else if kind == 4 {
                    // ARM/PowerPC-style return through a computed temporary (`$U = LR & ~1; ...; RETURN $U`), with a later
                    // definition of the register the temporary was computed from in the same instruction sequence
                    let tv = tmp("$U2", 8);
                    let r = reg_pool()[g.t.below(4)].clone();
                    let c = *g.t.choose(&[0xffff_ffff_ffff_fffei128 as i128, 8, 0xffff_ffff_ffff_fffc_u64 as i128]);
                    let op = if c == 8 { BinOpType::IntAdd } else { BinOpType::IntAnd };
                    b.term.defs.push(assign(instr_tid(bbase + 0x1c, 0), &tv, ebin(op, evar(&r), econst(c, 8))));
                    if g.t.prob(170) {
                        if g.t.flag() {
                            b.term.defs.push(load(instr_tid(bbase + 0x1c, 1), &r, evar(&var("RSP", 8))));
                        } else {
                            b.term.defs.push(assign(instr_tid(bbase + 0x1c, 1), &r, econst(0, 8)));
                        }
                    }
                    *e = evar(&tv);
                    g.feat("return-through-computed-temporary");
                }
            }
            blocks.push(b);
        }
        // dedicated CallOther return blocks: a few defs, then continue somewhere in the function
        for bi in dedicated {
            let bbase = sbase + 0x20 * bi as u64;
            let (defs, _env) = g.defs(bbase + 0x10, false);
            let k = g.t.below(nblocks);
            let k = if !entry_targetable && k == 0 && nblocks > 1 { 1 } else { k };
            let j = if !entry_targetable && nblocks == 1 { vec![] } else { vec![jmp(instr_tid(bbase + 0x1d, 0), Jmp::Branch(blk_tid(sbase + 0x20 * k as u64)))] };
            blocks.push(blk(tid(&format!("blk_{:08x}_r", bbase), &format!("{:08x}", bbase)), defs, j));
        }
        subs.push(sub(sub_tid(sbase), &format!("f{}", si), blocks));
    }
    let entry = vec![sub_tid(0x1000)];
    let project = project(subs, externs, entry);
    // initial states
    let mut states = vec![];
    for _ in 0..STATES {
        let mut regs: Vec<(String, u128, usize)> = vec![];
        for r in GPRS {
            let mut v = g.t.int(8);
            if !regs.is_empty() && g.t.prob(50) {
                let j = g.t.below(regs.len());
                v = regs[j].1.wrapping_add(*g.t.choose(&[0u128, 1, u64::MAX as u128])) & (u64::MAX as u128);
            }
            if r == "RSP" {
                v = 0x7ffe_0000_0000u128 + 64 * g.t.below(1024) as u128;
            }
            regs.push((r.to_string(), v, 8));
        }
        for f in FLAGS {
            regs.push((f.to_string(), g.t.below(2) as u128, 1));
        }
        states.push(InitState { regs, mem_seed: g.t.u16() as u64 });
    }
    Case { project, states, features: g.features }
}

pub fn phys_regs(p: &Project) -> Vec<Variable> {
    p.register_set.iter().cloned().collect()
}

pub fn run_fn(sub: &Term<Sub>, init: &InitState, regs: &[Variable]) -> Run {
    let mut st = State::new(init.mem_seed);
    for (n, v, w) in &init.regs {
        st.set(n, *v, *w);
    }
    run_sub(sub, &mut st, regs, &Limits { max_events: 64, max_blocks: 200 }, &[], &mut NoObserver)
}

/// Compare two runs; Err(description, event kind) on an observable difference.
pub fn compare_runs(a: &Run, b: &Run, regs: &[Variable]) -> Result<(), (String, &'static str)> {
    use crate::irinterp::show_event as se;
    let n = a.events.len().min(b.events.len());
    for i in 0..n {
        if a.events[i] != b.events[i] {
            return Err((format!("event #{} differs:\n  original : {}\n  optimized: {}", i, se(&a.events[i], regs), se(&b.events[i], regs)), a.events[i].kind()));
        }
    }
    if a.stop == Stop::Finished && b.events.len() > a.events.len() {
        return Err((format!("original finished after {} events, optimized continues with {}", a.events.len(), se(&b.events[n], regs)), "extra-event"));
    }
    if b.stop == Stop::Finished && a.events.len() > b.events.len() {
        return Err((format!("optimized finished after {} events, original continues with {}", b.events.len(), se(&a.events[n], regs)), "missing-event"));
    }
    Ok(())
}

pub const PASSES: [&str; 5] = ["expression_propagation", "trivial_substitution", "dead_variable_elimination", "control_flow_propagation", "stack_alignment_substitution"];

pub fn apply_pass(p: &mut Project, i: usize) {
    match i {
        0 => analysis::expression_propagation::propagate_input_expression(p),
        1 => p.substitute_trivial_expressions(),
        2 => analysis::dead_variable_elimination::remove_dead_var_assignments(p),
        3 => propagate_control_flow::propagate_control_flow(p),
        _ => {
            let _ = analysis::stack_alignment_substitution::substitute_and_on_stackpointer(p);
        }
    }
}

/// Blocks of `sub` that are reachable through a control flow graph edge or are the entry block.
fn blocks_with_cfg_predecessors(sub: &Term<Sub>) -> Vec<String> {
    let mut v: Vec<String> = vec![];
    if let Some(b) = sub.term.blocks.first() {
        v.push(format!("{}", b.tid));
    }
    for b in &sub.term.blocks {
        for h in &b.term.indirect_jmp_targets {
            v.push(format!("{}", h));
        }
        for j in &b.term.jmps {
            match &j.term {
                Jmp::Branch(t) | Jmp::CBranch { target: t, .. } => v.push(format!("{}", t)),
                Jmp::Call { return_: Some(t), .. } | Jmp::CallInd { return_: Some(t), .. } => v.push(format!("{}", t)),
                _ => {}
            }
        }
    }
    v
}

/// First difference between `orig` and `opt` over all subs and states.
fn first_difference(orig: &Project, opt: &Project, states: &[InitState]) -> Option<(String, &'static str)> {
    let regs = phys_regs(orig);
    for (tid, s) in orig.program.term.subs.iter() {
        if tid.is_artificial_sink_sub() {
            continue;
        }
        let o = match opt.program.term.subs.get(tid) {
            Some(o) => o,
            None => return Some((format!("function {} missing after optimization", tid), "sub-missing")),
        };
        for (k, init) in states.iter().enumerate() {
            let ra = run_fn(s, init, &regs);
            let rb = run_fn(o, init, &regs);
            if let Err((d, mut kind)) = compare_runs(&ra, &rb, &regs) {
                // Known modelling gap: the CFG has no edge for the return of a CallOther jump. If the
                // diverging runs entered a block through such a return although the block also has
                // CFG predecessors (or is the entry), the CFG-based passes did not see that flow.
                let shared = blocks_with_cfg_predecessors(s);
                if ra.callother_returns.iter().chain(rb.callother_returns.iter()).any(|r| shared.contains(r)) {
                    kind = "flow-through-callother-return-into-shared-block";
                }
                let head = |v: &Vec<String>| v.iter().take(24).cloned().collect::<Vec<_>>();
                return Some((format!("function {} state #{}: {}\n  blocks original : {:?}\n  blocks optimized: {:?}", tid, k, d, head(&ra.blocks), head(&rb.blocks)), kind));
            }
        }
    }
    None
}

fn count_terms(p: &Project) -> (usize, usize, usize) {
    let mut b = 0;
    let mut d = 0;
    let mut j = 0;
    for s in p.program.term.subs.values() {
        b += s.term.blocks.len();
        for blk in &s.term.blocks {
            d += blk.term.defs.len();
            j += blk.term.jmps.len();
        }
    }
    (b, d, j)
}

fn jump_targets(p: &Project) -> Vec<String> {
    let mut v = vec![];
    for s in p.program.term.subs.values() {
        for blk in &s.term.blocks {
            for j in &blk.term.jmps {
                v.push(format!("{}:{}", j.tid, j.term));
            }
        }
    }
    v
}

pub fn check_case(case: &Case, ctx: &mut Ctx) -> CaseResult {
    let mut basic = case.project.clone();
    match cut(|| {
        let _ = basic.normalize_basic();
    }) {
        Ok(()) => {}
        Err(f) => return ctx.report(format!("C10:normalize_basic:{}", f.signature), f.detail),
    }
    let mut opt = basic.clone();
    if let Err(f) = cut(|| {
        let _ = opt.normalize_optimize();
    }) {
        return ctx.report(format!("C10:normalize_optimize:{}", f.signature), f.detail);
    }
    // the optimized program must still have a buildable CFG
    if let Err(f) = cut(|| {
        let g = analysis::graph::get_program_cfg(&opt.program);
        g.node_count()
    }) {
        return ctx.report(format!("C10:cfg-after-optimize:{}", f.signature), f.detail);
    }
    let changed = opt != basic;
    if changed {
        ctx.label("optimizer-changed-program");
    }
    let (b0, d0, _) = count_terms(&basic);
    let (b1, d1, _) = count_terms(&opt);
    if b1 < b0 {
        ctx.label("block-removed");
    }
    if d1 < d0 {
        ctx.label("def-removed");
    }
    let jt0 = jump_targets(&basic);
    let jt1 = jump_targets(&opt);
    if jt0.len() == jt1.len() && jt0 != jt1 || (b1 < b0 && jt1.iter().any(|j| !jt0.contains(j))) {
        ctx.label("jump-retargeted-or-rewritten");
    }
    for f in &case.features {
        ctx.label(&format!("feature:{}", f));
    }
    if case.features.contains(&"sp-mask") {
        let has_and = |p: &Project| {
            p.program.term.subs.values().any(|s| {
                s.term.blocks.iter().any(|b| b.term.defs.iter().any(|d| matches!(&d.term, Def::Assign { var, value: Expression::BinOp { op: BinOpType::IntAnd, .. } } if var.name == "RSP")))
            })
        };
        if has_and(&basic) && !has_and(&opt) {
            ctx.label("sp-mask-substituted");
        }
    }
    // trace statistics on the original
    let regs = phys_regs(&basic);
    let mut max_events = 0;
    for s in basic.program.term.subs.values() {
        if let Some(init) = case.states.first() {
            let r = run_fn(s, init, &regs);
            max_events = max_events.max(r.events.len());
        }
    }
    if changed && max_events >= 3 {
        ctx.nontrivial(fnv(format!("{}", basic.program.term).as_bytes()));
        ctx.label("nontrivial");
    }
    ctx.extra_evaluations((case.states.len() * basic.program.term.subs.len()) as u64);
    if let Some((detail, kind)) = first_difference(&basic, &opt, &case.states) {
        // attribute to the first pass after which the traces differ
        let mut guilty = "unknown";
        let mut p = basic.clone();
        for i in 0..5 {
            if cut(|| apply_pass(&mut p, i)).is_err() {
                guilty = PASSES[i];
                break;
            }
            if first_difference(&basic, &p, &case.states).is_some() {
                guilty = PASSES[i];
                break;
            }
        }
        if kind == "flow-through-callother-return-into-shared-block" {
            ctx.label("known-gap:callother-return-shared");
            return ctx.report(
                "C10:callother-return-edge-missing-in-cfg",
                format!("CFG-based pass {} ignores the flow through the return of a CallOther jump: {}\n--- before normalize_optimize:\n{}--- after:\n{}", guilty, detail, basic.program.term, opt.program.term),
            );
        }
        return ctx.report(
            format!("C10:{}:{}", guilty, kind),
            format!("pass {} changes observable behaviour: {}\n--- before normalize_optimize:\n{}--- after:\n{}", guilty, detail, basic.program.term, opt.program.term),
        );
    }
    Ok(())
}

pub fn run(eng: &mut Engine) {
    eng.rule = "cases = generated multi-function IR programs (register/temporary arithmetic with rewrite idioms, loads/stores, conditional chains over a shared condition pool, empty forwarding blocks, SP arithmetic/masking, calls, indirect jumps, returns) x 6 initial machine states with 64-byte aligned entry SP; program is normalize_basic'ed, cloned, clone is normalize_optimize'd; both run in the harness' own IR interpreter and event traces (reads, writes, calls, indirect jumps, returns, dead ends with all physical registers) must be equal; non-trivial = optimizer changed the program and the original trace has >= 3 events; distinct by hash of the program".into();
    eng.assumptions = vec![
        "irinterp/refsem implement the IR/P-Code semantics (total: x/0 := 0, Unknown := 0)".into(),
        "temporaries are only read in the block that defines them (P-Code temporaries do not survive instructions); after a call all registers and temporaries are havocked identically in both runs".into(),
        "entry SP is 64-byte aligned and all generated alignment masks are -4..-64; `SP = c - SP` is not generated".into(),
        "Return targets are registers, loaded temporaries or expressions over registers (what lifted code contains)".into(),
    ];
    let cases = eng.tier.pick(300_000u64, 8_000_000u64);
    eng.random(
        "optimize-differential",
        RandomSpec { cases, max_tape: 1400 },
        |tape, ctx| {
            let mut t = Tape::new(tape);
            let case = decode(&mut t);
            if ctx.want_sample() {
                let txt = format!("{}", case.project.program.term);
                ctx.sample(|| txt.chars().take(1500).collect());
            }
            check_case(&case, ctx)
        },
        |tape| {
            let case = decode(&mut Tape::new(tape));
            format!("{}\nstates: {:x?}", case.project.program.term, case.states.iter().map(|s| s.regs.iter().map(|(n, v, _)| (n.clone(), *v)).collect::<Vec<_>>()).collect::<Vec<_>>())
        },
    );
    eng.require_fraction("optimize-differential", "nontrivial", 0.3);
    eng.require_fraction("optimize-differential", "block-removed", 0.03);
    eng.require_fraction("optimize-differential", "sp-mask-substituted", 0.01);
    let _ = small_const;
}
