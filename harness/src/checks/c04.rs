//! C04 — conditional refinement never removes feasible values.
//!
//! `add_{signed,unsigned}_{less,greater}_equal_bound`, `add_not_equal_bound` and `intersect` of
//! `IntervalDomain` and `DataDomain<IntervalDomain>`:
//!   Ok(r)  => every member of the input that satisfies the comparison (evaluated with refsem) is
//!             a member of r (own membership predicate on the serde-observed r); r keeps the width
//!             and is well-formed;
//!   Err    => no member of the input satisfies the comparison.
//! "r is a subset of the input" / "r is the exact hull" are only measured (the trait documents
//! that results may be upper bounds).

use super::c02_obs::{ceil_member, floor_member, hint_variant, hints_in_position, ill_formed, observe, wide_grid, Obs, U1Layout};
use crate::conv::{bs, bvi};
use crate::dom::{decode_interval, reduced_universe_1byte, universe_1byte, IParts};
use crate::engine::{CaseResult, Ctx, Engine, Failure, RandomSpec};
use crate::refsem::{self as rs, from_i, R};
use crate::tape::{fnv, Tape};
use cwe_checker_lib::abstract_domain::{AbstractIdentifier, AbstractLocation, DataDomain, IntervalDomain, SizedDomain, SpecializeByConditional};
use cwe_checker_lib::intermediate_representation::{BinOpType, Bitvector, Tid, Variable};
use std::cell::RefCell;
use std::collections::BTreeMap;

#[derive(Clone, Copy, Debug, PartialEq, Eq, Hash)]
pub enum Cmp {
    Sle,
    Ule,
    Sge,
    Uge,
    Ne,
}
pub const CMPS: [Cmp; 5] = [Cmp::Sle, Cmp::Ule, Cmp::Sge, Cmp::Uge, Cmp::Ne];

impl Cmp {
    fn name(self) -> &'static str {
        match self {
            Cmp::Sle => "signed-le",
            Cmp::Ule => "unsigned-le",
            Cmp::Sge => "signed-ge",
            Cmp::Uge => "unsigned-ge",
            Cmp::Ne => "not-equal",
        }
    }
    /// Does the concrete value `c` satisfy `c <cmp> bound`? (P-Code comparison via refsem)
    fn sat(self, c: i128, bound: i128, w: usize) -> bool {
        let (c, b) = (from_i(c, w), from_i(bound, w));
        let r = match self {
            Cmp::Sle => rs::bin(BinOpType::IntSLessEqual, c, b),
            Cmp::Ule => rs::bin(BinOpType::IntLessEqual, c, b),
            Cmp::Sge => rs::bin(BinOpType::IntSLessEqual, b, c),
            Cmp::Uge => rs::bin(BinOpType::IntLessEqual, b, c),
            Cmp::Ne => rs::bin(BinOpType::IntNotEqual, c, b),
        };
        match r {
            R::Val(v) => v.v == 1,
            _ => unreachable!("comparison is always defined"),
        }
    }
    fn apply<T: SpecializeByConditional>(self, d: T, bound: &Bitvector) -> Result<T, String> {
        let r = match self {
            Cmp::Sle => d.add_signed_less_equal_bound(bound),
            Cmp::Ule => d.add_unsigned_less_equal_bound(bound),
            Cmp::Sge => d.add_signed_greater_equal_bound(bound),
            Cmp::Uge => d.add_unsigned_greater_equal_bound(bound),
            Cmp::Ne => d.add_not_equal_bound(bound),
        };
        r.map_err(|e| e.to_string())
    }
}

/// Counters collected without touching the label map; flushed every now and then.
#[derive(Default, Clone)]
struct Loc {
    refinements: u64,
    member_checks: u64,
    cuts: u64,
    unsat_err: u64,
    all_sat: u64,
    rounded: u64,
    hint_updated: u64,
    hint_present: u64,
    not_subset: u64,
    endpoint_unsat: u64,
    hint_out: u64,
    per_cmp: [u64; 5],
}

impl Loc {
    fn flush(&mut self, ctx: &mut Ctx) {
        ctx.label_n("refinements", self.refinements);
        ctx.label_n("member-checks", self.member_checks);
        ctx.label_n("cuts-interval", self.cuts);
        ctx.label_n("unsat-reported-and-confirmed", self.unsat_err);
        ctx.label_n("all-members-satisfy", self.all_sat);
        ctx.label_n("rounded-to-stride", self.rounded);
        ctx.label_n("hint-updated", self.hint_updated);
        ctx.label_n("hint-present", self.hint_present);
        ctx.label_n("result-not-subset-of-input(measured)", self.not_subset);
        ctx.label_n("result-endpoint-does-not-satisfy(measured)", self.endpoint_unsat);
        ctx.label_n("result-hint-out-of-position(measured)", self.hint_out);
        for (i, c) in CMPS.iter().enumerate() {
            ctx.label_n(&format!("op:{}", c.name()), self.per_cmp[i]);
        }
        *self = Loc::default();
    }
}

fn cmp_index(c: Cmp) -> usize {
    CMPS.iter().position(|x| *x == c).unwrap()
}

/// Width and well-formedness of an observed result. Ok(false): unusable for membership.
fn check_shape(ctx: &mut Ctx, opname: &str, class: &str, o: &Obs, w: usize, what: &dyn Fn() -> String) -> Result<bool, Failure> {
    if o.p.w != w || o.end_w != w {
        ctx.report(format!("C04:wrong-width:{}{}", opname, class), format!("{}: result bounds have widths ({}, {}) bytes, input width {}", what(), o.p.w, o.end_w, w))?;
        return Ok(false);
    }
    if o.lo_w.map(|x| x != w).unwrap_or(false) || o.hi_w.map(|x| x != w).unwrap_or(false) {
        ctx.report(format!("C04:hint-width:{}{}", opname, class), format!("{}: widening hints of widths {:?}/{:?} in a result of width {}", what(), o.lo_w, o.hi_w, w))?;
    }
    if let Some((kind, msg)) = ill_formed(&o.p) {
        ctx.report(format!("C04:ill-formed:{}:{}{}", kind, opname, class), format!("{}: ill-formed result {:?}: {}", what(), o.p, msg))?;
    }
    Ok(true)
}

fn is_subset(r: &IParts, a: &IParts) -> bool {
    if ill_formed(r).is_some() {
        return false;
    }
    a.member(r.start) && a.member(r.end) && (r.stride == 0 || (a.stride != 0 && r.stride % a.stride == 0))
}

/// One refinement of an interval value by a comparison with a constant.
/// `members`: the concrete members of `pa` to test (all of them at 1 byte).
#[allow(clippy::too_many_arguments)]
fn check_refine(
    ctx: &mut Ctx,
    cmp: Cmp,
    pa: &IParts,
    da: &IntervalDomain,
    bound: i128,
    bbv: &Bitvector,
    members: &mut dyn Iterator<Item = i128>,
    complete: bool,
    loc: &mut Loc,
) -> Result<bool, Failure> {
    loc.refinements += 1;
    loc.per_cmp[cmp_index(cmp)] += 1;
    let has_hint = pa.lo.is_some() || pa.hi.is_some();
    if has_hint {
        loc.hint_present += 1;
    }
    let res = match ctx.cut(|| cmp.apply(da.clone(), bbv))? {
        Some(r) => r,
        None => return Ok(has_hint),
    };
    let what = || format!("{}({:?}, bound {})", cmp.name(), pa, bound);
    let class = refine_class(pa);
    let mut nsat = 0u64;
    let mut n = 0u64;
    match res {
        Ok(r) => {
            let o = observe(&r);
            if !check_shape(ctx, cmp.name(), class, &o, pa.w, &what)? {
                return Ok(has_hint);
            }
            for m in members {
                n += 1;
                if cmp.sat(m, bound, pa.w) {
                    nsat += 1;
                    if !o.p.member(m) {
                        ctx.report(
                            format!("C04:feasible-value-removed:{}{}", cmp.name(), class),
                            format!("{} = Ok({:?}), but the member {} satisfies the comparison and is no longer represented", what(), o.p, m),
                        )?;
                        break;
                    }
                }
            }
            if !is_subset(&o.p, pa) {
                loc.not_subset += 1;
            }
            if !cmp.sat(o.p.start, bound, pa.w) || !cmp.sat(o.p.end, bound, pa.w) {
                loc.endpoint_unsat += 1;
            }
            if !hints_in_position(&o.p) {
                loc.hint_out += 1;
            }
            if o.p.lo != pa.lo || o.p.hi != pa.hi {
                loc.hint_updated += 1;
            }
            if pa.stride > 1 && !pa.member(bound) && (o.p.start != pa.start || o.p.end != pa.end) {
                loc.rounded += 1;
            }
        }
        Err(e) => {
            for m in members {
                n += 1;
                if cmp.sat(m, bound, pa.w) {
                    nsat += 1;
                    ctx.report(
                        format!("C04:wrong-unsat:{}{}", cmp.name(), class),
                        format!("{} = Err({}), but the member {} satisfies the comparison", what(), e, m),
                    )?;
                    break;
                }
            }
            if nsat == 0 && complete {
                loc.unsat_err += 1;
            }
        }
    }
    loc.member_checks += n;
    let cuts = nsat > 0 && nsat < n;
    if cuts {
        loc.cuts += 1;
    }
    if nsat == n {
        loc.all_sat += 1;
    }
    Ok(cuts || has_hint)
}

/// Decidable input class of a confirmed defect: the stride does not fit into a signed value of
/// the interval's width (`round_{up,down}_to_stride_of` turn the rounding distance into a
/// bitvector of that width and add it as a *signed* number).
fn refine_class(pa: &IParts) -> &'static str {
    if pa.stride as i128 > pa.smax() {
        ":stride-exceeds-signed-max"
    } else {
        ""
    }
}

fn all_members(p: &IParts) -> impl Iterator<Item = i128> + '_ {
    let n = p.count();
    (0..n).map(move |k| p.nth(k))
}

// ---------------------------------------------------------------------------------------------
// Own intersection arithmetic (oracle side): smallest/largest common member of two well-formed
// strided intervals, by the Chinese remainder theorem in i128/u128 with checked arithmetic.

fn gcd_u(a: u128, b: u128) -> u128 {
    let (mut a, mut b) = (a, b);
    while b != 0 {
        let t = a % b;
        a = b;
        b = t;
    }
    a
}

/// modular inverse of a modulo m (m >= 1, gcd(a, m) = 1), all values < 2^64
fn inv_mod(a: u128, m: u128) -> u128 {
    if m == 1 {
        return 0;
    }
    let (mut r0, mut r1) = (m as i128, (a % m) as i128);
    let (mut t0, mut t1) = (0i128, 1i128);
    while r1 != 0 {
        let q = r0 / r1;
        (r0, r1) = (r1, r0 - q * r1);
        (t0, t1) = (t1, t0 - q * t1);
    }
    debug_assert_eq!(r0, 1);
    (((t0 % m as i128) + m as i128) % m as i128) as u128
}

/// (smallest common member, largest common member, period) or None if the value sets are disjoint.
/// period = lcm of the strides (None if there is only one common member or it exceeds i128).
pub fn common_members(a: &IParts, b: &IParts) -> Option<(i128, i128, Option<u128>)> {
    let lo = a.start.max(b.start);
    let hi = a.end.min(b.end);
    if lo > hi {
        return None;
    }
    match (a.stride, b.stride) {
        (0, _) => return if b.member(a.start) { Some((a.start, a.start, None)) } else { None },
        (_, 0) => return if a.member(b.start) { Some((b.start, b.start, None)) } else { None },
        _ => {}
    }
    let (sa, sb) = (a.stride as u128, b.stride as u128);
    let g = gcd_u(sa, sb);
    // a.start + k*sa == b.start (mod sb)
    let diff = b.start - a.start; // |diff| < 2^65
    if diff.rem_euclid(g as i128) != 0 {
        return None;
    }
    let m = sb / g;
    let rhs = (diff / g as i128).rem_euclid(m as i128) as u128; // < 2^64
    let k = (rhs * inv_mod((sa / g) % m, m)) % m; // < 2^64, product < 2^128
    let step = k.checked_mul(sa)?; // if it overflows the solution is far outside every 8-byte range
    if step > (1u128 << 100) {
        return None;
    }
    let x0 = a.start + step as i128; // smallest solution >= a.start
    let lcm = (sa / g).checked_mul(sb);
    // smallest solution >= lo
    let first = if x0 >= lo {
        x0
    } else {
        let l = lcm?; // x0 < lo and no representable period: next solution is out of range
        let t = ((lo - x0) as u128 + l - 1) / l;
        x0 + (t.checked_mul(l)?) as i128
    };
    if first > hi {
        return None;
    }
    match lcm {
        Some(l) if l <= (hi - first) as u128 => {
            let t = (hi - first) as u128 / l;
            Some((first, first + (t * l) as i128, Some(l)))
        }
        _ => Some((first, first, None)),
    }
}

/// The extended Euclidean algorithm in its textbook recursive form (gcd, x, y with
/// gcd = x*a + y*b). Only used to *classify* failures, never for a verdict.
fn ext_gcd(a: i128, b: i128) -> (i128, i128, i128) {
    if a == 0 {
        (b, 0, 1)
    } else {
        let (g, x, y) = ext_gcd(b % a, a);
        (g, y - (b / a) * x, x)
    }
}

/// Decidable input classes of confirmed defects of `signed_intersect` (classification only; the
/// verdict comes from `common_members`/brute force):
/// * `:congruent-starts-of-different-sign` — the residue classes of the two start values are
///   compared with Rust's truncating `%`, which gives different remainders for congruent values
///   of different sign;
/// * `:crt-sum-below-minus-lcm` — the CRT combination is made non-negative by adding the lcm
///   once, but the sum of the two partial terms can be below -lcm when a start value is negative;
///   the negative residue is then cast to u64;
/// * `:lcm-exceeds-u64` — DESIGN F11: both strides non-zero and their lcm exceeds u64::MAX.
fn lcm_class(a: &IParts, b: &IParts) -> &'static str {
    if a.stride == 0 || b.stride == 0 || a.w > 8 {
        return "";
    }
    // Classification only (never the verdict): if the interval intersection itself reports its
    // "Integer overflow during chinese remainder theorem computation" error, the case belongs to the
    // open finding DESIGN F11 (overflow reported as empty intersection), whatever the input shape.
    {
        use cwe_checker_lib::abstract_domain::SpecializeByConditional;
        let (x, y) = (a.build(), b.build());
        if let Ok(Err(e)) = crate::engine::cut(|| x.intersect(&y)) {
            if format!("{}", e).contains("Integer overflow") {
                return ":lcm-exceeds-u64";
            }
        }
    }
    let g = gcd_u(a.stride as u128, b.stride as u128);
    let gi = g as i128;
    if a.start.rem_euclid(gi) == b.start.rem_euclid(gi) && a.start % gi != b.start % gi {
        return ":congruent-starts-of-different-sign";
    }
    let lcm = match (a.stride as u128 / g).checked_mul(b.stride as u128) {
        Some(l) if l <= u64::MAX as u128 => l as i128,
        _ => return ":lcm-exceeds-u64",
    };
    if a.start.rem_euclid(gi) != b.start.rem_euclid(gi) {
        return "";
    }
    // mirror of the combination formula with checked arithmetic (an overflow is not this class)
    let (sl, sr, bl, br) = (a.stride as i128, b.stride as i128, a.start, b.start);
    let (_, li, ri) = ext_gcd(sl, sr);
    let t = (|| {
        let t1 = ((br % lcm) / gi).checked_mul(li.checked_mul(sl)?)? % lcm;
        let t2 = ((bl % lcm) / gi).checked_mul(ri.checked_mul(sr)?)? % lcm;
        t1.checked_add(t2)?.checked_add(bl % gi)
    })();
    match t {
        Some(t) if (t + lcm) % lcm < 0 => ":crt-sum-below-minus-lcm",
        _ => "",
    }
}

#[derive(Default)]
struct ILoc {
    member_checks: u64,
    nonempty: u64,
    empty_err: u64,
    exact_hull: u64,
    hint_kept: u64,
    stride_combined: u64,
}
impl ILoc {
    fn flush(&self, ctx: &mut Ctx) {
        ctx.label_n("member-checks", self.member_checks);
        ctx.label_n("intersection-nonempty", self.nonempty);
        ctx.label_n("unsat-reported-and-confirmed", self.empty_err);
        ctx.label_n("result-is-exact-hull(measured)", self.exact_hull);
        ctx.label_n("result-keeps-a-hint", self.hint_kept);
        ctx.label_n("strides-combined(lcm > both)", self.stride_combined);
    }
}

/// `intersect` of two interval values. `brute`: enumerate all members of A (1 byte) in addition to
/// the witnesses computed by `common_members`.
fn check_intersect(ctx: &mut Ctx, pa: &IParts, pb: &IParts, da: &IntervalDomain, db: &IntervalDomain, brute: bool, salt: u64, loc: &mut ILoc) -> CaseResult {
    let res = match ctx.cut(|| da.clone().intersect(db).map_err(|e| e.to_string()))? {
        Some(r) => r,
        None => return Ok(()),
    };
    let what = || format!("intersect({:?}, {:?})", pa, pb);
    let class = lcm_class(pa, pb);
    let cm = common_members(pa, pb);
    // witnesses: common members that must survive
    let mut wit: Vec<i128> = vec![];
    if let Some((first, last, period)) = cm {
        wit.push(first);
        wit.push(last);
        if let Some(l) = period {
            let l = l as i128;
            if first + l <= last {
                wit.push(first + l);
                wit.push(last - l);
                let n = ((last - first) / l) as u128;
                wit.push(first + ((n / 2) as i128) * l);
            }
        }
    }
    if brute {
        let mut any = false;
        for m in all_members(pa) {
            if pb.member(m) {
                any = true;
                wit.push(m);
            }
        }
        // self-test of the oracle arithmetic against brute force (a disagreement is a harness bug)
        assert_eq!(any, cm.is_some(), "common_members disagrees with brute force on {:?} {:?}", pa, pb);
        if let Some((first, last, _)) = cm {
            let mn = wit.iter().copied().min().unwrap();
            let mx = wit.iter().copied().max().unwrap();
            assert!(mn == first && mx == last, "common_members bounds wrong on {:?} {:?}", pa, pb);
        }
    } else {
        for m in pa.members(48, salt) {
            if pb.member(m) {
                wit.push(m);
            }
        }
        for m in pb.members(48, salt ^ 7) {
            if pa.member(m) {
                wit.push(m);
            }
        }
        if cm.is_none() {
            assert!(wit.is_empty(), "common_members found nothing but {:?} is common to {:?} {:?}", wit, pa, pb);
        }
    }
    loc.member_checks += wit.len() as u64;
    match res {
        Ok(r) => {
            let o = observe(&r);
            if !check_shape(ctx, "intersect", class, &o, pa.w, &what)? {
                return Ok(());
            }
            for m in wit.iter() {
                if !o.p.member(*m) {
                    return ctx.report(
                        format!("C04:feasible-value-removed:intersect{}", class),
                        format!("{} = Ok({:?}), but the common member {} is not represented", what(), o.p, m),
                    );
                }
            }
            if let Some((first, last, period)) = cm {
                loc.nonempty += 1;
                if o.p.start == first && o.p.end == last {
                    loc.exact_hull += 1;
                }
                if let Some(l) = period {
                    if l > pa.stride as u128 && l > pb.stride as u128 {
                        loc.stride_combined += 1;
                    }
                }
            }
            if o.p.lo.is_some() || o.p.hi.is_some() {
                loc.hint_kept += 1;
            }
        }
        Err(e) => {
            if let Some(m) = wit.first() {
                // DESIGN F11: an arithmetic overflow inside the CRT computation is reported as Err,
                // which every caller reads as "empty intersection"
                let class = if e.contains("Integer overflow") { ":crt-overflow-reported-as-empty" } else { class };
                return ctx.report(
                    format!("C04:wrong-unsat:intersect{}", class),
                    format!("{} = Err({}), but {} is a member of both values", what(), e, m),
                );
            }
            loc.empty_err += 1;
        }
    }
    Ok(())
}

// ---------------------------------------------------------------------------------------------
// DataDomain<IntervalDomain>

#[derive(Clone, Debug)]
struct DParts {
    w: usize,
    abs: Option<IParts>,
    rel: Vec<(usize, IParts)>, // (identifier index, offset), distinct indices, sorted
    top: bool,
}

const ID_NAMES: [&str; 3] = ["RAX", "RBX", "RCX"];

fn ident(i: usize) -> AbstractIdentifier {
    AbstractIdentifier::new(Tid::new("time0"), AbstractLocation::Register(Variable { name: ID_NAMES[i].to_string(), size: bs(8), is_temp: false }))
}

impl DParts {
    fn build(&self) -> DataDomain<IntervalDomain> {
        let mut d: DataDomain<IntervalDomain> = DataDomain::new_empty(bs(self.w));
        if let Some(a) = &self.abs {
            d.set_absolute_value(Some(a.build()));
        }
        let mut m = BTreeMap::new();
        for (i, off) in self.rel.iter() {
            m.insert(ident(*i), off.build());
        }
        d.set_relative_values(m);
        if self.top {
            d.set_contains_top_flag();
        }
        d
    }
    fn is_empty(&self) -> bool {
        self.abs.is_none() && self.rel.is_empty() && !self.top
    }
}

struct DObs {
    w: usize,
    abs: Option<Obs>,
    rel: Vec<(usize, Obs)>,
    unknown_ids: usize,
    top: bool,
}

fn observe_data(d: &DataDomain<IntervalDomain>) -> DObs {
    let ids: Vec<AbstractIdentifier> = (0..ID_NAMES.len()).map(ident).collect();
    let mut rel = vec![];
    let mut unknown = 0;
    for (id, off) in d.get_relative_values().iter() {
        match ids.iter().position(|x| x == id) {
            Some(i) => rel.push((i, observe(off))),
            None => unknown += 1,
        }
    }
    DObs { w: u64::from(d.bytesize()) as usize, abs: d.get_absolute_value().map(observe), rel, unknown_ids: unknown, top: d.contains_top() }
}

fn decode_data(t: &mut Tape, w: usize) -> DParts {
    let hints = t.prob(100);
    let shape = t.below(8);
    let abs = if shape != 1 && shape != 2 { Some(decode_interval(t, w, hints)) } else { None };
    let nrel = match shape {
        0 => 0,
        1 | 3 => 1,
        2 | 4 => 2,
        _ => t.below(3),
    };
    let mut rel: Vec<(usize, IParts)> = vec![];
    for _ in 0..nrel {
        let i = t.below(3);
        if rel.iter().all(|(j, _)| *j != i) {
            rel.push((i, decode_interval(t, w, hints)));
        }
    }
    rel.sort_by_key(|x| x.0);
    let top = t.prob(50);
    let mut d = DParts { w, abs, rel, top };
    if t.prob(6) {
        d = DParts { w, abs: None, rel: vec![], top: false }; // the empty value
    }
    d
}

/// Witness members for a refinement of a wide value: members next to the bound and to the
/// signed/unsigned extremes decide existence of a satisfying member exactly; sampled members add
/// breadth.
fn refine_witnesses(pa: &IParts, bound: i128, salt: u64) -> Vec<i128> {
    let mut v = pa.members(48, salt);
    for x in [bound - 1, bound, bound + 1, 0, -1] {
        if let Some(m) = floor_member(pa, x) {
            v.push(m);
        }
        if let Some(m) = ceil_member(pa, x) {
            v.push(m);
        }
    }
    v.push(pa.start);
    v.push(pa.end);
    v.sort();
    v.dedup();
    v
}

fn check_data_refine(ctx: &mut Ctx, cmp: Cmp, x: &DParts, bound: i128, salt: u64) -> CaseResult {
    let d = x.build();
    let bbv = bvi(bound, x.w);
    let res = match ctx.cut(|| cmp.apply(d, &bbv))? {
        Some(r) => r,
        None => return Ok(()),
    };
    let what = || format!("DataDomain {}({:?}, bound {})", cmp.name(), x, bound);
    let class = x.abs.as_ref().map(refine_class).unwrap_or("");
    let wit: Vec<i128> = x.abs.as_ref().map(|a| refine_witnesses(a, bound, salt).into_iter().filter(|m| cmp.sat(*m, bound, x.w)).collect()).unwrap_or_default();
    if !x.rel.is_empty() {
        ctx.label("data:has-relative-values");
    }
    if x.top {
        ctx.label("data:top-flag");
    }
    match res {
        Ok(r) => {
            let o = observe_data(&r);
            if o.w != x.w {
                ctx.report(format!("C04:data:wrong-width:{}", cmp.name()), format!("{}: result size {}", what(), o.w))?;
            }
            match (&o.abs, wit.first()) {
                (None, Some(m)) => {
                    ctx.label("data:absolute-part-dropped-wrongly");
                    ctx.report(
                        format!("C04:data:feasible-value-removed:{}{}", cmp.name(), class),
                        format!("{}: the absolute part was dropped, but its member {} satisfies the comparison", what(), m),
                    )?;
                }
                (None, None) => {
                    if x.abs.is_some() {
                        ctx.label("data:absolute-part-unsat-dropped");
                    }
                }
                (Some(oa), _) => {
                    let w = x.w;
                    if check_shape(ctx, cmp.name(), ":data", oa, w, &what)? {
                        for m in wit.iter() {
                            if !oa.p.member(*m) {
                                ctx.report(
                                    format!("C04:data:feasible-value-removed:{}{}", cmp.name(), class),
                                    format!("{} = absolute part {:?}, but the member {} satisfies the comparison and is no longer represented", what(), oa.p, m),
                                )?;
                                break;
                            }
                        }
                    }
                }
            }
            // relative values and the top flag stand for values that may satisfy the comparison
            if x.top && !o.top {
                ctx.report(format!("C04:data:top-flag-removed:{}", cmp.name()), format!("{}: the result lost the contains-top flag", what()))?;
            }
            for (i, off) in x.rel.iter() {
                match o.rel.iter().find(|(j, _)| j == i) {
                    None => {
                        ctx.report(format!("C04:data:relative-value-removed:{}", cmp.name()), format!("{}: the target {} is gone", what(), ID_NAMES[*i]))?;
                    }
                    Some((_, oo)) => {
                        for m in refine_witnesses(off, bound, salt) {
                            if oo.p.w != off.w || !oo.p.member(m) {
                                ctx.report(
                                    format!("C04:data:relative-value-removed:{}", cmp.name()),
                                    format!("{}: offset {} of target {} is gone (offset now {:?})", what(), m, ID_NAMES[*i], oo.p),
                                )?;
                                break;
                            }
                        }
                    }
                }
            }
        }
        Err(e) => {
            ctx.label("data:err");
            if !x.rel.is_empty() || x.top {
                ctx.report(
                    format!("C04:data:wrong-unsat:{}", cmp.name()),
                    format!("{} = Err({}) although the value has relative targets or the top flag (they may satisfy the comparison)", what(), e),
                )?;
            } else if let Some(m) = wit.first() {
                ctx.report(format!("C04:data:wrong-unsat:{}{}", cmp.name(), class), format!("{} = Err({}), but the absolute member {} satisfies the comparison", what(), e, m))?;
            }
        }
    }
    Ok(())
}

/// Common-member witnesses of two interval values (wide): exact first/last + samples.
fn common_witnesses(a: &IParts, b: &IParts) -> Vec<i128> {
    match common_members(a, b) {
        None => vec![],
        Some((f, l, p)) => {
            let mut v = vec![f, l];
            if let Some(p) = p {
                if f + (p as i128) <= l {
                    v.push(f + p as i128);
                    v.push(l - p as i128);
                }
            }
            v.dedup();
            v
        }
    }
}

/// `DataDomain::intersect` under the reading "distinct identifiers denote distinct values":
/// common absolute members and common (identifier, offset) members must be retained (in their
/// part, or the result must carry the top flag); Err only if there is no such common member and
/// neither side's top flag can stand for a value of the (non-empty) other side.
fn check_data_intersect(ctx: &mut Ctx, x: &DParts, y: &DParts) -> CaseResult {
    let (dx, dy) = (x.build(), y.build());
    let res = match ctx.cut(|| dx.intersect(&dy).map_err(|e| e.to_string()))? {
        Some(r) => r,
        None => return Ok(()),
    };
    let what = || format!("DataDomain intersect({:?}, {:?})", x, y);
    // every witness carries the defect class of the interval pair it comes from
    let (abs_wit, abs_class) = match (&x.abs, &y.abs) {
        (Some(a), Some(b)) => (common_witnesses(a, b), lcm_class(a, b)),
        _ => (vec![], ""),
    };
    let mut rel_wit: Vec<(usize, Vec<i128>, &'static str)> = vec![];
    for (i, a) in x.rel.iter() {
        if let Some((_, b)) = y.rel.iter().find(|(j, _)| j == i) {
            let w = common_witnesses(a, b);
            if !w.is_empty() {
                rel_wit.push((*i, w, lcm_class(a, b)));
            }
        }
    }
    match res {
        Ok(r) => {
            let o = observe_data(&r);
            if o.w != x.w {
                ctx.report("C04:data:wrong-width:intersect", format!("{}: result size {}", what(), o.w))?;
            }
            if x.top && y.top && !o.top {
                ctx.report("C04:data:top-flag-removed:intersect", format!("{}: both sides contain top values, the result does not", what()))?;
            }
            if !o.top {
                for m in abs_wit.iter() {
                    let ok = o.abs.as_ref().map(|oa| oa.p.w == x.w && oa.p.member(*m)).unwrap_or(false);
                    if !ok {
                        ctx.report(
                            format!("C04:data:feasible-value-removed:intersect{}", abs_class),
                            format!("{}: the absolute value {} is common to both sides but not in the result's absolute part {:?}", what(), m, o.abs.as_ref().map(|x| x.p.clone())),
                        )?;
                        break;
                    }
                }
                for (i, ws, class) in rel_wit.iter() {
                    let part = o.rel.iter().find(|(j, _)| j == i);
                    for m in ws {
                        let ok = part.map(|(_, oo)| oo.p.member(*m)).unwrap_or(false);
                        if !ok {
                            ctx.report(
                                format!("C04:data:relative-value-removed:intersect{}", class),
                                format!("{}: {}+{} is common to both sides but not in the result", what(), ID_NAMES[*i], m),
                            )?;
                            break;
                        }
                    }
                }
            }
            if let Some(oa) = &o.abs {
                check_shape(ctx, "intersect", ":data", oa, x.w, &what)?;
            }
            if o.unknown_ids > 0 {
                ctx.report("C04:data:unknown-identifier:intersect", format!("{}: result contains identifiers of neither input", what()))?;
            }
            ctx.label("data:intersect-ok");
        }
        Err(e) => {
            ctx.label("data:err");
            let witness = if let Some(m) = abs_wit.first() {
                Some((format!("absolute value {}", m), abs_class))
            } else if let Some((i, ws, class)) = rel_wit.first() {
                Some((format!("{}+{}", ID_NAMES[*i], ws[0]), *class))
            } else if (x.top && !y.is_empty()) || (y.top && !x.is_empty()) {
                Some(("a top value of one side may equal any value of the non-empty other side".to_string(), ""))
            } else {
                None
            };
            if let Some((wn, class)) = witness {
                ctx.report(format!("C04:data:wrong-unsat:intersect{}", class), format!("{} = Err({}), but both sides can represent the same value: {}", what(), e, wn))?;
            }
        }
    }
    Ok(())
}

// ---------------------------------------------------------------------------------------------
// random section

#[derive(Clone, Debug)]
enum Case {
    Refine(Cmp, IParts, i128),
    Intersect(IParts, IParts),
    DataRefine(Cmp, DParts, i128),
    DataIntersect(DParts, DParts),
}

fn decode_bound(t: &mut Tape, a: &IParts) -> i128 {
    let w = a.w;
    let clampw = |x: i128| x.clamp(a.smin(), a.smax());
    match t.below(8) {
        0 | 1 => rs::sext(t.int(w), w),
        2 => clampw(a.start + t.range(-3, 3) as i128),
        3 => clampw(a.end + t.range(-3, 3) as i128),
        4 => {
            // next to a member in the middle
            let n = a.count();
            let k = (t.u64() as u128) % n;
            clampw(a.nth(k) + t.range(-2, 2) as i128)
        }
        5 => clampw(a.lo.unwrap_or(a.start) + t.range(-2, 2) as i128),
        6 => clampw(a.hi.unwrap_or(a.end) + t.range(-2, 2) as i128),
        _ => *t.choose(&[0i128, -1, 1, a.smin(), a.smax(), a.smin() + 1, a.smax() - 1]),
    }
}

const BIG_STRIDES: [u64; 14] = [
    (1 << 32) + 1,
    (1 << 32) - 1,
    (1 << 33) + 1,
    (1 << 33) - 1,
    (1 << 31) - 1,
    4294967291,
    4294967311,
    (1 << 40) + 1,
    (1 << 40) - 1,
    (1 << 62) + 1,
    (1 << 62) - 1,
    (1 << 63) - 1,
    (1 << 63) + 1,
    3 << 61,
];

fn decode_stride(t: &mut Tape, w: usize) -> u64 {
    let bits = 8 * w as u32;
    let s = match t.below(8) {
        0 => 1,
        1 => 2,
        2 => 1 + t.below(12) as u64,
        3 => 1u64 << t.below((bits - 1).min(63) as usize),
        4 => (1u64 << t.below((bits - 2).min(62) as usize)) + 1,
        5 | 6 if w == 8 => *t.choose(&BIG_STRIDES),
        5 | 6 => 1 + t.below(255) as u64,
        _ => t.u64().max(1),
    };
    if bits < 64 {
        (s % ((1u64 << (bits - 1)) - 1)).max(1)
    } else {
        s
    }
}

/// An interval with stride `s` that contains `c`: c - i*s ..= c + j*s, clipped to the width.
fn around(t: &mut Tape, c: i128, s: u64, w: usize) -> IParts {
    let smin = -(1i128 << (8 * w - 1));
    let smax = -smin - 1;
    let max_i = ((c - smin) as u128) / s as u128;
    let max_j = ((smax - c) as u128) / s as u128;
    let draw = |t: &mut Tape, mx: u128| -> u128 {
        let d: u128 = match t.below(5) {
            0 => 0,
            1 => t.below(4) as u128,
            2 => t.below(200) as u128,
            3 => mx,
            _ => t.u64() as u128,
        };
        d.min(mx)
    };
    let i = draw(t, max_i);
    let j = draw(t, max_j);
    let (st, en) = (c - (i * s as u128) as i128, c + (j * s as u128) as i128);
    if st == en {
        IParts::singleton(st, w)
    } else {
        IParts::new(st, en, s, w)
    }
}

fn with_random_hints(t: &mut Tape, p: IParts) -> IParts {
    if t.prob(90) {
        hint_variant(&p, 1 + t.below(7) as u64)
    } else {
        p
    }
}

fn decode_intersect_pair(t: &mut Tape, w: usize) -> (IParts, IParts) {
    if t.prob(70) {
        let hints = t.prob(90);
        (decode_interval(t, w, hints), decode_interval(t, w, hints))
    } else {
        let c = rs::sext(t.int(w), w);
        let (sa, sb) = (decode_stride(t, w), decode_stride(t, w));
        let a = around(t, c, sa, w);
        // the second interval contains c or a value next to c (then the residue classes may differ)
        let c2 = if t.prob(50) { (c + t.range(-2, 2) as i128).clamp(a.smin(), a.smax()) } else { c };
        let b = around(t, c2, sb, w);
        (with_random_hints(t, a), with_random_hints(t, b))
    }
}

fn decode(t: &mut Tape, u1: &[IParts]) -> Case {
    let kind = t.below(10);
    let w = *t.choose(&[8usize, 4, 2, 1]);
    match kind {
        0..=2 => {
            let hints = t.prob(128);
            let a = decode_interval(t, w, hints);
            let cmp = *t.choose(&CMPS);
            let b = decode_bound(t, &a);
            Case::Refine(cmp, a, b)
        }
        3..=5 => {
            if w == 1 {
                let a = u1[t.below(u1.len())].clone();
                let b = u1[t.below(u1.len())].clone();
                Case::Intersect(with_random_hints(t, a), with_random_hints(t, b))
            } else {
                let (a, b) = decode_intersect_pair(t, w);
                Case::Intersect(a, b)
            }
        }
        6 | 7 => {
            let x = decode_data(t, w);
            let cmp = *t.choose(&CMPS);
            let b = match &x.abs {
                Some(a) => decode_bound(t, a),
                None => rs::sext(t.int(w), w),
            };
            Case::DataRefine(cmp, x, b)
        }
        _ => {
            let mut x = decode_data(t, w);
            let mut y = decode_data(t, w);
            if t.prob(110) {
                // make the absolute parts (and one shared target) overlap by construction
                let (a, b) = decode_intersect_pair(t, w);
                if x.abs.is_some() && y.abs.is_some() {
                    x.abs = Some(a.clone());
                    y.abs = Some(b.clone());
                }
                if let (Some(rx), Some(ry)) = (x.rel.first().cloned(), y.rel.first().cloned()) {
                    if rx.0 == ry.0 {
                        x.rel[0].1 = a;
                        y.rel[0].1 = b;
                    }
                }
            }
            Case::DataIntersect(x, y)
        }
    }
}

fn run_random_case(c: &Case, ctx: &mut Ctx) -> CaseResult {
    let salt = fnv(format!("{:?}", c).as_bytes());
    match c {
        Case::Refine(cmp, a, bound) => {
            ctx.label("kind:refine");
            ctx.label(&format!("width:{}", a.w));
            let mut loc = Loc::default();
            let wit = refine_witnesses(a, *bound, salt);
            let complete = a.count() <= 48;
            let r = check_refine(ctx, *cmp, a, &a.build(), *bound, &bvi(*bound, a.w), &mut wit.iter().copied(), complete, &mut loc);
            loc.flush(ctx);
            if r? {
                ctx.nontrivial(salt);
            }
            Ok(())
        }
        Case::Intersect(a, b) => {
            ctx.label("kind:intersect");
            ctx.label(&format!("width:{}", a.w));
            if lcm_class(a, b) == ":lcm-exceeds-u64" {
                ctx.label("intersect:lcm-exceeds-u64");
            }
            if a.count() >= 2 || b.count() >= 2 {
                ctx.nontrivial(salt);
            }
            let mut loc = ILoc::default();
            let r = check_intersect(ctx, a, b, &a.build(), &b.build(), a.w == 1, salt, &mut loc);
            loc.flush(ctx);
            r
        }
        Case::DataRefine(cmp, x, bound) => {
            ctx.label("kind:data-refine");
            ctx.nontrivial(salt);
            check_data_refine(ctx, *cmp, x, *bound, salt)
        }
        Case::DataIntersect(x, y) => {
            ctx.label("kind:data-intersect");
            ctx.nontrivial(salt);
            check_data_intersect(ctx, x, y)
        }
    }
}

thread_local! {
    /// (interval index incl. hint variant) -> built values, per worker thread
    static CACHE: RefCell<Option<(u64, IParts, IntervalDomain)>> = const { RefCell::new(None) };
    static ACC: RefCell<Loc> = RefCell::new(Loc::default());
}

fn require_case_fraction(eng: &mut Engine, section: &str, label: &str, denom: &str, min: f64) {
    if matches!(eng.mode, crate::engine::Mode::Replay { .. }) || eng.violations.iter().any(|v| v.section == section) {
        return;
    }
    let n = eng.label_count(section, denom);
    let c = eng.label_count(section, label);
    if n == 0 || (c as f64) < min * n as f64 {
        eng.inconclusive.push(format!("generator starvation: section {} label {} = {} of {} {} (< {:.3})", section, label, c, n, denom, min));
    }
}

/// In replay mode only the section of the replayed case is set up.
fn wanted(eng: &Engine, section: &str) -> bool {
    match &eng.mode {
        crate::engine::Mode::Replay { section: s, .. } => s == section,
        _ => true,
    }
}

pub fn run(eng: &mut Engine) {
    // anyhow captures a backtrace (global lock + stack unwinding) for every Err of the code under
    // test when RUST_BACKTRACE is set in the environment; that only costs time (10^7 Err results per
    // run), it has no influence on any verdict. Must happen before the first Err is created.
    std::env::set_var("RUST_LIB_BACKTRACE", "0");
    eng.rule = "cases = (value, comparison in {signed <=, unsigned <=, signed >=, unsigned >=, !=}, constant bound) and (value, value) pairs for intersect, on IntervalDomain (built through serde incl. stride, widening hints, delay) and DataDomain<IntervalDomain>; one evaluation = one refinement call whose Ok/Err result is checked against the concrete members of the input (all members at 1 byte; for wider values the members next to the bound and to 0/-1/MIN/MAX, which decide existence exactly, plus sampled members; for intersect the exact first/last common member by an independent CRT computation). non-trivial = the comparison cuts the value (some members satisfy it, some do not) or a widening hint is present (refinements); at least one side has >= 2 members (intersect); distinct by construction in enumerations, by hash of the case in the random section".into();
    eng.assumptions = vec![
        "comparisons are evaluated with refsem (INT_SLESSEQUAL, INT_LESSEQUAL, INT_NOTEQUAL)".into(),
        "membership = {start + k*stride | start <=s . <=s end} by dom::IParts::member on the serde-observed result (Interval::contains is not used)".into(),
        "preconditions respected: bound width = value width; both sides of intersect have equal widths; input intervals well-formed; widening hints only where every constructor puts them (lower hint <s start, upper hint >s end)".into(),
        "the result may be an upper bound (trait documentation): 'result is a subset of the input' and exactness are measured, not asserted".into(),
        "DataDomain: relative targets and the top flag stand for values that may satisfy any comparison, so Err is only legal without them; DataDomain::intersect is checked only under the reading that distinct identifiers denote distinct values (its documentation declares the aliasing case unsound)".into(),
    ];
    let thorough = eng.tier == crate::engine::Tier::Thorough;

    // 1. every 1-byte interval (quick: the first three blocks of `U1Layout`: a fifth of the stride <= 8
    //    values without and with hints, the other four fifths without hints; thorough: all values, three variants)
    //    x every 1-byte bound x 5 comparisons, exhaustive over the members
    if wanted(eng, "refine-1byte-universe-all-bounds") {
        let lay = U1Layout::new();
        let items = lay.items(if thorough { 9 } else { 3 });
        let bounds: Vec<Bitvector> = (0..256).map(|b| bvi(b as i128 - 128, 1)).collect();
        let per = 256 * 5u64;
        eng.extra.insert("universe_1byte_items_used".into(), serde_json::json!(items));
        eng.enumerate(
            "refine-1byte-universe-all-bounds",
            items * per,
            true,
            |i, ctx| {
                let j = i / per;
                let r = i % per;
                let cmp = CMPS[(r % 5) as usize];
                let bi = (r / 5) as usize;
                let bound = bi as i128 - 128;
                CACHE.with(|c| {
                    let mut c = c.borrow_mut();
                    if c.as_ref().map(|x| x.0 != j).unwrap_or(true) {
                        let pa = lay.value(j);
                        let da = pa.build();
                        *c = Some((j, pa, da));
                    }
                    let (_, pa, da) = c.as_ref().unwrap();
                    ACC.with(|acc| {
                        let mut acc = acc.borrow_mut();
                        let res = check_refine(ctx, cmp, pa, da, bound, &bounds[bi], &mut all_members(pa), true, &mut acc);
                        if i % 64 == 63 || res.is_err() {
                            acc.flush(ctx);
                        }
                        if i % 10_000_019 == 4711 {
                            ctx.sample(|| format!("{}({:?}, bound {})", cmp.name(), pa, bound));
                        }
                        match res {
                            Ok(nontrivial) => {
                                if nontrivial {
                                    ctx.nontrivial_by_construction(1);
                                }
                                Ok(())
                            }
                            Err(f) => Err(f),
                        }
                    })
                })
            },
            |i| {
                let r = i % per;
                format!("{}({:?}, bound {})", CMPS[(r % 5) as usize].name(), lay.value(i / per), (r / 5) as i128 - 128)
            },
        );
        require_case_fraction(eng, "refine-1byte-universe-all-bounds", "cuts-interval", "refinements", 0.15);
        require_case_fraction(eng, "refine-1byte-universe-all-bounds", "unsat-reported-and-confirmed", "refinements", 0.05);
        require_case_fraction(eng, "refine-1byte-universe-all-bounds", "hint-present", "refinements", 0.10);
        require_case_fraction(eng, "refine-1byte-universe-all-bounds", "rounded-to-stride", "refinements", 0.02);
    }

    // 2. intersect: all pairs of the reduced 1-byte universe x hint variants, exhaustive over members
    if wanted(eng, "intersect-1byte-reduced-universe-pairs") {
        let ru = reduced_universe_1byte();
        let nvar: u64 = if thorough { 3 } else { 2 };
        let mut parts: Vec<IParts> = vec![];
        for k in 0..3 {
            for p in ru.iter() {
                parts.push(hint_variant(p, k));
            }
        }
        let doms: Vec<IntervalDomain> = parts.iter().map(|p| p.build()).collect();
        let n = ru.len() as u64;
        let locate = |i: u64| -> (usize, usize) {
            let k = i / (n * n);
            let r = i % (n * n);
            let (ia, ib) = (r / n, r % n);
            let kb = (k + ia) % 3;
            ((k * n + ia) as usize, (kb * n + ib) as usize)
        };
        eng.enumerate(
            "intersect-1byte-reduced-universe-pairs",
            n * n * nvar,
            true,
            |i, ctx| {
                let (xa, xb) = locate(i);
                let (pa, pb) = (&parts[xa], &parts[xb]);
                if pa.count() >= 2 || pb.count() >= 2 {
                    ctx.nontrivial_by_construction(1);
                }
                if pa.lo.is_some() || pa.hi.is_some() || pb.lo.is_some() || pb.hi.is_some() {
                    ctx.label("hint-present");
                }
                if i % 100_003 == 5 {
                    ctx.sample(|| format!("intersect({:?}, {:?})", pa, pb));
                }
                let mut loc = ILoc::default();
                let r = check_intersect(ctx, pa, pb, &doms[xa], &doms[xb], true, i, &mut loc);
                loc.flush(ctx);
                r
            },
            |i| {
                let (xa, xb) = locate(i);
                format!("intersect({:?}, {:?})", parts[xa], parts[xb])
            },
        );
        eng.require_fraction("intersect-1byte-reduced-universe-pairs", "intersection-nonempty", 0.10);
        eng.require_fraction("intersect-1byte-reduced-universe-pairs", "unsat-reported-and-confirmed", 0.10);
        eng.require_fraction("intersect-1byte-reduced-universe-pairs", "strides-combined(lcm > both)", 0.005);
    }

    // 3. boundary grids of 2/4/8-byte values: refinement by bounds next to the endpoints, and intersect of pairs
    if wanted(eng, "refine-wide-grid") || wanted(eng, "intersect-wide-grid-pairs") {
        let mut g: Vec<IParts> = vec![];
        for w in [2usize, 4, 8] {
            g.extend(wide_grid(w, true));
        }
        if thorough {
            for w in [2usize, 4, 8] {
                g.extend(wide_grid(w, false));
            }
        }
        let n = g.len() as u64;
        eng.extra.insert("wide_grid_size".into(), serde_json::json!(n));
        eng.enumerate(
            "refine-wide-grid",
            n * 3,
            false,
            |i, ctx| {
                let p0 = &g[(i / 3) as usize];
                let pa = hint_variant(p0, i % 3);
                let da = pa.build();
                let mut bounds: Vec<i128> = vec![0, -1, 1, pa.smin(), pa.smax(), pa.smin() + 1, pa.smax() - 1];
                for base in [pa.start, pa.end, pa.start + pa.stride as i128, pa.end - pa.stride as i128, pa.lo.unwrap_or(0), pa.hi.unwrap_or(0)] {
                    for d in -2..=2 {
                        bounds.push((base + d).clamp(pa.smin(), pa.smax()));
                    }
                }
                bounds.sort();
                bounds.dedup();
                let mut loc = Loc::default();
                let mut res = Ok(());
                let mut evals = 0u64;
                'outer: for b in bounds.iter() {
                    let bbv = bvi(*b, pa.w);
                    let wit = refine_witnesses(&pa, *b, i);
                    for cmp in CMPS {
                        evals += 1;
                        match check_refine(ctx, cmp, &pa, &da, *b, &bbv, &mut wit.iter().copied(), false, &mut loc) {
                            Ok(true) => ctx.nontrivial_by_construction(1),
                            Ok(false) => {}
                            Err(f) => {
                                res = Err(f);
                                break 'outer;
                            }
                        }
                    }
                }
                ctx.extra_evaluations(evals.saturating_sub(1));
                ctx.label(&format!("width:{}", pa.w));
                if i % 5003 == 11 {
                    ctx.sample(|| format!("5 comparisons x {} bounds next to the endpoints/hints of {:?}", bounds.len(), pa));
                }
                loc.flush(ctx);
                res
            },
            |i| format!("all comparisons with bounds next to the endpoints/hints/extremes of {:?}", hint_variant(&g[(i / 3) as usize], i % 3)),
        );

        // pairs per width
        // quick: small grid^2 per width; thorough appends big grid^2 (prefix-compatible indices)
        let mut blocks: Vec<Vec<IParts>> = vec![];
        for w in [2usize, 4, 8] {
            blocks.push(wide_grid(w, true));
        }
        if thorough {
            for w in [2usize, 4, 8] {
                blocks.push(wide_grid(w, false));
            }
        }
        let mut offs = vec![0u64];
        for b in &blocks {
            offs.push(offs.last().unwrap() + (b.len() * b.len()) as u64);
        }
        let total = *offs.last().unwrap();
        let locate = |i: u64| -> (IParts, IParts) {
            let k = match offs.binary_search(&i) {
                Ok(k) => k.min(blocks.len() - 1),
                Err(k) => k - 1,
            };
            let b = &blocks[k];
            let r = i - offs[k];
            let h = crate::tape::mix64(i);
            (hint_variant(&b[(r / b.len() as u64) as usize], h % 3), hint_variant(&b[(r % b.len() as u64) as usize], (h >> 8) % 3))
        };
        eng.enumerate(
            "intersect-wide-grid-pairs",
            total,
            false,
            |i, ctx| {
                let (pa, pb) = locate(i);
                if pa.count() >= 2 || pb.count() >= 2 {
                    ctx.nontrivial_by_construction(1);
                }
                if lcm_class(&pa, &pb) == ":lcm-exceeds-u64" {
                    ctx.label("intersect:lcm-exceeds-u64");
                }
                ctx.label(&format!("width:{}", pa.w));
                if i % 50_021 == 5 {
                    ctx.sample(|| format!("intersect({:?}, {:?})", pa, pb));
                }
                let mut loc = ILoc::default();
                let r = check_intersect(ctx, &pa, &pb, &pa.build(), &pb.build(), false, i, &mut loc);
                loc.flush(ctx);
                r
            },
            |i| {
                let (pa, pb) = locate(i);
                format!("intersect({:?}, {:?})", pa, pb)
            },
        );
        eng.require_fraction("intersect-wide-grid-pairs", "intersection-nonempty", 0.10);
    }

    // 4. random: refinements and intersections at 1/2/4/8 bytes (strides with lcm > u64::MAX on purpose),
    //    DataDomain<IntervalDomain> refinements and intersections
    if wanted(eng, "random-refine-intersect-data") {
        let u1 = universe_1byte(255);
        let cases = eng.tier.pick(3_000_000u64, 40_000_000u64);
        let u1r = &u1;
        eng.random(
            "random-refine-intersect-data",
            RandomSpec { cases, max_tape: 200 },
            |tape, ctx| {
                let c = decode(&mut Tape::new(tape), u1r);
                ctx.sample(|| format!("{:?}", c));
                run_random_case(&c, ctx)
            },
            |tape| format!("{:?}", decode(&mut Tape::new(tape), &u1)),
        );
        eng.require_fraction("random-refine-intersect-data", "kind:data-refine", 0.10);
        eng.require_fraction("random-refine-intersect-data", "kind:data-intersect", 0.05);
        eng.require_fraction("random-refine-intersect-data", "intersection-nonempty", 0.05);
        eng.require_fraction("random-refine-intersect-data", "cuts-interval", 0.05);
        eng.require_fraction("random-refine-intersect-data", "data:has-relative-values", 0.05);
        eng.require_fraction("random-refine-intersect-data", "intersect:lcm-exceeds-u64", 0.002);
    }
}
