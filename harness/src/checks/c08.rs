//! C08 — the interprocedural control flow graph represents exactly the program's control flow.
//!
//! Generated: well-formed multi-function programs (1..5 subs, 0..6 blocks each, every jump form,
//! intraprocedural targets that may name a block of another sub, calls to internal / extern /
//! empty subs with or without return target, recursion). Oracle: node and edge multisets of
//! `get_program_cfg` must EQUAL the declarative specification of `c08_spec` (set comprehensions
//! over the program term, no worklist, no repository logic); `get_entry_nodes_of_subs` must map
//! exactly the non-empty subs to their entry `BlkStart` node.

use super::c08_spec::{check_entry_nodes, compare, observe, specify, stray_reference};
use crate::engine::{CaseResult, Ctx, Engine, RandomSpec};
use crate::irb;
use crate::tape::{fnv, Tape};
use cwe_checker_lib::analysis::graph::{get_entry_nodes_of_subs, get_program_cfg};
use cwe_checker_lib::intermediate_representation::*;

/// Reference to block `blk` of sub `sub` (indices into the case).
#[derive(Clone, Copy, Debug, PartialEq, Eq)]
pub struct BRef {
    pub sub: usize,
    pub blk: usize,
}

#[derive(Clone, Copy, Debug, PartialEq, Eq)]
pub enum Callee {
    Sub(usize),
    Extern(usize),
    /// the artificial sink function that `normalize_basic` adds and retargets calls of non-existing functions to
    Sink,
}

#[derive(Clone, Debug, PartialEq, Eq)]
pub enum JSpec {
    NoJump,
    Return,
    Branch(BRef),
    /// conditional target, fall-through target
    CBranch(BRef, BRef),
    /// BranchInd with target hints (distinct)
    Ind(Vec<BRef>),
    Call { callee: Callee, ret: Option<BRef> },
    CallInd(Option<BRef>),
    CallOther(Option<BRef>),
}

#[derive(Clone, Debug, PartialEq, Eq)]
pub struct BlockSpec {
    pub ndefs: usize,
    pub j: JSpec,
}

#[derive(Clone, Debug, PartialEq, Eq)]
pub struct Case {
    /// probability (of 256) that an intraprocedural target is drawn from the whole program
    pub cross_p: u16,
    pub n_ext: usize,
    pub subs: Vec<Vec<BlockSpec>>,
}

pub fn sub_addr(i: usize) -> u64 {
    0x1000 * (i as u64 + 1)
}
pub fn blk_addr(i: usize, k: usize) -> u64 {
    sub_addr(i) + 0x10 * k as u64
}
pub fn ext_addr(e: usize) -> u64 {
    0xf000 + 0x10 * e as u64
}

fn pick_target(t: &mut Tape, counts: &[usize], cur: usize, cross_p: u16) -> BRef {
    if cross_p > 0 && t.prob(cross_p) {
        let total: usize = counts.iter().sum();
        let mut idx = t.below(total);
        for (s, c) in counts.iter().enumerate() {
            if idx < *c {
                return BRef { sub: s, blk: idx };
            }
            idx -= c;
        }
        unreachable!()
    }
    BRef { sub: cur, blk: t.below(counts[cur]) }
}

pub fn decode(t: &mut Tape) -> Case {
    let cross_p = *t.choose(&[0u16, 40, 110]);
    let n_subs = 1 + t.below(5);
    let n_ext = t.below(3);
    let counts: Vec<usize> = (0..n_subs).map(|_| t.below(7)).collect();
    const KINDS: [u8; 13] = [0, 1, 2, 3, 4, 4, 5, 6, 7, 1, 3, 4, 5];
    let mut subs = vec![];
    for s in 0..n_subs {
        let mut blocks = vec![];
        for _ in 0..counts[s] {
            let ndefs = t.below(3);
            let kind = *t.choose(&KINDS);
            let j = match kind {
                0 => JSpec::NoJump,
                1 => JSpec::Return,
                2 => JSpec::Branch(pick_target(t, &counts, s, cross_p)),
                3 => {
                    let a = pick_target(t, &counts, s, cross_p);
                    let b = pick_target(t, &counts, s, cross_p);
                    JSpec::CBranch(a, b)
                }
                4 => {
                    let c = t.below(n_subs + n_ext);
                    let mut callee = if c < n_subs { Callee::Sub(c) } else { Callee::Extern(c - n_subs) };
                    let mut ret = if t.prob(200) { Some(pick_target(t, &counts, s, cross_p)) } else { None };
                    if t.prob(25) {
                        // what normalization makes of a call to a non-existing function
                        callee = Callee::Sink;
                        ret = None;
                    }
                    JSpec::Call { callee, ret }
                }
                5 => {
                    let n = t.below(4);
                    let mut hints: Vec<BRef> = vec![];
                    for _ in 0..n {
                        let h = pick_target(t, &counts, s, cross_p);
                        if !hints.contains(&h) {
                            hints.push(h);
                        }
                    }
                    JSpec::Ind(hints)
                }
                6 => JSpec::CallInd(if t.prob(200) { Some(pick_target(t, &counts, s, cross_p)) } else { None }),
                _ => JSpec::CallOther(if t.prob(200) { Some(pick_target(t, &counts, s, cross_p)) } else { None }),
            };
            blocks.push(BlockSpec { ndefs, j });
        }
        subs.push(blocks);
    }
    Case { cross_p, n_ext, subs }
}

fn bt(r: BRef) -> Tid {
    irb::blk_tid(blk_addr(r.sub, r.blk))
}

pub fn build(c: &Case) -> Term<Program> {
    let rax = irb::var("RAX", 8);
    let rbx = irb::var("RBX", 8);
    let zf = irb::var("ZF", 1);
    let mut subs = vec![];
    for (si, blocks) in c.subs.iter().enumerate() {
        let mut bl = vec![];
        for (bi, b) in blocks.iter().enumerate() {
            let a = blk_addr(si, bi);
            let defs: Vec<Term<Def>> = (0..b.ndefs).map(|d| irb::assign(irb::instr_tid(a, d), &rbx, irb::ebin(BinOpType::IntAdd, irb::evar(&rbx), irb::econst(d as i128 + 1, 8)))).collect();
            let jt = |n: usize| irb::instr_tid(a, b.ndefs + n);
            let mut hints = vec![];
            let jmps = match &b.j {
                JSpec::NoJump => vec![],
                JSpec::Return => vec![irb::jmp(jt(0), Jmp::Return(irb::evar(&rax)))],
                JSpec::Branch(t) => vec![irb::jmp(jt(0), Jmp::Branch(bt(*t)))],
                JSpec::CBranch(t, f) => vec![irb::jmp(jt(0), Jmp::CBranch { target: bt(*t), condition: irb::evar(&zf) }), irb::jmp(jt(1), Jmp::Branch(bt(*f)))],
                JSpec::Ind(h) => {
                    hints = h.iter().map(|r| bt(*r)).collect();
                    vec![irb::jmp(jt(0), Jmp::BranchInd(irb::evar(&rax)))]
                }
                JSpec::Call { callee, ret } => {
                    let target = match callee {
                        Callee::Sub(i) => irb::sub_tid(sub_addr(*i)),
                        Callee::Extern(e) => irb::sub_tid(ext_addr(*e)),
                        Callee::Sink => Tid::artificial_sink_sub(),
                    };
                    vec![irb::jmp(jt(0), Jmp::Call { target, return_: ret.map(bt) })]
                }
                JSpec::CallInd(ret) => vec![irb::jmp(jt(0), Jmp::CallInd { target: irb::evar(&rax), return_: ret.map(bt) })],
                JSpec::CallOther(ret) => vec![irb::jmp(jt(0), Jmp::CallOther { description: "syscall".into(), return_: ret.map(bt) })],
            };
            let mut blk = irb::blk(irb::blk_tid(a), defs, jmps);
            blk.term.indirect_jmp_targets = hints;
            bl.push(blk);
        }
        subs.push(irb::sub(irb::sub_tid(sub_addr(si)), &format!("f{}", si), bl));
    }
    let externs = (0..c.n_ext).map(|e| irb::extern_symbol(irb::sub_tid(ext_addr(e)), &format!("ext{}", e), &["RDI"], false)).collect();
    if c.subs.iter().flatten().any(|b| matches!(&b.j, JSpec::Call { callee: Callee::Sink, .. })) {
        subs.push(Term::<Sub>::artificial_sink());
    }
    irb::project(subs, externs, vec![]).program
}

fn classify(c: &Case, ctx: &mut Ctx) -> bool {
    let mut conditional = false;
    let mut f = [false; 6];
    for (si, blocks) in c.subs.iter().enumerate() {
        for b in blocks {
            match &b.j {
                JSpec::CBranch(..) => conditional = true,
                JSpec::Ind(h) if h.len() >= 2 => f[0] = true,
                JSpec::Call { callee: Callee::Sub(i), ret } => {
                    if c.subs[*i].is_empty() {
                        f[1] = true;
                    }
                    if *i == si {
                        f[2] = true;
                    }
                    if ret.is_none() {
                        f[3] = true;
                    }
                }
                JSpec::Call { callee: Callee::Extern(_), ret } => {
                    if ret.is_none() {
                        f[4] = true;
                    }
                }
                JSpec::CallOther(Some(_)) => f[5] = true,
                _ => {}
            }
        }
    }
    const L: [&str; 6] = ["indirect-jump-2+hints", "call-to-empty-sub", "recursive-call", "internal-call-without-return-target", "extern-call-without-return-target", "callother-with-return-target"];
    for i in 0..6 {
        if f[i] {
            ctx.label(L[i]);
        }
    }
    conditional
}

fn run_case(c: &Case, ctx: &mut Ctx) -> CaseResult {
    let prog = build(c);
    let (spec, info) = specify(&prog).expect("C08 generator must only produce well-formed programs");
    let conditional = classify(c, ctx);
    if info.shared_pairs > 0 {
        ctx.label("shared-block-pairs");
    }
    if c.cross_p == 0 {
        ctx.label("unique-block-to-sub-mapping");
    }
    if info.call_returns > 0 {
        ctx.label("call-with-return-linkage");
    }
    if info.call_returns >= 2 {
        ctx.label("several-callreturn-nodes");
    }
    if info.extern_stubs > 0 {
        ctx.label("extern-or-indirect-stub");
    }
    if info.untaken_annotations > 0 {
        ctx.label("untaken-annotation");
    }
    if info.call_returns > 0 && conditional {
        ctx.nontrivial(fnv(format!("{:?}", c).as_bytes()));
    }
    ctx.sample(|| format!("{:?}", c));
    let g = match ctx.cut(|| get_program_cfg(&prog))? {
        Some(g) => g,
        None => return Ok(()),
    };
    let obs = observe(&g);
    if let Some((class, detail)) = compare(&spec, &obs) {
        ctx.report(format!("C08:graph:{}", class), detail)?;
    }
    if let Some(d) = stray_reference(&g, &prog) {
        ctx.report("C08:graph:stray-term-reference", d)?;
    }
    if let Some(entries) = ctx.cut(|| get_entry_nodes_of_subs(&g))? {
        if let Some((class, detail)) = check_entry_nodes(&prog, &g, &entries) {
            ctx.report(format!("C08:{}", class), detail)?;
        }
    }
    Ok(())
}

pub fn run(eng: &mut Engine) {
    eng.rule = "cases = well-formed programs (1..5 subs, 0..6 blocks each; block ends in none/Return/Branch/CBranch+Branch/BranchInd with 0..3 distinct hints/Call to sub or extern or empty sub/CallInd/CallOther, return targets optional; intraprocedural targets drawn from the whole program with probability 0, 40/256 or 110/256); node and edge multisets of get_program_cfg compared for equality with a set-comprehension specification, plus get_entry_nodes_of_subs; non-trivial = at least one internal call with CallReturn linkage and at least one conditional block; distinct by hash of the decoded program".into();
    eng.assumptions = vec![
        "blocks end in zero, one or two jumps, two only as [CBranch, Branch] (module documentation of graph.rs)".into(),
        "all term identifiers are unique and every direct target exists (well-formed programs); extern symbol tids are disjoint from sub tids".into(),
        "target hint lists contain no repeated entry".into(),
        "CrCallStub is specified as CallSource -> CallReturn (what both fixpoint modules consume); the module documentation of graph.rs still names the BlkEnd node of the call site".into(),
        "a Call/CallInd return target naming a block of another sub creates the (block, caller sub) pair even when the callee is empty or extern (closure under return-to targets)".into(),
    ];
    let cases = eng.tier.pick(1_500_000u64, 12_000_000u64);
    eng.random(
        "programs",
        RandomSpec { cases, max_tape: 256 },
        |tape: &[u8], ctx: &mut Ctx| -> CaseResult {
            let c = decode(&mut Tape::new(tape));
            run_case(&c, ctx)
        },
        |tape| {
            let c = decode(&mut Tape::new(tape));
            format!("{:?}\n{}", c, build(&c).term)
        },
    );
    eng.require_fraction("programs", "shared-block-pairs", 0.10);
    eng.require_fraction("programs", "unique-block-to-sub-mapping", 0.10);
    eng.require_fraction("programs", "call-with-return-linkage", 0.10);
    eng.require_fraction("programs", "untaken-annotation", 0.20);
    eng.require_fraction("programs", "extern-or-indirect-stub", 0.10);
    eng.require_fraction("programs", "call-to-empty-sub", 0.02);
    eng.require_fraction("programs", "recursive-call", 0.02);
    eng.require_fraction("programs", "indirect-jump-2+hints", 0.02);
}
