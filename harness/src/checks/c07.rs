//! C07 — the worklist fixpoint solver computes the least solution for any node priority order.
//!
//! Code under test: `analysis::fixpoint::Computation` (new / from_node_priority_list / compute /
//! compute_with_max_steps / has_stabilized / get_worklist) and
//! `forward_interprocedural_fixpoint::{create_bottom_up_worklist, create_top_down_worklist}`.
//!
//! Oracle: a naive Kleene iteration over all edges (own code, `Option<u8>` per node) gives the least
//! assignment `L` that contains the start values and is closed under all edge transfers. The solver
//! is driven through an own `fixpoint::Context` (u8 bitset lattice, join = `|`, monotone transfers)
//! that counts every `update_edge` call per edge.

use crate::engine::{cut, CaseResult, Ctx, Engine, Failure, RandomSpec};
use crate::irb;
use crate::tape::{fnv, Sm, Tape};
use cwe_checker_lib::analysis::fixpoint::{Computation, Context};
use cwe_checker_lib::analysis::forward_interprocedural_fixpoint::{create_bottom_up_worklist, create_top_down_worklist};
use cwe_checker_lib::analysis::graph::{get_program_cfg, Edge};
use cwe_checker_lib::intermediate_representation::*;
use petgraph::graph::{DiGraph, EdgeIndex, NodeIndex};
use std::cell::Cell;

// ---------------------------------------------------------------------------------------------
// Lattice and transfers

type Val = Option<u8>;

/// Monotone edge transfer functions over (`None` < every `Some`, `Some(a) <= Some(b)` iff a ⊆ b).
#[derive(Clone, Copy, Debug, PartialEq, Eq)]
pub enum Tf {
    /// `x ↦ (x & keep) | gen`
    GenKill { keep: u8, gen: u8 },
    /// `x ↦ x | (a ⊆ x ? b : 0)` (monotone, not distributive)
    CondGen { a: u8, b: u8 },
    /// `x ↦ None` unless `x & guard != 0`, then `(x & keep) | gen`
    Guarded { guard: u8, keep: u8, gen: u8 },
    /// constant `None`
    Never,
}

impl Tf {
    pub fn apply(&self, x: u8) -> Val {
        match *self {
            Tf::GenKill { keep, gen } => Some((x & keep) | gen),
            Tf::CondGen { a, b } => Some(if x & a == a { x | b } else { x }),
            Tf::Guarded { guard, keep, gen } => {
                if x & guard != 0 {
                    Some((x & keep) | gen)
                } else {
                    None
                }
            }
            Tf::Never => None,
        }
    }
    fn blocking(&self) -> bool {
        matches!(self, Tf::Guarded { .. } | Tf::Never)
    }
}

/// A mask with 0..=2 bits set (0 for a zero tape).
fn sparse(t: &mut Tape) -> u8 {
    match t.below(4) {
        0 => 0,
        1 | 2 => 1u8 << t.below(8),
        _ => (1u8 << t.below(8)) | (1u8 << t.below(8)),
    }
}

fn decode_tf(t: &mut Tape) -> Tf {
    match t.below(8) {
        0 | 1 | 2 => Tf::GenKill { keep: !sparse(t), gen: sparse(t) },
        3 | 4 => {
            let a = sparse(t);
            Tf::CondGen { a, b: sparse(t) | (1u8 << t.below(8)) }
        }
        5 | 6 => Tf::Guarded { guard: sparse(t) | (1u8 << t.below(8)), keep: !sparse(t), gen: sparse(t) },
        _ => Tf::Never,
    }
}

fn le(a: Val, b: Val) -> bool {
    match (a, b) {
        (None, _) => true,
        (Some(_), None) => false,
        (Some(x), Some(y)) => x & !y == 0,
    }
}

/// Naive Kleene iteration: the least assignment above `start` closed under all edges.
fn kleene(edges: &[(usize, usize)], tfs: &[Tf], start: &[Val]) -> Vec<Val> {
    let mut v = start.to_vec();
    loop {
        let mut changed = false;
        for (i, &(s, d)) in edges.iter().enumerate() {
            if let Some(x) = v[s] {
                if let Some(y) = tfs[i].apply(x) {
                    let nv = match v[d] {
                        None => y,
                        Some(o) => o | y,
                    };
                    if v[d] != Some(nv) {
                        v[d] = Some(nv);
                        changed = true;
                    }
                }
            }
        }
        if !changed {
            return v;
        }
    }
}

/// First edge (index) under which the assignment is not closed.
fn first_unclosed(edges: &[(usize, usize)], tfs: &[Tf], v: &[Val]) -> Option<usize> {
    for (i, &(s, d)) in edges.iter().enumerate() {
        if let Some(x) = v[s] {
            if let Some(y) = tfs[i].apply(x) {
                if !le(Some(y), v[d]) {
                    return Some(i);
                }
            }
        }
    }
    None
}

// ---------------------------------------------------------------------------------------------
// Counting context driving the solver under test

/// More `update_edge` calls on one edge than any correct run can need (a node value changes at
/// most 9 times: absent -> present, then 8 bits) => the solver is considered non-terminating.
const EDGE_EVAL_LIMIT: u32 = 64;
const LIMIT_MARK: &str = "C07-EDGE-EVAL-LIMIT";

struct SCtx<'g, N, E> {
    g: &'g DiGraph<N, E>,
    tfs: &'g [Tf],
    counts: Vec<Cell<u32>>,
    first_src: Cell<Option<usize>>,
}

impl<'g, N, E: Clone> Context for SCtx<'g, N, E> {
    type EdgeLabel = E;
    type NodeLabel = N;
    type NodeValue = u8;

    fn get_graph(&self) -> &DiGraph<N, E> {
        self.g
    }
    fn merge(&self, a: &u8, b: &u8) -> u8 {
        *a | *b
    }
    fn update_edge(&self, value: &u8, edge: EdgeIndex) -> Option<u8> {
        let c = &self.counts[edge.index()];
        c.set(c.get() + 1);
        if c.get() > EDGE_EVAL_LIMIT {
            panic!("{}", LIMIT_MARK);
        }
        if self.first_src.get().is_none() {
            self.first_src.set(self.g.edge_endpoints(edge).map(|(s, _)| s.index()));
        }
        self.tfs[edge.index()].apply(*value)
    }
}

#[derive(Clone, Debug)]
struct Obs {
    values: Vec<Val>,
    counts: Vec<u32>,
    stabilized: bool,
    worklist: Vec<usize>,
}

#[derive(Clone, Debug)]
struct RunOut {
    first_src: Option<usize>,
    phase1: Obs,
    /// after a following `compute()` when phase 1 was bounded and did not stabilize
    phase2: Option<Obs>,
    /// after the solver has stabilized: some node values raised through `node_values_mut()` (documented to mark every
    /// node that has a value as dirty), the assignment right after the modification, and the state after `compute()`
    phase3: Option<(Vec<Val>, Obs)>,
}

struct Problem<'g, N, E> {
    g: &'g DiGraph<N, E>,
    tfs: &'g [Tf],
    default: Option<u8>,
    starts: &'g [(usize, u8)],
}

fn observe<N, E: Clone>(c: &Computation<SCtx<N, E>>, n: usize) -> Obs {
    let mut values = vec![None; n];
    let mut extra = false;
    for (k, v) in c.node_values().iter() {
        if k.index() < n {
            values[k.index()] = Some(*v);
        } else {
            extra = true;
        }
    }
    let mut worklist: Vec<usize> = c.get_worklist().iter().map(|x| x.index()).collect();
    if extra {
        worklist.push(usize::MAX); // flagged by the caller as an invalid node
    }
    Obs { values, counts: c.get_context().counts.iter().map(|x| x.get()).collect(), stabilized: c.has_stabilized(), worklist }
}

/// Run the solver under test (everything inside `cut`).
fn run_solver<N, E: Clone>(p: &Problem<N, E>, order: Option<&[usize]>, bound: Option<u64>) -> Result<RunOut, Failure> {
    let n = p.g.node_count();
    cut(|| {
        let sctx = SCtx { g: p.g, tfs: p.tfs, counts: (0..p.g.edge_count()).map(|_| Cell::new(0)).collect(), first_src: Cell::new(None) };
        let mut comp = match order {
            None => Computation::new(sctx, p.default),
            Some(o) => Computation::from_node_priority_list(sctx, p.default, o.iter().map(|i| NodeIndex::new(*i)).collect()),
        };
        for (node, v) in p.starts {
            comp.set_node_value(NodeIndex::new(*node), *v);
        }
        match bound {
            None => comp.compute(),
            Some(k) => comp.compute_with_max_steps(k),
        }
        let phase1 = observe(&comp, n);
        let first_src = comp.get_context().first_src.get();
        let phase2 = if bound.is_some() && !phase1.stabilized {
            comp.compute();
            Some(observe(&comp, n))
        } else {
            None
        };
        // second history step: the caller changes values in place and runs the solver again
        let stabilized_now = phase2.as_ref().map(|o| o.stabilized).unwrap_or(phase1.stabilized);
        let phase3 = if stabilized_now {
            let salt = crate::tape::fnv(format!("{:?}{:?}", p.starts, p.default).as_bytes()) ^ n as u64;
            // the iterator yields values only (in an unspecified order): the change is a function of the value
            for v in comp.node_values_mut() {
                let h = crate::tape::mix64(salt ^ (*v as u64).wrapping_mul(0x9e37_79b9_7f4a_7c15));
                if h % 3 == 0 {
                    *v |= ((h >> 8) as u8) & 0x5b;
                }
            }
            let modified = observe(&comp, n).values;
            comp.compute();
            Some((modified, observe(&comp, n)))
        } else {
            None
        };
        RunOut { first_src, phase1, phase2, phase3 }
    })
}

fn start_assignment(n: usize, default: Option<u8>, starts: &[(usize, u8)]) -> Vec<Val> {
    let mut s = vec![default; n];
    for (i, v) in starts {
        s[*i] = Some(*v);
    }
    s
}

struct Expect {
    edges: Vec<(usize, usize)>,
    start: Vec<Val>,
    least: Vec<Val>,
    outdeg: Vec<usize>,
}

/// Statistics of one (problem, order) evaluation.
#[derive(Default)]
struct RunStats {
    bound_hit: bool,
    unstable_but_least: bool,
}

/// Check one (order, bound) run against the oracle.
fn check_run<N, E: Clone>(
    ctx: &mut Ctx,
    p: &Problem<N, E>,
    ex: &Expect,
    order: Option<&[usize]>,
    order_name: &str,
    bound: Option<u64>,
    st: &mut RunStats,
) -> CaseResult {
    let what = |s: &str| format!("{} [order {} {:?}, bound {:?}]", s, order_name, order, bound);
    let out = match run_solver(p, order, bound) {
        Ok(o) => o,
        Err(f) => {
            if f.detail.contains(LIMIT_MARK) {
                return ctx.report(
                    "C07:nontermination",
                    what(&format!("one edge was evaluated more than {} times; a correct run needs at most 10 visits per node", EDGE_EVAL_LIMIT)),
                );
            }
            return ctx.report(format!("C07:{}", f.signature), what(&f.detail));
        }
    };
    let n = ex.start.len();
    // documented order: "stabilize the nodes with a higher index in priority_sorted_nodes before those with a lower index"
    if let Some(o) = order {
        let in_wl = |i: usize| p.default.is_some() || p.starts.iter().any(|(s, _)| *s == i);
        let expected_first = o.iter().rev().copied().find(|i| in_wl(*i) && ex.outdeg[*i] > 0);
        if expected_first.is_some() && out.first_src != expected_first {
            // Measured only: the property quantifies over "whatever node priority order is used" and
            // does not prescribe the processing order, so this is not a violation.
            ctx.label("measured:first-visit-not-highest-priority");
        }
    }
    let o1 = &out.phase1;
    if o1.worklist.iter().any(|w| *w >= n) {
        ctx.report("C07:invalid-node", what(&format!("node_values/get_worklist name a node outside the graph: {:?}", o1.worklist)))?;
    }
    match bound {
        None => {
            if o1.values != ex.least {
                let below = (0..n).any(|i| !le(ex.least[i], o1.values[i]));
                let above = (0..n).any(|i| !le(o1.values[i], ex.least[i]));
                let kind = if below && above { "incomparable" } else if below { "flow-missing" } else { "excess" };
                ctx.report(
                    format!("C07:compute:differs-from-least-solution:{}", kind),
                    what(&format!("compute() = {:?}\nleast solution = {:?}", o1.values, ex.least)),
                )?;
            }
            if !o1.stabilized || !o1.worklist.is_empty() {
                ctx.report("C07:compute:not-stabilized-after-compute", what(&format!("worklist after compute(): {:?}", o1.worklist)))?;
            }
        }
        Some(k) => {
            if let Some(e) = (0..o1.counts.len()).find(|e| o1.counts[*e] as u64 > k) {
                ctx.report(
                    "C07:bound:node-processed-more-than-bound",
                    what(&format!("edge #{} {:?} was evaluated {} times with max_steps = {} (all counts {:?})", e, ex.edges[e], o1.counts[e], k, o1.counts)),
                )?;
            }
            if (0..n).any(|i| !le(ex.start[i], o1.values[i])) {
                ctx.report("C07:bound:result-below-start", what(&format!("values {:?}\nstart {:?}", o1.values, ex.start)))?;
            }
            if (0..n).any(|i| !le(o1.values[i], ex.least[i])) {
                ctx.report("C07:bound:result-above-least-solution", what(&format!("values {:?}\nleast {:?}", o1.values, ex.least)))?;
            }
            if o1.stabilized {
                if let Some(e) = first_unclosed(&ex.edges, p.tfs, &o1.values) {
                    ctx.report(
                        "C07:bound:stabilized-but-not-closed",
                        what(&format!("has_stabilized() but edge #{} {:?} {:?} is not closed: values {:?}\nleast {:?}", e, ex.edges[e], p.tfs[e], o1.values, ex.least)),
                    )?;
                } else if o1.values != ex.least {
                    ctx.report("C07:bound:stabilized-but-not-least", what(&format!("values {:?}\nleast {:?}", o1.values, ex.least)))?;
                }
                if !o1.worklist.is_empty() {
                    ctx.report("C07:bound:stabilized-with-nonempty-worklist", what(&format!("{:?}", o1.worklist)))?;
                }
            } else {
                st.bound_hit = true;
                if o1.values == ex.least {
                    st.unstable_but_least = true;
                }
                if o1.worklist.is_empty() {
                    ctx.report("C07:bound:unstable-with-empty-worklist", what("has_stabilized() is false but get_worklist() is empty"))?;
                }
                let mut w = o1.worklist.clone();
                w.sort();
                w.dedup();
                if w.len() != o1.worklist.len() {
                    ctx.report("C07:bound:worklist-duplicates", what(&format!("{:?}", o1.worklist)))?;
                }
                match &out.phase2 {
                    None => {
                        ctx.report("C07:bound:no-continuation", what("harness: continuation missing"))?;
                    }
                    Some(o2) => {
                        if o2.values != ex.least {
                            ctx.report(
                                "C07:bound:continue-differs-from-least-solution",
                                what(&format!("after compute_with_max_steps: values {:?} worklist {:?}\nafter following compute(): {:?}\nleast solution: {:?}", o1.values, o1.worklist, o2.values, ex.least)),
                            )?;
                        }
                        if !o2.stabilized {
                            ctx.report("C07:compute:not-stabilized-after-compute", what(&format!("worklist after continuation: {:?}", o2.worklist)))?;
                        }
                    }
                }
            }
        }
    }
    if let Some((modified, o3)) = &out.phase3 {
        let expected = kleene(&ex.edges, p.tfs, modified);
        if modified.iter().zip(ex.least.iter()).any(|(a, b)| a != b) {
            ctx.label("rerun-after-node_values_mut:some-value-raised");
            if modified.iter().any(|v| v.is_none()) {
                ctx.label("rerun-after-node_values_mut:with-value-less-nodes");
            }
        }
        if o3.values != expected {
            ctx.report(
                "C07:rerun-after-node_values_mut:differs-from-least-solution",
                what(&format!("values after the first run were raised through node_values_mut() to {:?}\nafter compute(): {:?}\nleast solution containing the modified values: {:?}", modified, o3.values, expected)),
            )?;
        }
        if !o3.stabilized || !o3.worklist.is_empty() {
            ctx.report("C07:rerun-after-node_values_mut:not-stabilized", what(&format!("worklist after compute(): {:?}", o3.worklist)))?;
        }
    }
    Ok(())
}

const BOUNDS: [u64; 5] = [1, 2, 3, 5, 100];

// ---------------------------------------------------------------------------------------------
// Family 1: random multigraphs

#[derive(Clone, Debug)]
struct GCase {
    n: usize,
    edges: Vec<(usize, usize, Tf)>,
    default: Option<u8>,
    starts: Vec<(usize, u8)>,
    perm_seed: u16,
}

fn decode_graph(t: &mut Tape, nmin: usize, nmax: usize) -> GCase {
    let n = nmin + t.below(nmax - nmin + 1);
    let m = t.below(2 * n + 3);
    let mut edges = Vec::with_capacity(m);
    for _ in 0..m {
        let s = t.below(n);
        // bias: chains/back edges near the source, self loops and parallel edges arise naturally
        let d = match t.below(4) {
            0 => (s + 1) % n,
            _ => t.below(n),
        };
        let tf = decode_tf(t);
        edges.push((s, d, tf));
    }
    let mut default = None;
    let mut starts = vec![];
    match t.below(4) {
        0 => starts.push((0usize, sparse(t))),
        1 | 2 => {
            for i in 0..n {
                if t.prob(90) {
                    starts.push((i, sparse(t)));
                }
            }
            if starts.is_empty() {
                starts.push((t.below(n), sparse(t)));
            }
        }
        _ => {
            default = Some(sparse(t));
            if t.prob(96) {
                for i in 0..n {
                    if t.prob(64) {
                        starts.push((i, sparse(t)));
                    }
                }
            }
        }
    }
    let perm_seed = t.u16();
    GCase { n, edges, default, starts, perm_seed }
}

fn fact(n: usize) -> u64 {
    (1..=n as u64).product()
}

fn unrank_perm(n: usize, mut idx: u64) -> Vec<usize> {
    let mut items: Vec<usize> = (0..n).collect();
    let mut out = Vec::with_capacity(n);
    for i in (1..=n).rev() {
        let f = fact(i - 1);
        let k = (idx / f) as usize;
        idx %= f;
        out.push(items.remove(k));
    }
    out
}

fn random_perm(n: usize, sm: &mut Sm) -> Vec<usize> {
    let mut p: Vec<usize> = (0..n).collect();
    for i in (1..n).rev() {
        let j = sm.below(i as u64 + 1) as usize;
        p.swap(i, j);
    }
    p
}

/// Reflexive-free reachability (paths of length >= 1), Warshall.
fn closure(n: usize, edges: &[(usize, usize)]) -> Vec<Vec<bool>> {
    let mut r = vec![vec![false; n]; n];
    for &(s, d) in edges {
        r[s][d] = true;
    }
    for k in 0..n {
        for i in 0..n {
            if r[i][k] {
                for j in 0..n {
                    if r[k][j] {
                        r[i][j] = true;
                    }
                }
            }
        }
    }
    r
}

fn check_graph_case(c: &GCase, all_perms: bool, ctx: &mut Ctx) -> CaseResult {
    ctx.label("cases");
    let mut g: DiGraph<(), ()> = DiGraph::new();
    for _ in 0..c.n {
        g.add_node(());
    }
    for (s, d, _) in &c.edges {
        g.add_edge(NodeIndex::new(*s), NodeIndex::new(*d), ());
    }
    let tfs: Vec<Tf> = c.edges.iter().map(|e| e.2).collect();
    let edges: Vec<(usize, usize)> = c.edges.iter().map(|e| (e.0, e.1)).collect();
    let start = start_assignment(c.n, c.default, &c.starts);
    let least = kleene(&edges, &tfs, &start);
    let mut outdeg = vec![0; c.n];
    for (s, _) in &edges {
        outdeg[*s] += 1;
    }
    let ex = Expect { edges, start, least, outdeg };
    let p = Problem { g: &g, tfs: &tfs, default: c.default, starts: &c.starts };

    // classification
    let reach = closure(c.n, &ex.edges);
    let cyclic = (0..c.n).any(|i| reach[i][i]);
    let has_blocking = tfs.iter().any(|t| t.blocking());
    let opens = ex.edges.iter().enumerate().any(|(i, (s, _))| match tfs[i] {
        Tf::Guarded { .. } => ex.start[*s].map_or(true, |x| tfs[i].apply(x).is_none()) && ex.least[*s].map_or(false, |x| tfs[i].apply(x).is_some()),
        _ => false,
    });
    let differs = (0..c.n).filter(|i| ex.start[*i] != ex.least[*i]).count();
    if cyclic {
        ctx.label("cyclic");
    }
    if has_blocking {
        ctx.label("has-blocking-edge");
    }
    if opens {
        ctx.label("blocking-edge-opens-during-iteration");
    }
    if ex.least.iter().any(|v| v.is_none()) {
        ctx.label("nodes-without-value-in-solution");
    }
    if c.default.is_some() {
        ctx.label("default-value");
    }
    if ex.edges.iter().any(|(s, d)| s == d) {
        ctx.label("self-loop");
    }
    {
        let mut e2 = ex.edges.clone();
        e2.sort();
        e2.dedup();
        if e2.len() != ex.edges.len() {
            ctx.label("parallel-edges");
        }
    }
    let nontrivial = differs >= 2 && (cyclic || has_blocking);
    if nontrivial {
        ctx.label("nontrivial");
        ctx.nontrivial(fnv(format!("{:?}", (c.n, &c.edges, c.default, &c.starts)).as_bytes()));
    }
    ctx.sample(|| format!("{:?} least={:?}", c, ex.least));

    let mut st = RunStats::default();
    let mut runs = 0u64;
    // default order
    check_run(ctx, &p, &ex, None, "default", None, &mut st)?;
    for k in BOUNDS {
        check_run(ctx, &p, &ex, None, "default", Some(k), &mut st)?;
    }
    runs += 6;
    if all_perms {
        let total = fact(c.n);
        for idx in 0..total {
            let perm = unrank_perm(c.n, idx);
            check_run(ctx, &p, &ex, Some(&perm), "perm", None, &mut st)?;
            for k in BOUNDS {
                check_run(ctx, &p, &ex, Some(&perm), "perm", Some(k), &mut st)?;
            }
            runs += 6;
        }
        ctx.label_n("orders-evaluated", total + 1);
    } else {
        let mut sm = Sm(c.perm_seed as u64);
        let ident: Vec<usize> = (0..c.n).collect();
        let rev: Vec<usize> = (0..c.n).rev().collect();
        let mut perms = vec![ident, rev];
        while perms.len() < 24 {
            perms.push(random_perm(c.n, &mut sm));
        }
        for perm in &perms {
            check_run(ctx, &p, &ex, Some(perm), "perm", None, &mut st)?;
            for k in BOUNDS {
                check_run(ctx, &p, &ex, Some(perm), "perm", Some(k), &mut st)?;
            }
            runs += 6;
        }
        ctx.label_n("orders-evaluated", perms.len() as u64 + 1);
    }
    if st.bound_hit {
        ctx.label("bound-hit");
    }
    if st.unstable_but_least {
        ctx.label("measured:unstable-although-already-least");
    }
    ctx.extra_evaluations(runs - 1);
    Ok(())
}

// ---------------------------------------------------------------------------------------------
// Family 2: interprocedural CFGs of generated programs with the bottom-up / top-down worklists

#[derive(Clone, Debug)]
enum JK {
    Ret,
    Branch(usize),
    CBranch(usize, usize),
    Call { target: usize, ret: Option<usize> },
    CallExtern { ret: Option<usize> },
    CallInd { ret: Option<usize> },
    DeadEnd,
    BranchInd(Vec<usize>),
}

#[derive(Clone, Debug)]
struct PCase {
    /// per sub: per block the terminator
    subs: Vec<Vec<JK>>,
    tfs_tape: Vec<u8>,
    default: Option<u8>,
    start_sel: Vec<(u16, u8)>,
}

fn decode_prog(t: &mut Tape) -> PCase {
    let nsubs = 1 + t.below(4);
    let mut shape: Vec<usize> = vec![];
    for _ in 0..nsubs {
        // a sub without blocks is legal (logged by the CFG builder), rare here
        let nb = if t.prob(10) { 0 } else { 1 + t.below(4) };
        shape.push(nb);
    }
    let mut subs = vec![];
    for s in 0..nsubs {
        let nb = shape[s];
        let mut blocks = vec![];
        for b in 0..nb {
            let ret = |t: &mut Tape| if t.prob(40) { None } else { Some(if t.prob(160) { (b + 1) % nb } else { t.below(nb) }) };
            let jk = match t.below(10) {
                0 => JK::Ret,
                1 => JK::Branch(t.below(nb)),
                2 | 3 => JK::CBranch(t.below(nb), t.below(nb)),
                4 | 5 | 6 => JK::Call { target: t.below(nsubs), ret: ret(t) },
                7 => {
                    if t.flag() {
                        JK::CallExtern { ret: ret(t) }
                    } else {
                        JK::CallInd { ret: ret(t) }
                    }
                }
                8 => JK::DeadEnd,
                _ => {
                    let k = t.below(3);
                    JK::BranchInd((0..k).map(|_| t.below(nb)).collect())
                }
            };
            let _ = s;
            blocks.push(jk);
        }
        subs.push(blocks);
    }
    let default = if t.prob(64) { Some(sparse(t)) } else { None };
    let nstart = if default.is_some() { t.below(3) } else { 1 + t.below(3) };
    let start_sel = (0..nstart).map(|_| (t.u16(), sparse(t))).collect();
    // the rest of the tape decodes the per-edge transfers (exhausted => identity)
    let mut tfs_tape = vec![];
    for _ in 0..320 {
        if t.exhausted() {
            break;
        }
        tfs_tape.push(t.byte());
    }
    PCase { subs, tfs_tape, default, start_sel }
}

fn build_program(c: &PCase) -> Term<Program> {
    let baddr = |s: usize, b: usize| 0x1000 * (s as u64 + 1) + 0x10 * b as u64;
    let ext_tid = irb::tid("extern_fn", "UNKNOWN");
    let mut subs = vec![];
    for (s, blocks) in c.subs.iter().enumerate() {
        let mut bl = vec![];
        for (b, jk) in blocks.iter().enumerate() {
            let a = baddr(s, b);
            let bt = |x: usize| irb::blk_tid(baddr(s, x));
            let jt = |k: usize| irb::instr_tid(a, 10 + k);
            let jmps = match jk {
                JK::Ret => vec![irb::jmp(jt(0), Jmp::Return(irb::evar(&irb::var("RAX", 8))))],
                JK::Branch(x) => vec![irb::jmp(jt(0), Jmp::Branch(bt(*x)))],
                JK::CBranch(x, y) => vec![
                    irb::jmp(jt(0), Jmp::CBranch { target: bt(*x), condition: irb::evar(&irb::var("ZF", 1)) }),
                    irb::jmp(jt(1), Jmp::Branch(bt(*y))),
                ],
                JK::Call { target, ret } => vec![irb::jmp(jt(0), Jmp::Call { target: irb::sub_tid(baddr(*target, 0)), return_: ret.map(bt) })],
                JK::CallExtern { ret } => vec![irb::jmp(jt(0), Jmp::Call { target: ext_tid.clone(), return_: ret.map(bt) })],
                JK::CallInd { ret } => vec![irb::jmp(jt(0), Jmp::CallInd { target: irb::evar(&irb::var("RBX", 8)), return_: ret.map(bt) })],
                JK::DeadEnd => vec![],
                JK::BranchInd(_) => vec![irb::jmp(jt(0), Jmp::BranchInd(irb::evar(&irb::var("RCX", 8))))],
            };
            let mut blk = irb::blk(irb::blk_tid(a), vec![], jmps);
            if let JK::BranchInd(ts) = jk {
                blk.term.indirect_jmp_targets = ts.iter().map(|x| bt(*x)).collect();
            }
            bl.push(blk);
        }
        subs.push(irb::sub(irb::sub_tid(baddr(s, 0)), &format!("f{}", s), bl));
    }
    let ext = irb::extern_symbol(ext_tid, "extern_fn", &["RDI"], false);
    let entry = vec![irb::sub_tid(baddr(0, 0))];
    irb::project(subs, vec![ext], entry).program
}

fn perm_defect(list: &[usize], n: usize) -> Option<String> {
    if list.len() != n {
        return Some(format!("length {} for {} nodes", list.len(), n));
    }
    let mut seen = vec![false; n];
    for i in list {
        if *i >= n {
            return Some(format!("index {} outside the graph", i));
        }
        if seen[*i] {
            return Some(format!("node {} listed twice", i));
        }
        seen[*i] = true;
    }
    None
}

fn check_prog_case(c: &PCase, ctx: &mut Ctx) -> CaseResult {
    ctx.label("cases");
    let program = build_program(c);
    let graph = match ctx.cut(|| get_program_cfg(&program))? {
        Some(g) => g,
        None => return Ok(()),
    };
    let n = graph.node_count();
    let m = graph.edge_count();
    let bu: Vec<usize> = match ctx.cut(|| create_bottom_up_worklist(&graph))? {
        Some(w) => w.iter().map(|x| x.index()).collect(),
        None => return Ok(()),
    };
    let td: Vec<usize> = match ctx.cut(|| create_top_down_worklist(&graph))? {
        Some(w) => w.iter().map(|x| x.index()).collect(),
        None => return Ok(()),
    };
    if n == 0 {
        ctx.label("empty-cfg");
        if !bu.is_empty() || !td.is_empty() {
            ctx.report("C07:worklist:not-a-permutation", "worklist of an empty graph is not empty")?;
        }
        return Ok(());
    }
    let mut ok = true;
    if let Some(d) = perm_defect(&bu, n) {
        ok = false;
        ctx.report("C07:worklist:bottom-up-not-a-permutation", format!("create_bottom_up_worklist: {} ({:?})", d, bu))?;
    }
    if let Some(d) = perm_defect(&td, n) {
        ok = false;
        ctx.report("C07:worklist:top-down-not-a-permutation", format!("create_top_down_worklist: {} ({:?})", d, td))?;
    }
    if !ok {
        return Ok(()); // known finding: a non-permutation violates the precondition of from_node_priority_list
    }
    let has_calls = graph.edge_weights().any(|e| matches!(e, Edge::Call(_)));
    let has_returns = graph.edge_weights().any(|e| matches!(e, Edge::CrReturnStub));
    if has_calls {
        ctx.label("cfg-has-call-edge");
    }
    if has_returns {
        ctx.label("cfg-has-return-stub-edge");
    }
    if bu != td {
        ctx.label("bottom-up-differs-from-top-down");
    }
    // transfers per edge, start values
    let mut tt = Tape::new(&c.tfs_tape);
    let tfs: Vec<Tf> = (0..m).map(|_| decode_tf(&mut tt)).collect();
    let mut starts: Vec<(usize, u8)> = vec![];
    for (sel, v) in &c.start_sel {
        let node = (*sel as usize * n) >> 16;
        if !starts.iter().any(|(x, _)| *x == node) {
            starts.push((node, *v));
        }
    }
    let mut rev = graph.clone();
    rev.reverse();
    let mut runs = 0u64;
    let mut st = RunStats::default();
    let mut any_nontrivial = false;
    for (dir, g) in [("forward", &graph), ("backward", &rev)] {
        let edges: Vec<(usize, usize)> = g.edge_indices().map(|e| g.edge_endpoints(e).map(|(s, d)| (s.index(), d.index())).unwrap()).collect();
        let start = start_assignment(n, c.default, &starts);
        let least = kleene(&edges, &tfs, &start);
        let mut outdeg = vec![0; n];
        for (s, _) in &edges {
            outdeg[*s] += 1;
        }
        let differs = (0..n).filter(|i| start[*i] != least[*i]).count();
        if differs >= 2 {
            any_nontrivial = true;
        }
        let ex = Expect { edges, start, least, outdeg };
        let p = Problem { g, tfs: &tfs, default: c.default, starts: &starts };
        for (name, order) in [("default", None), ("bottom-up", Some(&bu)), ("top-down", Some(&td))] {
            let name = format!("{}/{}", dir, name);
            check_run(ctx, &p, &ex, order.map(|v| v.as_slice()), &name, None, &mut st)?;
            for k in [1u64, 3] {
                check_run(ctx, &p, &ex, order.map(|v| v.as_slice()), &name, Some(k), &mut st)?;
            }
            runs += 3;
        }
    }
    if st.bound_hit {
        ctx.label("bound-hit");
    }
    if any_nontrivial && has_calls {
        ctx.label("nontrivial");
        ctx.nontrivial(fnv(format!("{:?}", c).as_bytes()));
    }
    ctx.label_n("cfg-nodes", n as u64);
    ctx.sample(|| format!("{:?} nodes={} edges={} bu={:?} td={:?}", c.subs, n, m, bu, td));
    ctx.extra_evaluations(runs + 1);
    Ok(())
}

// ---------------------------------------------------------------------------------------------

/// Like `Engine::require_fraction`, but relative to the number of generated cases (label "cases")
/// instead of all evaluations (which include the per-case sub-evaluations).
fn require_case_fraction(eng: &mut Engine, section: &str, label: &str, min_fraction: f64) {
    if matches!(eng.mode, crate::engine::Mode::Replay { .. }) || eng.violations.iter().any(|v| v.section == section) {
        return;
    }
    let n = eng.label_count(section, "cases");
    let c = eng.label_count(section, label);
    if n == 0 || (c as f64) < min_fraction * n as f64 {
        eng.inconclusive.push(format!("generator starvation: section {} label {} = {} of {} cases (< {:.3})", section, label, c, n, min_fraction));
    }
}

pub fn run(eng: &mut Engine) {
    eng.rule = "random directed multigraphs (1..12 nodes, self loops, parallel edges, unreachable nodes) with u8-bitset join lattice and \
                monotone edge transfers (gen/kill, conditional gen, guarded/blocking, constant None), start values on a node subset or a \
                default value; every graph is solved with the default order and with from_node_priority_list for ALL node permutations \
                (<= 6 nodes) resp. 24 permutations (identity, reverse, 22 random; 7..12 nodes), each with compute() and \
                compute_with_max_steps(1,2,3,5,100). Second family: interprocedural CFGs of generated programs (1..4 subs, calls, returns, \
                extern/indirect calls, indirect jumps) solved forward and on the reversed graph with default, bottom-up and top-down \
                worklists. Non-trivial (distinct by hash of graph+transfers+start values): least solution differs from the start \
                assignment on >= 2 nodes and the graph has a cycle or a blocking edge (CFG family: >= 2 nodes differ and the CFG has a \
                call edge)."
        .into();
    eng.assumptions = vec![
        "transfers are monotone and merge is the lattice join (documented requirement of the solver)".into(),
        "priority lists are permutations of all node indices".into(),
        "'processed' = update_node: every outgoing edge of a node evaluated once per visit; counted per edge in Context::update_edge; asserted as 'no edge evaluated more than max_steps times'".into(),
        "non-termination is detected by a per-edge evaluation limit of 64 (a correct run needs <= 10 visits per node on the 8-bit lattice), not by time".into(),
        "first-visited-node clause follows the doc comment of from_node_priority_list (higher index first); it is not part of the property statement and has its own signature".into(),
    ];
    let cases = eng.tier.pick(64_000u64, 1_000_000u64);
    eng.random(
        "graphs-le6-all-permutations",
        RandomSpec { cases, max_tape: 160 },
        |tape, ctx| {
            let c = decode_graph(&mut Tape::new(tape), 1, 6);
            ctx.label(&format!("n={}", c.n));
            check_graph_case(&c, true, ctx)
        },
        |tape| format!("{:?}", decode_graph(&mut Tape::new(tape), 1, 6)),
    );
    require_case_fraction(eng, "graphs-le6-all-permutations", "nontrivial", 0.10);
    require_case_fraction(eng, "graphs-le6-all-permutations", "cyclic", 0.20);
    require_case_fraction(eng, "graphs-le6-all-permutations", "blocking-edge-opens-during-iteration", 0.02);
    require_case_fraction(eng, "graphs-le6-all-permutations", "bound-hit", 0.10);

    let cases = eng.tier.pick(128_000u64, 2_000_000u64);
    eng.random(
        "graphs-7to12-random-permutations",
        RandomSpec { cases, max_tape: 256 },
        |tape, ctx| {
            let c = decode_graph(&mut Tape::new(tape), 7, 12);
            check_graph_case(&c, false, ctx)
        },
        |tape| format!("{:?}", decode_graph(&mut Tape::new(tape), 7, 12)),
    );
    require_case_fraction(eng, "graphs-7to12-random-permutations", "nontrivial", 0.20);
    require_case_fraction(eng, "graphs-7to12-random-permutations", "cyclic", 0.30);
    require_case_fraction(eng, "graphs-7to12-random-permutations", "blocking-edge-opens-during-iteration", 0.05);
    require_case_fraction(eng, "graphs-7to12-random-permutations", "bound-hit", 0.20);

    let cases = eng.tier.pick(256_000u64, 4_000_000u64);
    eng.random(
        "cfg-bottom-up-top-down-worklists",
        RandomSpec { cases, max_tape: 320 },
        |tape, ctx| {
            let c = decode_prog(&mut Tape::new(tape));
            check_prog_case(&c, ctx)
        },
        |tape| format!("{:?}", decode_prog(&mut Tape::new(tape))),
    );
    require_case_fraction(eng, "cfg-bottom-up-top-down-worklists", "cfg-has-call-edge", 0.30);
    require_case_fraction(eng, "cfg-bottom-up-top-down-worklists", "cfg-has-return-stub-edge", 0.10);
    require_case_fraction(eng, "cfg-bottom-up-top-down-worklists", "bottom-up-differs-from-top-down", 0.05);
    require_case_fraction(eng, "cfg-bottom-up-top-down-worklists", "nontrivial", 0.10);
}
