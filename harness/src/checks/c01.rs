//! C01 — constant folding agrees with P-Code semantics.
//! Oracle: `refsem` (independent u128/i128 arithmetic).

use crate::conv::{bs, bv, to_v};
use crate::engine::{cut, CaseResult, Ctx, Engine, RandomSpec};
use crate::refsem::{self as rs, R, V};
use crate::tape::Tape;
use cwe_checker_lib::abstract_domain::{BitvectorDomain, RegisterDomain, SizedDomain};
use cwe_checker_lib::intermediate_representation::{BinOpType, BitvectorExtended, CastOpType, Expression, UnOpType};

fn rwidth(r: &R) -> usize {
    match r {
        R::Val(v) => v.w,
        R::Undef(w) | R::Float(w) => *w,
    }
}

/// Is (op, operand widths) within the "supported" set of the property statement?
/// Unsupported: float ops, mult/div/rem wider than 8 bytes, division by zero.
fn wide_muldiv(op: BinOpType, w: usize) -> bool {
    use BinOpType::*;
    w > 8 && matches!(op, IntMult | IntDiv | IntRem | IntSDiv | IntSRem)
}

pub fn check_bin(op: BinOpType, a: V, b: V, ctx: &mut Ctx) -> CaseResult {
    let ba = bv(a);
    let bb = bv(b);
    let expected = rs::bin(op, a, b);
    let got = cut(|| ba.bin_op(op, &bb));
    let got = match got {
        Ok(g) => g,
        Err(f) => return ctx.report(format!("C01:bin:{:?}:panic", op), format!("{:?}({:?},{:?}): {}", op, a, b, f.detail)),
    };
    let ew = rs::bin_width(op, a.w, b.w);
    let mut conc: Option<V> = None;
    match (&expected, &got) {
        (R::Val(e), Ok(g)) => {
            let gv = to_v(g);
            if wide_muldiv(op, a.w) {
                // a value is allowed only if it is the right one
            }
            if gv.w != e.w {
                ctx.report(format!("C01:bin:{:?}:wrong-width", op), format!("{:?}({:?},{:?}) = {:?}, reference {:?}", op, a, b, gv, e))?;
            } else if gv.v != e.v {
                ctx.report(format!("C01:bin:{:?}:wrong-value", op), format!("{:?}({:?},{:?}) = {:?}, reference {:?}", op, a, b, gv, e))?;
            }
            conc = Some(gv);
        }
        (R::Val(e), Err(err)) => {
            if !wide_muldiv(op, a.w) {
                ctx.report(format!("C01:bin:{:?}:unexpected-error", op), format!("{:?}({:?},{:?}) = Err({}), reference {:?}", op, a, b, err, e))?;
            }
        }
        (R::Undef(_), Ok(g)) | (R::Float(_), Ok(g)) => {
            ctx.report(
                format!("C01:bin:{:?}:value-for-unsupported", op),
                format!("{:?}({:?},{:?}) = {:?} but the operation is unsupported/undefined and must be reported unknown", op, a, b, to_v(g)),
            )?;
        }
        (_, Err(_)) => {}
    }
    // abstract BitvectorDomain must mirror the concrete evaluation
    let da = BitvectorDomain::Value(ba.clone());
    let db = BitvectorDomain::Value(bb.clone());
    let dres = match cut(|| da.bin_op(op, &db)) {
        Ok(d) => d,
        Err(f) => return ctx.report(format!("C01:dom-bin:{:?}:panic", op), format!("{:?}({:?},{:?}): {}", op, a, b, f.detail)),
    };
    let expr = Expression::BinOp { op, lhs: Box::new(Expression::Const(ba.clone())), rhs: Box::new(Expression::Const(bb.clone())) };
    let exw = u64::from(expr.bytesize()) as usize;
    if exw != ew {
        ctx.report(format!("C01:bytesize:{:?}", op), format!("Expression::bytesize of {:?} on widths ({},{}) = {}, P-Code result width {}", op, a.w, b.w, exw, ew))?;
    }
    match (&dres, conc) {
        (BitvectorDomain::Value(d), Some(c)) => {
            let dv = to_v(d);
            if dv != c {
                ctx.report(format!("C01:dom-bin:{:?}:differs-from-concrete", op), format!("{:?}({:?},{:?}): domain {:?} vs bitvector {:?}", op, a, b, dv, c))?;
            }
        }
        (BitvectorDomain::Top(w), None) => {
            if u64::from(*w) as usize != ew {
                ctx.report(format!("C01:dom-bin:{:?}:top-width", op), format!("{:?}({:?},{:?}): Top width {} but result width {}", op, a, b, w, ew))?;
            }
        }
        (BitvectorDomain::Value(d), None) => {
            ctx.report(format!("C01:dom-bin:{:?}:value-for-unsupported", op), format!("{:?}({:?},{:?}): domain value {:?} although evaluation is unknown", op, a, b, to_v(d)))?;
        }
        (BitvectorDomain::Top(_), Some(c)) => {
            ctx.report(format!("C01:dom-bin:{:?}:top-for-known", op), format!("{:?}({:?},{:?}): domain Top although value {:?} is known", op, a, b, c))?;
        }
    }
    let _ = rwidth(&expected);
    Ok(())
}

/// Top operands must give Top of the result width.
fn check_bin_top(op: BinOpType, a: V, b: V, ctx: &mut Ctx) -> CaseResult {
    let ew = rs::bin_width(op, a.w, b.w);
    let da = BitvectorDomain::Value(bv(a));
    let db = BitvectorDomain::Value(bv(b));
    let ta = BitvectorDomain::Top(bs(a.w));
    let tb = BitvectorDomain::Top(bs(b.w));
    for (x, y, n) in [(&ta, &db, "top-lhs"), (&da, &tb, "top-rhs"), (&ta, &tb, "top-both")] {
        let r = match cut(|| x.bin_op(op, y)) {
            Ok(r) => r,
            Err(f) => return ctx.report(format!("C01:dom-bin:{:?}:panic", op), f.detail),
        };
        match r {
            BitvectorDomain::Top(w) if u64::from(w) as usize == ew => {}
            other => ctx.report(format!("C01:dom-bin:{:?}:{}", op, n), format!("{:?} with {}: got {:?}, expected Top({})", op, n, other, ew))?,
        }
    }
    Ok(())
}

pub fn check_un(op: UnOpType, a: V, ctx: &mut Ctx) -> CaseResult {
    let ba = bv(a);
    let expected = rs::un(op, a);
    let got = match cut(|| ba.un_op(op)) {
        Ok(g) => g,
        Err(f) => return ctx.report(format!("C01:un:{:?}:panic", op), format!("{:?}({:?}): {}", op, a, f.detail)),
    };
    let mut conc = None;
    match (&expected, &got) {
        (R::Val(e), Ok(g)) => {
            let gv = to_v(g);
            if gv != *e {
                ctx.report(format!("C01:un:{:?}:wrong-value", op), format!("{:?}({:?}) = {:?}, reference {:?}", op, a, gv, e))?;
            }
            conc = Some(gv);
        }
        (R::Val(e), Err(err)) => ctx.report(format!("C01:un:{:?}:unexpected-error", op), format!("{:?}({:?}) = Err({}), reference {:?}", op, a, err, e))?,
        (_, Ok(g)) => ctx.report(format!("C01:un:{:?}:value-for-unsupported", op), format!("{:?}({:?}) = {:?} for an unsupported operation", op, a, to_v(g)))?,
        (_, Err(_)) => {}
    }
    let ew = rwidth(&expected);
    let expr = Expression::UnOp { op, arg: Box::new(Expression::Const(ba.clone())) };
    if u64::from(expr.bytesize()) as usize != ew {
        ctx.report(format!("C01:bytesize:{:?}", op), format!("Expression::bytesize of {:?} on width {} = {}, expected {}", op, a.w, expr.bytesize(), ew))?;
    }
    for d in [BitvectorDomain::Value(ba.clone()), BitvectorDomain::Top(bs(a.w))] {
        let r = match cut(|| d.un_op(op)) {
            Ok(r) => r,
            Err(f) => return ctx.report(format!("C01:dom-un:{:?}:panic", op), f.detail),
        };
        match (&d, &r, conc) {
            (BitvectorDomain::Value(_), BitvectorDomain::Value(x), Some(c)) if to_v(x) == c => {}
            (BitvectorDomain::Value(_), BitvectorDomain::Top(w), None) if u64::from(*w) as usize == ew => {}
            (BitvectorDomain::Top(_), BitvectorDomain::Top(w), _) if u64::from(*w) as usize == ew => {}
            _ => ctx.report(format!("C01:dom-un:{:?}:mismatch", op), format!("{:?}({:?}) = {:?}, concrete {:?}, expected width {}", op, d, r, conc, ew))?,
        }
    }
    Ok(())
}

pub fn check_cast(op: CastOpType, a: V, w: usize, ctx: &mut Ctx) -> CaseResult {
    let ba = bv(a);
    let expected = rs::cast(op, a, w);
    let got = match cut(|| ba.cast(op, bs(w))) {
        Ok(g) => g,
        Err(f) => return ctx.report(format!("C01:cast:{:?}:panic", op), format!("{:?}({:?})->{}: {}", op, a, w, f.detail)),
    };
    let mut conc = None;
    match (&expected, &got) {
        (R::Val(e), Ok(g)) => {
            let gv = to_v(g);
            if gv != *e {
                ctx.report(format!("C01:cast:{:?}:wrong-value", op), format!("{:?}({:?})->{} = {:?}, reference {:?}", op, a, w, gv, e))?;
            }
            conc = Some(gv);
        }
        (R::Val(e), Err(err)) => ctx.report(format!("C01:cast:{:?}:unexpected-error", op), format!("{:?}({:?})->{} = Err({}), reference {:?}", op, a, w, err, e))?,
        (_, Ok(g)) => ctx.report(format!("C01:cast:{:?}:value-for-unsupported", op), format!("{:?}({:?})->{} = {:?} for an unsupported operation", op, a, w, to_v(g)))?,
        (_, Err(_)) => {}
    }
    let expr = Expression::Cast { op, size: bs(w), arg: Box::new(Expression::Const(ba.clone())) };
    if u64::from(expr.bytesize()) as usize != w {
        ctx.report(format!("C01:bytesize:{:?}", op), format!("Expression::bytesize of cast {:?} to {} = {}", op, w, expr.bytesize()))?;
    }
    for d in [BitvectorDomain::Value(ba.clone()), BitvectorDomain::Top(bs(a.w))] {
        let r = match cut(|| d.cast(op, bs(w))) {
            Ok(r) => r,
            Err(f) => return ctx.report(format!("C01:dom-cast:{:?}:panic", op), f.detail),
        };
        match (&d, &r, conc) {
            (BitvectorDomain::Value(_), BitvectorDomain::Value(x), Some(c)) if to_v(x) == c => {}
            (BitvectorDomain::Value(_), BitvectorDomain::Top(tw), None) if u64::from(*tw) as usize == w => {}
            (BitvectorDomain::Top(_), BitvectorDomain::Top(tw), _) if u64::from(*tw) as usize == w => {}
            _ => ctx.report(format!("C01:dom-cast:{:?}:mismatch", op), format!("{:?}({:?})->{} = {:?}, concrete {:?}", op, d, w, r, conc))?,
        }
    }
    Ok(())
}

pub fn check_subpiece(a: V, low: usize, size: usize, ctx: &mut Ctx) -> CaseResult {
    let ba = bv(a);
    let e = rs::subpiece(a, low, size);
    let got = match cut(|| ba.subpiece(bs(low), bs(size))) {
        Ok(g) => to_v(&g),
        Err(f) => return ctx.report("C01:subpiece:panic", format!("subpiece({:?},{},{}): {}", a, low, size, f.detail)),
    };
    if got != e {
        ctx.report("C01:subpiece:wrong-value", format!("subpiece({:?}, low {}, size {}) = {:?}, reference {:?}", a, low, size, got, e))?;
    }
    let expr = Expression::Subpiece { low_byte: bs(low), size: bs(size), arg: Box::new(Expression::Const(ba.clone())) };
    if u64::from(expr.bytesize()) as usize != size {
        ctx.report("C01:bytesize:Subpiece", format!("bytesize of subpiece size {} = {}", size, expr.bytesize()))?;
    }
    for d in [BitvectorDomain::Value(ba.clone()), BitvectorDomain::Top(bs(a.w))] {
        let r = match cut(|| d.subpiece(bs(low), bs(size))) {
            Ok(r) => r,
            Err(f) => return ctx.report("C01:dom-subpiece:panic", f.detail),
        };
        match (&d, &r) {
            (BitvectorDomain::Value(_), BitvectorDomain::Value(x)) if to_v(x) == got => {}
            (BitvectorDomain::Top(_), BitvectorDomain::Top(tw)) if u64::from(*tw) as usize == size => {}
            _ => ctx.report("C01:dom-subpiece:mismatch", format!("subpiece({:?},{},{}) = {:?}", d, low, size, r))?,
        }
    }
    Ok(())
}

const WIDTHS: [usize; 4] = [1, 2, 4, 8];

/// All integer binary ops that take arbitrary operand values.
fn nonbool_ops() -> Vec<BinOpType> {
    rs::INT_BIN_OPS.iter().copied().filter(|o| !rs::is_bool_bin(*o)).collect()
}

fn grid_values(w: usize) -> Vec<u128> {
    let bits = 8 * w as u32;
    let m = rs::mask(w);
    let min = 1u128 << (bits - 1);
    let mut v = vec![
        0, 1, 2, 3, 7, 8, m, m - 1, m - 2, min, min + 1, min + 2, min - 1, min - 2, min >> 1, (min >> 1) - 1,
        bits as u128, bits as u128 - 1, bits as u128 + 1, w as u128, 0x7f, 0x80, 0xff, 0x100 & m, 0x55555555_55555555_55555555_55555555 & m,
        0xaaaaaaaa_aaaaaaaa_aaaaaaaa_aaaaaaaa & m, 1u128 << (bits / 2), (1u128 << (bits / 2)) - 1, m - 0x7f, m - 0x80,
    ];
    for x in v.iter_mut() {
        *x &= m;
    }
    v.sort();
    v.dedup();
    v
}

#[derive(Debug)]
enum Case {
    Bin(BinOpType, V, V),
    Un(UnOpType, V),
    Cast(CastOpType, V, usize),
    Sub(V, usize, usize),
}

fn decode(t: &mut Tape) -> Case {
    let kind = t.below(10);
    let w = *t.choose(&[8usize, 4, 2, 1, 16]);
    match kind {
        0..=5 => {
            let ops = rs::INT_BIN_OPS;
            let op = *t.choose(&ops);
            if rs::is_bool_bin(op) {
                return Case::Bin(op, rs::val(t.below(2) as u128, 1), rs::val(t.below(2) as u128, 1));
            }
            let w = if op == BinOpType::Piece && w == 16 { 8 } else { w };
            let a = rs::val(t.int(w), w);
            let bw = if rs::is_shift(op) {
                *t.choose(&[w.min(8), 1, 8, 4, 2])
            } else if op == BinOpType::Piece {
                *t.choose(&[w.min(8), 1, 2, 4, 8])
            } else {
                w
            };
            let mut b = rs::val(t.int(bw), bw);
            if rs::is_shift(op) && t.prob(160) {
                b = rs::val(t.below(8 * w + 3) as u128, bw);
            }
            if t.prob(24) {
                b = rs::val(a.v, bw);
            }
            Case::Bin(op, a, b)
        }
        6 => {
            let op = *t.choose(&rs::UN_OPS);
            if op == UnOpType::BoolNegate {
                Case::Un(op, rs::val(t.below(2) as u128, 1))
            } else {
                Case::Un(op, rs::val(t.int(w), w))
            }
        }
        7 | 8 => {
            let op = *t.choose(&rs::CAST_OPS);
            let a = rs::val(t.int(w), w);
            let targets: Vec<usize> = [1usize, 2, 4, 8, 16].iter().copied().filter(|x| match op {
                CastOpType::IntZExt | CastOpType::IntSExt => *x >= w,
                _ => true,
            }).collect();
            Case::Cast(op, a, *t.choose(&targets))
        }
        _ => {
            let a = rs::val(t.int(w), w);
            let size = 1 + t.below(w);
            let low = t.below(w - size + 1);
            Case::Sub(a, low, size)
        }
    }
}

fn run_case(c: &Case, ctx: &mut Ctx) -> CaseResult {
    match c {
        Case::Bin(op, a, b) => {
            check_bin(*op, *a, *b, ctx)?;
            check_bin_top(*op, *a, *b, ctx)
        }
        Case::Un(op, a) => check_un(*op, *a, ctx),
        Case::Cast(op, a, w) => check_cast(*op, *a, *w, ctx),
        Case::Sub(a, l, s) => check_subpiece(*a, *l, *s, ctx),
    }
}

pub fn run(eng: &mut Engine) {
    eng.rule = "cases = (operation, operand widths, operand values) evaluated by Bitvector::bin_op/un_op/cast/subpiece and BitvectorDomain, compared with an independent u128 P-Code semantics; 1-byte operands enumerated completely, wider operands from a boundary grid (all pairs) plus boundary-biased random tapes; non-trivial = not all operands zero; distinct by construction for enumerations, by hash of (op, widths, values) for random cases".into();
    eng.assumptions = vec![
        "refsem (harness/src/refsem.rs) is a faithful transcription of the P-Code reference semantics".into(),
        "preconditions respected: equal widths for non-shift/non-piece ops, Bool ops only on 0/1, shift amount operand <= 8 bytes, extension target >= source".into(),
    ];
    let ops = nonbool_ops();
    // 1. exhaustive 1-byte binary
    {
        let ops = ops.clone();
        let n = ops.len() as u64 * 65536;
        eng.enumerate(
            "bin-1byte-exhaustive",
            n,
            true,
            |i, ctx| {
                let op = ops[(i >> 16) as usize];
                let a = rs::val(((i >> 8) & 0xff) as u128, 1);
                let b = rs::val((i & 0xff) as u128, 1);
                if a.v != 0 || b.v != 0 {
                    ctx.nontrivial_by_construction(1);
                }
                if i % 65536 == 0x80ff {
                    ctx.sample(|| format!("{:?}({:?},{:?}) -> {:?}", op, a, b, rs::bin(op, a, b)));
                }
                check_bin(op, a, b, ctx)?;
                if (i & 0xff) == 0 {
                    check_bin_top(op, a, b, ctx)?;
                }
                Ok(())
            },
            |i| format!("{:?} a={:#x} b={:#x} (1 byte)", ops[(i >> 16) as usize], (i >> 8) & 0xff, i & 0xff),
        );
    }
    // 2. bool ops, unary, casts, subpiece on 1-byte operands: exhaustive
    {
        let mut items: Vec<Case> = vec![];
        for op in [BinOpType::BoolAnd, BinOpType::BoolOr, BinOpType::BoolXOr] {
            for a in 0..2u128 {
                for b in 0..2u128 {
                    items.push(Case::Bin(op, rs::val(a, 1), rs::val(b, 1)));
                }
            }
        }
        for op in rs::UN_OPS {
            for a in 0..256u128 {
                if op == UnOpType::BoolNegate && a > 1 {
                    continue;
                }
                items.push(Case::Un(op, rs::val(a, 1)));
            }
        }
        for op in rs::CAST_OPS {
            for w in [1usize, 2, 4, 8, 16] {
                for a in 0..256u128 {
                    items.push(Case::Cast(op, rs::val(a, 1), w));
                }
            }
        }
        for a in 0..256u128 {
            items.push(Case::Sub(rs::val(a, 1), 0, 1));
        }
        // float binary ops and shifts with wider shift-amount operands on 1-byte values
        for op in rs::FLOAT_BIN_OPS {
            for a in [0u128, 1, 0x7f, 0x80, 0xff] {
                for b in [0u128, 1, 0x80, 0xff] {
                    items.push(Case::Bin(op, rs::val(a, 1), rs::val(b, 1)));
                }
            }
        }
        let n = items.len() as u64;
        eng.enumerate(
            "unary-cast-1byte-exhaustive",
            n,
            true,
            |i, ctx| {
                let c = &items[i as usize];
                ctx.nontrivial_by_construction(1);
                if i % 997 == 5 {
                    ctx.sample(|| format!("{:?}", c));
                }
                run_case(c, ctx)
            },
            |i| format!("{:?}", items[i as usize]),
        );
    }
    // 3. boundary grids at 2/4/8 bytes: all pairs x all ops; shifts also with 1- and 8-byte amounts
    {
        let mut items: Vec<(BinOpType, usize, usize)> = vec![];
        for w in [2usize, 4, 8] {
            for op in ops.iter().copied() {
                items.push((op, w, w));
                if rs::is_shift(op) {
                    items.push((op, w, 1));
                    if w != 8 {
                        items.push((op, w, 8));
                    }
                }
                if op == BinOpType::Piece {
                    for bw in [1usize, 2, 4, 8] {
                        if bw != w {
                            items.push((op, w, bw));
                        }
                    }
                }
            }
        }
        // each item expands to |grid(wa)| * |grid(wb)| pairs; flatten by prefix sums
        let mut offs = vec![0u64];
        for (_, wa, wb) in &items {
            let n = grid_values(*wa).len() as u64 * grid_values(*wb).len() as u64;
            offs.push(offs.last().unwrap() + n);
        }
        let total = *offs.last().unwrap();
        let grids: Vec<Vec<u128>> = (0..=16).map(|w| if w == 0 { vec![] } else if [1, 2, 4, 8, 16].contains(&w) { grid_values(w) } else { vec![] }).collect();
        let locate = |i: u64| {
            let k = match offs.binary_search(&i) {
                Ok(k) => k,
                Err(k) => k - 1,
            };
            let (op, wa, wb) = items[k];
            let r = i - offs[k];
            let gb = &grids[wb];
            let a = grids[wa][(r / gb.len() as u64) as usize];
            let b = gb[(r % gb.len() as u64) as usize];
            (op, rs::val(a, wa), rs::val(b, wb))
        };
        eng.enumerate(
            "bin-wide-boundary-grid",
            total,
            true,
            |i, ctx| {
                let (op, a, b) = locate(i);
                if a.v != 0 || b.v != 0 {
                    ctx.nontrivial_by_construction(1);
                }
                if i % 4099 == 7 {
                    ctx.sample(|| format!("{:?}({:?},{:?}) -> {:?}", op, a, b, rs::bin(op, a, b)));
                }
                check_bin(op, a, b, ctx)
            },
            |i| format!("{:?}", locate(i)),
        );
    }
    // 4. unsupported forms at all widths: floats, /0, wide mult/div; all casts/unary/subpiece on grid values
    {
        let mut items: Vec<Case> = vec![];
        for w in [1usize, 2, 4, 8, 16] {
            let g = grid_values(w);
            for op in rs::FLOAT_BIN_OPS {
                for a in g.iter().take(6) {
                    items.push(Case::Bin(op, rs::val(*a, w), rs::val(g[g.len() - 1], w)));
                }
            }
            for op in [BinOpType::IntDiv, BinOpType::IntRem, BinOpType::IntSDiv, BinOpType::IntSRem, BinOpType::IntMult] {
                for a in g.iter() {
                    items.push(Case::Bin(op, rs::val(*a, w), rs::val(0, w)));
                    if w == 16 {
                        for b in g.iter().take(8) {
                            items.push(Case::Bin(op, rs::val(*a, w), rs::val(*b, w)));
                        }
                    }
                }
            }
            if w == 16 {
                // supported ops must still be exact at 16 bytes (Piece results, extensions)
                for op in [BinOpType::IntAdd, BinOpType::IntSub, BinOpType::IntAnd, BinOpType::IntOr, BinOpType::IntXOr, BinOpType::IntEqual, BinOpType::IntLess, BinOpType::IntSLess, BinOpType::IntCarry, BinOpType::IntSCarry, BinOpType::IntSBorrow, BinOpType::IntLeft, BinOpType::IntRight, BinOpType::IntSRight] {
                    for a in g.iter() {
                        for b in g.iter() {
                            if rs::is_shift(op) {
                                items.push(Case::Bin(op, rs::val(*a, w), rs::val(*b, 8)));
                            } else {
                                items.push(Case::Bin(op, rs::val(*a, w), rs::val(*b, w)));
                            }
                        }
                    }
                }
            }
            for a in g.iter() {
                for op in rs::UN_OPS {
                    if op == UnOpType::BoolNegate {
                        continue;
                    }
                    items.push(Case::Un(op, rs::val(*a, w)));
                }
                for op in rs::CAST_OPS {
                    for tw in [1usize, 2, 4, 8, 16] {
                        if matches!(op, CastOpType::IntZExt | CastOpType::IntSExt) && tw < w {
                            continue;
                        }
                        items.push(Case::Cast(op, rs::val(*a, w), tw));
                    }
                }
                for size in 1..=w {
                    for low in 0..=(w - size) {
                        if w == 16 && size != 1 && size != 2 && size != 4 && size != 8 && size != 16 {
                            continue;
                        }
                        items.push(Case::Sub(rs::val(*a, w), low, size));
                    }
                }
            }
        }
        let n = items.len() as u64;
        eng.enumerate(
            "unsupported-unary-cast-subpiece-grid",
            n,
            true,
            |i, ctx| {
                let c = &items[i as usize];
                ctx.nontrivial_by_construction(1);
                if i % 2503 == 11 {
                    ctx.sample(|| format!("{:?}", c));
                }
                run_case(c, ctx)
            },
            |i| format!("{:?}", items[i as usize]),
        );
    }
    // 5. random, boundary-biased
    let cases = eng.tier.pick(6_000_000u64, 40_000_000u64);
    eng.random(
        "random-wide",
        RandomSpec { cases, max_tape: 48 },
        |tape, ctx| {
            let mut t = Tape::new(tape);
            let c = decode(&mut t);
            let (nz, h) = match &c {
                Case::Bin(op, a, b) => (a.v != 0 || b.v != 0, crate::tape::fnv(format!("{:?}{:?}{:?}", op, a, b).as_bytes())),
                Case::Un(op, a) => (a.v != 0, crate::tape::fnv(format!("{:?}{:?}", op, a).as_bytes())),
                Case::Cast(op, a, w) => (a.v != 0, crate::tape::fnv(format!("{:?}{:?}{}", op, a, w).as_bytes())),
                Case::Sub(a, l, s) => (a.v != 0, crate::tape::fnv(format!("{:?}{}{}", a, l, s).as_bytes())),
            };
            if nz {
                ctx.nontrivial(h);
            }
            match &c {
                Case::Bin(op, a, b) => {
                    ctx.label(&format!("w{}", a.w));
                    if rs::sext(a.v, a.w) < 0 && a.w == b.w && rs::sext(b.v, b.w) >= 0 {
                        ctx.label("sign-boundary-pair");
                    }
                    let _ = op;
                }
                _ => ctx.label("non-binary"),
            }
            ctx.sample(|| format!("{:?}", c));
            run_case(&c, ctx)
        },
        |tape| format!("{:?}", decode(&mut Tape::new(tape))),
    );
    let _ = SizedDomain::bytesize(&BitvectorDomain::Top(bs(1)));
}
