//! C25 — log collection delivers every message sent before collection.
//!
//! Generator: message histories sent from 1..4 real threads (tape-decoded scripts with seeded
//! yields and sleeps <= 2 ms), a subset of the threads is joined before `collect()`, the others keep
//! sending concurrently with it. Collector = `LogThread::spawn(LogThread::collect_and_deduplicate)`.
//!
//! Oracle: a history model written from the property statement and the doc comments of
//! `utils/log.rs`. Verdicts never depend on timing: every clause is conditional on a
//! happens-before fact that the harness observed itself (thread joined / completed-send counter
//! read before `collect()` was called / global order recorded under a mutex).

use crate::engine::{cut, CaseResult, Ctx, Engine, Failure, Mode, RandomSpec};
use crate::irb;
use crate::tape::{fnv, Tape};
use cwe_checker_lib::utils::log::{CweWarning, LogLevel, LogMessage, LogThread, LogThreadMsg};
use std::collections::{BTreeMap, BTreeSet};
use std::sync::atomic::{AtomicUsize, Ordering};
use std::sync::{Arc, Mutex};
use std::time::Duration;

const POOL: [&str; 5] = ["00401000", "00401004", "00401008", "0040100c", "00402000"];

#[derive(Debug, Clone, PartialEq, Eq)]
enum Kind {
    /// Log without location
    Log,
    /// Log with a location whose *address* is POOL[a]; the TID's id is unique per message
    LogAt(usize),
    /// CWE warning whose first address is POOL[a]; optional second address POOL[b]
    Cwe(usize, Option<usize>),
}

#[derive(Debug, Clone, PartialEq, Eq)]
enum Act {
    Send { kind: Kind, level: u8, source: u8 },
    Yield,
    SleepUs(u64),
}

#[derive(Debug, Clone)]
struct Hist {
    /// one global send order enforced (and recorded) by a mutex
    sequential: bool,
    threads: Vec<Vec<Act>>,
    /// joined before collect()
    joined: Vec<bool>,
    /// what the collecting thread does between joining and collect()
    pre_collect: Act,
}

const SLEEPS: [u64; 4] = [50, 200, 1000, 2000];

fn decode(t: &mut Tape) -> Hist {
    let sequential = t.flag();
    let n = 1 + t.below(4);
    let mut threads = vec![];
    let mut joined = vec![];
    for _ in 0..n {
        joined.push(!t.prob(100));
        let nact = t.below(31);
        let mut acts = vec![];
        let mut sleeps = 0;
        for _ in 0..nact {
            let k = t.byte();
            let a = if k < 70 {
                Act::Send { kind: Kind::Log, level: (t.below(3)) as u8, source: t.below(3) as u8 }
            } else if k < 120 {
                Act::Send { kind: Kind::LogAt(t.below(5)), level: t.below(3) as u8, source: t.below(3) as u8 }
            } else if k < 200 {
                let a = t.below(5);
                let second = if t.prob(90) { Some((a + 1 + t.below(4)) % 5) } else { None };
                Act::Send { kind: Kind::Cwe(a, second), level: 0, source: t.below(3) as u8 }
            } else if k < 232 || sleeps >= 3 {
                Act::Yield
            } else {
                sleeps += 1;
                Act::SleepUs(SLEEPS[t.below(4)])
            };
            acts.push(a);
        }
        threads.push(acts);
    }
    let pre_collect = match t.below(4) {
        0 => Act::Yield,
        1 => Act::SleepUs(50),
        2 => Act::SleepUs(300),
        _ => Act::SleepUs(1500),
    };
    Hist { sequential, threads, joined, pre_collect }
}

/// The message a thread sends as its `index`-th message. Payload carries (thread, index).
fn build_msg(thread: usize, index: usize, kind: &Kind, level: u8, source: u8) -> LogThreadMsg {
    let level = match level {
        0 => LogLevel::Info,
        1 => LogLevel::Debug,
        _ => LogLevel::Error,
    };
    let source = match source {
        0 => None,
        1 => Some("Pointer Inference".to_string()),
        _ => Some("CWE476".to_string()),
    };
    match kind {
        Kind::Log => LogThreadMsg::Log(LogMessage { text: format!("t{} m{}", thread, index), level, location: None, source }),
        Kind::LogAt(a) => LogThreadMsg::Log(LogMessage {
            text: format!("t{} m{}", thread, index),
            level,
            location: Some(irb::tid(&format!("instr_{}_{}_{}", POOL[*a], thread, index), POOL[*a])),
            source,
        }),
        Kind::Cwe(a, b) => {
            let mut addresses = vec![POOL[*a].to_string()];
            if let Some(b) = b {
                addresses.push(POOL[*b].to_string());
            }
            LogThreadMsg::Cwe(
                CweWarning::new(source.unwrap_or_else(|| "CWE134".into()), "0.1", format!("t{} m{}", thread, index))
                    .addresses(addresses)
                    .tids(vec![format!("instr_{}_{}_{}", POOL[*a], thread, index)])
                    .symbols(vec![format!("sym{}", index % 3)]),
            )
        }
    }
}

fn scripts(h: &Hist) -> Vec<Vec<(Kind, LogThreadMsg)>> {
    h.threads
        .iter()
        .enumerate()
        .map(|(ti, acts)| {
            let mut v = vec![];
            for a in acts {
                if let Act::Send { kind, level, source } = a {
                    let idx = v.len();
                    v.push((kind.clone(), build_msg(ti, idx, kind, *level, *source)));
                }
            }
            v
        })
        .collect()
}

fn parse_payload(s: &str) -> Option<(usize, usize)> {
    let mut it = s.split(' ');
    let a = it.next()?.strip_prefix('t')?.parse().ok()?;
    let b = it.next()?.strip_prefix('m')?.parse().ok()?;
    if it.next().is_some() {
        return None;
    }
    Some((a, b))
}

struct Outcome {
    logs: Vec<LogMessage>,
    cwes: Vec<CweWarning>,
    /// completed sends per thread, read before collect() was called
    completed: Vec<usize>,
    /// global order (sequential mode): (thread, index), and its length read before collect()
    order: Vec<(usize, usize)>,
    order_len_before_collect: usize,
}

fn execute(h: &Hist, msgs: &[Vec<(Kind, LogThreadMsg)>]) -> Result<Outcome, crate::engine::Failure> {
    let lt = cut(|| LogThread::spawn(LogThread::collect_and_deduplicate))?;
    let n = h.threads.len();
    let completed: Arc<Vec<AtomicUsize>> = Arc::new((0..n).map(|_| AtomicUsize::new(0)).collect());
    let order: Arc<Mutex<Vec<(usize, usize)>>> = Arc::new(Mutex::new(vec![]));
    let mut handles = vec![];
    for ti in 0..n {
        let sender = cut(|| lt.get_msg_sender())?;
        let acts = h.threads[ti].clone();
        let my: Vec<LogThreadMsg> = msgs[ti].iter().map(|(_, m)| m.clone()).collect();
        let completed = completed.clone();
        let order = order.clone();
        let sequential = h.sequential;
        handles.push(Some(std::thread::spawn(move || {
            let mut idx = 0usize;
            for a in acts {
                match a {
                    Act::Send { .. } => {
                        let m = my[idx].clone();
                        if sequential {
                            let mut g = order.lock().unwrap();
                            let ok = sender.send(m).is_ok();
                            if ok {
                                g.push((ti, idx));
                            }
                            drop(g);
                            if ok {
                                completed[ti].store(idx + 1, Ordering::SeqCst);
                            }
                        } else if sender.send(m).is_ok() {
                            completed[ti].store(idx + 1, Ordering::SeqCst);
                        }
                        idx += 1;
                    }
                    Act::Yield => std::thread::yield_now(),
                    Act::SleepUs(us) => std::thread::sleep(Duration::from_micros(us)),
                }
            }
        })));
    }
    for ti in 0..n {
        if h.joined[ti] {
            handles[ti].take().unwrap().join().expect("sender thread of the harness");
        }
    }
    match h.pre_collect {
        Act::SleepUs(us) => std::thread::sleep(Duration::from_micros(us)),
        _ => std::thread::yield_now(),
    }
    // Facts observed before collection is requested.
    let order_len_before_collect = order.lock().unwrap().len();
    let completed_before: Vec<usize> = completed.iter().map(|c| c.load(Ordering::SeqCst)).collect();
    let res = cut(move || lt.collect());
    for hd in handles.iter_mut() {
        if let Some(hd) = hd.take() {
            hd.join().expect("sender thread of the harness");
        }
    }
    let (logs, cwes) = res?;
    let order = order.lock().unwrap().clone();
    Ok(Outcome { logs, cwes, completed: completed_before, order, order_len_before_collect })
}

/// `check` for huge histories: the history itself is not rendered into samples and failure details stay short.
fn check_quiet(h: &Hist, ctx: &mut Ctx) -> CaseResult {
    QUIET.with(|q| q.set(true));
    let r = check(h, ctx);
    QUIET.with(|q| q.set(false));
    r.map_err(|mut f| {
        f.detail = f.detail.chars().take(600).collect();
        f
    })
}
thread_local! {
    static QUIET: std::cell::Cell<bool> = const { std::cell::Cell::new(false) };
}

fn check(h: &Hist, ctx: &mut Ctx) -> CaseResult {
    let msgs = scripts(h);
    let n = h.threads.len();
    // ---- classification
    let total_msgs: usize = msgs.iter().map(|m| m.len()).sum();
    let mut cwe_per_addr = [0usize; 5];
    let mut log_per_addr = [0usize; 5];
    for m in &msgs {
        for (k, _) in m {
            match k {
                Kind::Cwe(a, _) => cwe_per_addr[*a] += 1,
                Kind::LogAt(a) => log_per_addr[*a] += 1,
                Kind::Log => {}
            }
        }
    }
    let dup_cwe = cwe_per_addr.iter().any(|c| *c >= 2);
    let mut pause_before_send = false;
    for acts in &h.threads {
        let mut paused = false;
        for a in acts {
            match a {
                Act::SleepUs(us) if *us >= 200 => paused = true,
                Act::Send { .. } if paused => pause_before_send = true,
                _ => {}
            }
        }
    }
    let all_joined = h.joined.iter().all(|j| *j);
    if n >= 2 {
        ctx.label("threads>=2");
    }
    if dup_cwe {
        ctx.label("address-with>=2-warnings");
    }
    if log_per_addr.iter().any(|c| *c >= 2) {
        ctx.label("address-with>=2-located-logs");
    }
    if pause_before_send {
        ctx.label("pause-before-a-later-send");
    }
    if h.sequential {
        ctx.label("sequential-mode");
    } else {
        ctx.label("free-running-mode");
    }
    if all_joined {
        ctx.label("all-threads-joined-before-collect");
    } else {
        ctx.label("some-thread-still-sending-during-collect");
    }
    if total_msgs == 0 {
        ctx.label("empty-history");
    }
    let nontrivial = n >= 2 && dup_cwe && pause_before_send;
    if nontrivial {
        ctx.label("nontrivial");
        if !QUIET.with(|q| q.get()) {
            ctx.nontrivial(fnv(format!("{:?}", h).as_bytes()));
        }
    }
    if !QUIET.with(|q| q.get()) {
        ctx.sample(|| format!("{:?}", h));
    }

    // ---- run
    let out = match execute(h, &msgs) {
        Ok(o) => o,
        Err(f) => return ctx.report(format!("C25:{}", f.signature), f.detail),
    };

    // ---- oracle
    // (a) nothing fabricated / altered; (b) nothing returned twice
    let mut seen: BTreeSet<(usize, usize)> = BTreeSet::new();
    let mut ret_general: Vec<(usize, usize)> = vec![];
    let mut ret_located: BTreeMap<usize, Vec<(usize, usize)>> = BTreeMap::new(); // addr -> ids
    let mut ret_cwe: BTreeMap<usize, Vec<(usize, usize)>> = BTreeMap::new();
    for l in &out.logs {
        let id = match parse_payload(&l.text) {
            Some(id) if id.0 < n && id.1 < msgs[id.0].len() => id,
            _ => return ctx.report("C25:fabricated-message", format!("returned log {:?} was never sent", l)),
        };
        let (kind, orig) = &msgs[id.0][id.1];
        if *orig != LogThreadMsg::Log(l.clone()) {
            return ctx.report("C25:altered-message", format!("returned log {:?} differs from the sent message {:?}", l, orig));
        }
        if !seen.insert(id) {
            return ctx.report("C25:duplicate-message", format!("log {:?} returned twice", l));
        }
        match kind {
            Kind::Log => ret_general.push(id),
            Kind::LogAt(a) => ret_located.entry(*a).or_default().push(id),
            Kind::Cwe(..) => unreachable!(),
        }
    }
    for w in &out.cwes {
        let id = match parse_payload(&w.description) {
            Some(id) if id.0 < n && id.1 < msgs[id.0].len() => id,
            _ => return ctx.report("C25:fabricated-message", format!("returned warning {:?} was never sent", w)),
        };
        let (kind, orig) = &msgs[id.0][id.1];
        if *orig != LogThreadMsg::Cwe(w.clone()) {
            return ctx.report("C25:altered-message", format!("returned warning {:?} differs from the sent message {:?}", w, orig));
        }
        if !seen.insert(id) {
            return ctx.report("C25:duplicate-message", format!("warning {:?} returned twice", w));
        }
        match kind {
            Kind::Cwe(a, _) => ret_cwe.entry(*a).or_default().push(id),
            _ => unreachable!(),
        }
    }
    // position in the recorded global order (sequential mode)
    let pos: BTreeMap<(usize, usize), usize> = out.order.iter().enumerate().map(|(p, id)| (*id, p)).collect();
    // "surely delivered": send completed before collect() was requested (observed by the harness)
    let sure = |id: (usize, usize)| -> bool { id.1 < out.completed[id.0] };
    // sequential mode: the order vector is pushed under the mutex before the counter is stored, so the
    // recorded prefix is the stronger fact
    let sure = |id: (usize, usize)| -> bool { sure(id) || (h.sequential && pos.get(&id).map(|p| *p < out.order_len_before_collect).unwrap_or(false)) };
    let ctxinfo = |out: &Outcome| format!("completed-before-collect={:?} joined={:?} returned logs={:?} warnings={:?}", out.completed, h.joined, out.logs.iter().map(|l| l.text.clone()).collect::<Vec<_>>(), out.cwes.iter().map(|l| l.description.clone()).collect::<Vec<_>>());

    // (c) address-less logs: all surely delivered ones are present, per-thread order kept,
    //     global order kept in sequential mode
    for ti in 0..n {
        for (k, (kind, _)) in msgs[ti].iter().enumerate() {
            if *kind == Kind::Log && sure((ti, k)) && !seen.contains(&(ti, k)) {
                let which = if h.joined[ti] { "joined-thread" } else { "completed-send" };
                return ctx.report(format!("C25:log-lost:{}", which), format!("address-less log t{} m{} was sent before collect() was requested but is not returned; {}", ti, k, ctxinfo(&out)));
            }
        }
        let mine: Vec<usize> = ret_general.iter().filter(|id| id.0 == ti).map(|id| id.1).collect();
        if mine.windows(2).any(|w| w[0] >= w[1]) {
            return ctx.report("C25:log-order:per-thread", format!("address-less logs of thread {} returned in order {:?}", ti, mine));
        }
    }
    if h.sequential {
        let ps: Vec<usize> = ret_general.iter().filter_map(|id| pos.get(id).copied()).collect();
        if ps.len() != ret_general.len() {
            return ctx.report("C25:fabricated-message", format!("a returned log was never recorded as sent; {}", ctxinfo(&out)));
        }
        if ps.windows(2).any(|w| w[0] >= w[1]) {
            return ctx.report("C25:log-order:global", format!("address-less logs returned in an order different from the global send order: positions {:?}; {}", ps, ctxinfo(&out)));
        }
    }
    // (d),(e) per address: exactly the last warning / located log
    for (what, ret, is_kind) in [
        ("warning", &ret_cwe, (|k: &Kind, a: usize| matches!(k, Kind::Cwe(x, _) if *x == a)) as fn(&Kind, usize) -> bool),
        ("located-log", &ret_located, (|k: &Kind, a: usize| matches!(k, Kind::LogAt(x) if *x == a)) as fn(&Kind, usize) -> bool),
    ] {
        for a in 0..5 {
            let kept: &[(usize, usize)] = ret.get(&a).map(|v| &v[..]).unwrap_or(&[]);
            if kept.len() > 1 {
                return ctx.report(format!("C25:{}:more-than-one-per-address", what), format!("address {} has {} returned {}s: {:?}; {}", POOL[a], kept.len(), what, kept, ctxinfo(&out)));
            }
            // all messages of this kind for this address
            let mut all: Vec<(usize, usize)> = vec![];
            for ti in 0..n {
                for (k, (kind, _)) in msgs[ti].iter().enumerate() {
                    if is_kind(kind, a) {
                        all.push((ti, k));
                    }
                }
            }
            let any_sure = all.iter().any(|id| sure(*id));
            if kept.is_empty() {
                if any_sure {
                    return ctx.report(format!("C25:{}:lost", what), format!("a {} for address {} was sent before collect() was requested but none is returned; {}", what, POOL[a], ctxinfo(&out)));
                }
                continue;
            }
            let k = kept[0];
            // a surely delivered message for the same address that was surely sent after the kept one
            let later = all.iter().find(|o| {
                if !sure(**o) {
                    return false;
                }
                if o.0 == k.0 && o.1 > k.1 {
                    return true;
                }
                if h.sequential {
                    if let (Some(po), Some(pk)) = (pos.get(*o), pos.get(&k)) {
                        return po > pk;
                    }
                }
                false
            });
            if let Some(o) = later {
                return ctx.report(
                    format!("C25:{}:not-the-last-one-kept", what),
                    format!("address {}: returned {} t{} m{}, but t{} m{} for the same address was sent later (and before collect() was requested); {}", POOL[a], what, k.0, k.1, o.0, o.1, ctxinfo(&out)),
                );
            }
        }
    }
    // ---- measured only (stronger than the property): delivered messages of a thread form a prefix
    for ti in 0..n {
        let maxret = seen.iter().filter(|id| id.0 == ti).map(|id| id.1 + 1).max().unwrap_or(0);
        let gap = (0..maxret).any(|k| msgs[ti][k].0 == Kind::Log && !seen.contains(&(ti, k)));
        if gap {
            ctx.label("measured:non-prefix-delivery-of-a-thread");
        }
        if !h.joined[ti] && maxret > out.completed[ti] {
            ctx.label("measured:unjoined-thread-delivered-more-than-known-completed");
        }
        if !h.joined[ti] && out.completed[ti] < msgs[ti].len() {
            ctx.label("measured:unjoined-thread-had-unsent-messages-at-collect");
        }
    }
    Ok(())
}

// ---------------------------------------------------------------------------------------------
// Section "identical-messages": address-less logs drawn from a tiny pool, so that the same
// message (text, level, source) is sent many times, also back-to-back and from several threads.
// Messages cannot be told apart, so the oracle counts: per distinct message,
//   #sent-before-collect (observed)  <=  #returned  <=  #sent in total,
// with equality to #sent when every thread was joined; with one global recorded order and all
// threads joined the returned sequence must equal the sent sequence.

const TEXTS: [&str; 3] = ["Timeout while computing the fixpoint", "Unexpected stack register value", "Call target not found"];

fn decode_identical(t: &mut Tape) -> (Hist, Vec<Vec<(Kind, LogThreadMsg)>>) {
    let sequential = t.flag();
    let n = 1 + t.below(4);
    let mut threads = vec![];
    let mut joined = vec![];
    let mut msgs = vec![];
    for _ in 0..n {
        joined.push(!t.prob(70));
        let nact = t.below(25);
        let mut acts = vec![];
        let mut mine = vec![];
        let mut last: Option<LogMessage> = None;
        for _ in 0..nact {
            let k = t.byte();
            if k < 200 {
                // 0..79: repeat the previous message of this thread; otherwise draw from the pool
                let m = match (&last, k < 80) {
                    (Some(m), true) => m.clone(),
                    _ => LogMessage {
                        text: TEXTS[t.below(3)].to_string(),
                        level: if t.below(2) == 0 { LogLevel::Error } else { LogLevel::Debug },
                        location: None,
                        source: if t.below(2) == 0 { None } else { Some("Pointer Inference".to_string()) },
                    },
                };
                last = Some(m.clone());
                acts.push(Act::Send { kind: Kind::Log, level: 0, source: 0 });
                mine.push((Kind::Log, LogThreadMsg::Log(m)));
            } else if k < 240 {
                acts.push(Act::Yield);
            } else {
                acts.push(Act::SleepUs(SLEEPS[t.below(3)]));
            }
        }
        threads.push(acts);
        msgs.push(mine);
    }
    let pre_collect = if t.flag() { Act::SleepUs(300) } else { Act::Yield };
    (Hist { sequential, threads, joined, pre_collect }, msgs)
}

fn log_of(m: &LogThreadMsg) -> &LogMessage {
    match m {
        LogThreadMsg::Log(l) => l,
        _ => unreachable!(),
    }
}

fn show_identical(h: &Hist, msgs: &[Vec<(Kind, LogThreadMsg)>]) -> String {
    let key = |l: &LogMessage| format!("{}{}{}", TEXTS.iter().position(|t| *t == l.text).unwrap(), if l.level == LogLevel::Error { 'E' } else { 'D' }, if l.source.is_some() { 'p' } else { '-' });
    let mut s = format!("sequential={} joined={:?} pre_collect={:?}\n", h.sequential, h.joined, h.pre_collect);
    for (ti, acts) in h.threads.iter().enumerate() {
        let mut k = 0;
        let mut line = vec![];
        for a in acts {
            match a {
                Act::Send { .. } => {
                    line.push(key(log_of(&msgs[ti][k].1)));
                    k += 1;
                }
                Act::Yield => line.push("y".into()),
                Act::SleepUs(us) => line.push(format!("sleep{}", us)),
            }
        }
        s.push_str(&format!("  thread {}: {}\n", ti, line.join(" ")));
    }
    s
}

fn check_identical(h: &Hist, msgs: &[Vec<(Kind, LogThreadMsg)>], ctx: &mut Ctx) -> CaseResult {
    let n = h.threads.len();
    let all_joined = h.joined.iter().all(|j| *j);
    let back_to_back = msgs.iter().any(|m| m.windows(2).any(|w| w[0].1 == w[1].1));
    let mut across = false;
    for a in 0..n {
        for b in a + 1..n {
            if msgs[a].iter().any(|x| msgs[b].iter().any(|y| x.1 == y.1)) {
                across = true;
            }
        }
    }
    if back_to_back {
        ctx.label("same-message-back-to-back-in-one-thread");
    }
    if across {
        ctx.label("same-message-from-two-threads");
    }
    ctx.label(if all_joined { "all-threads-joined-before-collect" } else { "some-thread-still-sending-during-collect" });
    ctx.label(if h.sequential { "sequential-mode" } else { "free-running-mode" });
    if back_to_back || across {
        ctx.label("nontrivial");
        ctx.nontrivial(fnv(show_identical(h, msgs).as_bytes()));
    }
    ctx.sample(|| show_identical(h, msgs));
    let out = match execute(h, msgs) {
        Ok(o) => o,
        Err(f) => return ctx.report(format!("C25:{}", f.signature), f.detail),
    };
    if !out.cwes.is_empty() {
        return ctx.report("C25:fabricated-message", format!("warnings returned although none was sent: {:?}", out.cwes));
    }
    let info = || format!("history:\n{}completed-before-collect={:?}\nreturned ({}): {:?}", show_identical(h, msgs), out.completed, out.logs.len(), out.logs.iter().map(|l| (l.text.clone(), l.level.clone(), l.source.clone())).collect::<Vec<_>>());
    // counts per distinct message
    let mut sent: Vec<(&LogMessage, usize, usize)> = vec![]; // message, sent in total, surely sent before collect
    for ti in 0..n {
        for (k, (_, m)) in msgs[ti].iter().enumerate() {
            let l = log_of(m);
            let sure = k < out.completed[ti];
            match sent.iter_mut().find(|e| e.0 == l) {
                Some(e) => {
                    e.1 += 1;
                    e.2 += sure as usize;
                }
                None => sent.push((l, 1, sure as usize)),
            }
        }
    }
    for l in &out.logs {
        if !sent.iter().any(|e| e.0 == l) {
            return ctx.report("C25:fabricated-message", format!("returned log {:?} was never sent; {}", l, info()));
        }
    }
    for (l, total, sure) in &sent {
        let got = out.logs.iter().filter(|x| x == l).count();
        if got > *total {
            return ctx.report("C25:duplicate-message", format!("message {:?} sent {} times but returned {} times; {}", l, total, got, info()));
        }
        if got < *sure {
            let which = if all_joined { "joined-thread" } else { "completed-send" };
            return ctx.report(format!("C25:log-lost:identical-messages:{}", which), format!("message {:?}: {} sends had completed before collect() was requested, only {} returned; {}", l, sure, got, info()));
        }
    }
    if all_joined {
        // exact sequence where the harness knows it: one thread, or one recorded global order
        let expected: Option<Vec<&LogMessage>> = if h.sequential {
            Some(out.order.iter().map(|(ti, k)| log_of(&msgs[*ti][*k].1)).collect())
        } else if msgs.iter().filter(|m| !m.is_empty()).count() <= 1 {
            Some(msgs.iter().flatten().map(|(_, m)| log_of(m)).collect())
        } else {
            None
        };
        if let Some(exp) = expected {
            let got: Vec<&LogMessage> = out.logs.iter().collect();
            if exp != got {
                return ctx.report("C25:log-order:identical-messages", format!("returned sequence differs from the sent sequence; {}", info()));
            }
        }
    }
    Ok(())
}

pub fn run(eng: &mut Engine) {
    eng.rule = "histories of 1..4 sender threads x 0..30 actions (Log / Log with location from 5 addresses / Cwe with first address from 5 addresses / yield / sleep <= 2 ms), random subset joined before collect(), sequential (mutex-recorded global order) or free-running. Non-trivial (distinct by history): >= 2 threads, an address hit by >= 2 warnings, and a sleep >= 200 us before a later send (channel runs empty before the last send)".into();
    eng.assumptions = vec![
        "real threads under the OS scheduler: interleavings inside the channel are sampled, not enumerated".into(),
        "every Cwe carries >= 1 address (collect_and_deduplicate documents a panic otherwise)".into(),
        "'sent before collection was requested' = thread joined, or completed-send counter / recorded order read by the collecting thread before it calls collect()".into(),
        "'address' of a log = Tid::address of its location (TID ids are unique per message), of a warning = addresses[0]; logs and warnings are deduplicated separately (two result vectors)".into(),
        "cross-thread 'last' is only asserted where the harness recorded the order (sequential mode) or within one thread".into(),
    ];
    let cases = eng.tier.pick(8_000u64, 150_000u64);
    // Schedule-dependent violations: a violation that was really observed on a tape stays a
    // violation of that tape (memo); once a shard has seen a violation (i.e. while it shrinks) it
    // executes every candidate several times, for a bounded number of candidates; a saved case is
    // replayed many times. None of this is reachable on code that satisfies the property, so
    // verdicts on correct code stay deterministic.
    thread_local! {
        static MEMO: std::cell::RefCell<BTreeMap<u64, Failure>> = const { std::cell::RefCell::new(BTreeMap::new()) };
        static AFTER_FAILURE: std::cell::Cell<Option<u32>> = const { std::cell::Cell::new(None) };
    }
    const SHRINK_CANDIDATES: u32 = 400;
    let replaying = matches!(eng.mode, Mode::Replay { .. });
    eng.random(
        "histories",
        RandomSpec { cases, max_tape: 200 },
        |tape, ctx| {
            let key = fnv(tape);
            if let Some(f) = MEMO.with(|m| m.borrow().get(&key).cloned()) {
                return Err(f);
            }
            let attempts = if replaying {
                50
            } else {
                match AFTER_FAILURE.with(|c| c.get()) {
                    None => 1,
                    Some(n) if n < SHRINK_CANDIDATES => {
                        AFTER_FAILURE.with(|c| c.set(Some(n + 1)));
                        2
                    }
                    // shrinking budget used up: every further candidate counts as "does not fail"
                    Some(_) => return Ok(()),
                }
            };
            let h = decode(&mut Tape::new(tape));
            for _ in 0..attempts {
                if let Err(f) = check(&h, ctx) {
                    AFTER_FAILURE.with(|c| {
                        if c.get().is_none() {
                            c.set(Some(0))
                        }
                    });
                    MEMO.with(|m| m.borrow_mut().insert(key, f.clone()));
                    return Err(f);
                }
            }
            Ok(())
        },
        |tape| format!("{:?}", decode(&mut Tape::new(tape))),
    );
    let cases = eng.tier.pick(4_000u64, 80_000u64);
    eng.random(
        "identical-messages",
        RandomSpec { cases, max_tape: 160 },
        |tape, ctx| {
            let key = fnv(tape) ^ 0x1d;
            if let Some(f) = MEMO.with(|m| m.borrow().get(&key).cloned()) {
                return Err(f);
            }
            let (h, msgs) = decode_identical(&mut Tape::new(tape));
            let r = check_identical(&h, &msgs, ctx);
            if let Err(f) = &r {
                MEMO.with(|m| m.borrow_mut().insert(key, f.clone()));
            }
            r
        },
        |tape| {
            let (h, msgs) = decode_identical(&mut Tape::new(tape));
            show_identical(&h, &msgs)
        },
    );
    // Volume: histories with many more messages than any analysis step emits at once (70 000 .. 140 000 address-less
    // Debug/Info/Error logs from 1..3 joined threads, plus a few located logs and warnings). Same history oracle.
    let volume_cases = eng.tier.pick(6u64, 40u64);
    eng.enumerate(
        "volume",
        volume_cases,
        true,
        |i, ctx| {
            let n = 1 + (i % 3) as usize;
            let total = 70_000 + 10_000 * (i % 8) as usize;
            let level = (i % 3) as u8; // 0 Info, 1 Debug, 2 Error (the build_msg mapping)
            let mut threads = vec![];
            for ti in 0..n {
                let mut acts = vec![];
                for k in 0..total / n {
                    acts.push(Act::Send { kind: Kind::Log, level: if k % 97 == 0 { (level + 1) % 3 } else { level }, source: (k % 3) as u8 });
                    if k % 20_000 == 19_999 {
                        acts.push(Act::Send { kind: Kind::LogAt((ti + k) % 5), level: 0, source: 0 });
                        acts.push(Act::Send { kind: Kind::Cwe(k % 5, None), level: 0, source: 1 });
                    }
                }
                threads.push(acts);
            }
            let h = Hist { sequential: false, joined: vec![true; n], threads, pre_collect: Act::Yield };
            ctx.nontrivial_by_construction(1);
            ctx.label("volume>=70000-messages");
            ctx.sample(|| format!("{} threads, {} address-less logs in total, dominant level {}", n, total, level));
            check_quiet(&h, ctx)
        },
        |i| format!("volume history #{}: {} threads, {} address-less logs", i, 1 + (i % 3), 70_000 + 10_000 * (i % 8)),
    );
    eng.require_fraction("identical-messages", "same-message-back-to-back-in-one-thread", 0.30);
    eng.require_fraction("identical-messages", "same-message-from-two-threads", 0.30);
    eng.require_fraction("identical-messages", "all-threads-joined-before-collect", 0.10);
    eng.require_fraction("histories", "nontrivial", 0.30);
    eng.require_fraction("histories", "sequential-mode", 0.30);
    eng.require_fraction("histories", "free-running-mode", 0.30);
    eng.require_fraction("histories", "some-thread-still-sending-during-collect", 0.20);
    eng.require_fraction("histories", "all-threads-joined-before-collect", 0.10);
}
