//! C14 — function signatures never miss a register parameter.
//! Oracle: own backward "upward-exposed use" dataflow on the normalized IR; every demanded
//! parameter register must be among the reported parameters.

use crate::engine::{cut, CaseResult, Ctx, Engine, RandomSpec};
use crate::irb::*;
use crate::tape::{fnv, Tape};
use cwe_checker_lib::abstract_domain::AbstractLocation;
use cwe_checker_lib::intermediate_representation::*;
use std::collections::{BTreeMap, BTreeSet};

pub struct Case {
    pub project: Project,
}

fn pool() -> Vec<Variable> {
    ["RDI", "RSI", "RDX", "RCX", "R8", "R9", "RAX", "RBX"].iter().map(|r| var(r, 8)).collect()
}

struct G<'a, 'b> {
    t: &'a mut Tape<'b>,
}

impl<'a, 'b> G<'a, 'b> {
    fn reg(&mut self) -> Variable {
        let p = pool();
        p[self.t.below(p.len())].clone()
    }
    fn expr(&mut self, depth: usize) -> Expression {
        use BinOpType::*;
        if depth == 0 || self.t.prob(90) {
            if self.t.prob(70) {
                return econst(*self.t.choose(&[0i128, 1, 8, 16, -1, 0x1000]), 8);
            }
            return evar(&self.reg());
        }
        match self.t.below(6) {
            0 | 1 => ebin(*self.t.choose(&[IntAdd, IntSub, IntAnd, IntXOr, IntMult]), self.expr(depth - 1), self.expr(depth - 1)),
            2 => ecast(CastOpType::IntZExt, 8, esub(self.t.below(5), 4, evar(&self.reg()))),
            3 => ecast(CastOpType::IntSExt, 8, esub(0, *self.t.choose(&[1usize, 2, 4]), evar(&self.reg()))),
            4 => eun(UnOpType::IntNegate, self.expr(depth - 1)),
            _ => ebin(IntAdd, evar(&self.reg()), econst(*self.t.choose(&[8i128, -8, 4, 0x10]), 8)),
        }
    }
    fn cond(&mut self) -> Expression {
        use BinOpType::*;
        match self.t.below(4) {
            0 => evar(&var("ZF", 1)),
            1 => eun(UnOpType::BoolNegate, evar(&var("CF", 1))),
            _ => ebin(*self.t.choose(&[IntEqual, IntNotEqual, IntSLess, IntLess]), evar(&self.reg()), self.expr(0)),
        }
    }
    fn addr(&mut self) -> Expression {
        match self.t.below(4) {
            0 => ebin(BinOpType::IntAdd, evar(&var("RSP", 8)), econst(*self.t.choose(&[-8i128, -16, -24, 8, 16]), 8)),
            1 => econst(0x601000 + 8 * self.t.below(4) as i128, 8),
            _ => {
                let r = self.reg();
                if self.t.flag() {
                    evar(&r)
                } else {
                    ebin(BinOpType::IntAdd, evar(&r), econst(*self.t.choose(&[8i128, 16, -8]), 8))
                }
            }
        }
    }
    fn defs(&mut self, base: u64) -> Vec<Term<Def>> {
        let n = self.t.below(5);
        let mut out = vec![];
        for i in 0..n {
            let tid = instr_tid(base + i as u64, 0);
            match self.t.below(12) {
                0..=3 => {
                    let d = self.reg();
                    let e = self.expr(2);
                    out.push(assign(tid, &d, e));
                }
                4 => {
                    // overwrite with a constant (kills the entry value)
                    let d = self.reg();
                    out.push(assign(tid, &d, econst(self.t.below(16) as i128, 8)));
                }
                5 | 6 => {
                    let d = self.reg();
                    let a = self.addr();
                    out.push(load(tid, &d, a));
                }
                7 | 8 => {
                    let a = self.addr();
                    let v = if self.t.prob(128) { evar(&self.reg()) } else { self.expr(1) };
                    out.push(store(tid, a, v));
                }
                9 => {
                    let f = var(if self.t.flag() { "ZF" } else { "CF" }, 1);
                    let c = self.cond();
                    out.push(assign(tid, &f, c));
                }
                10 => {
                    // spill to the stack and reload (callee-saved style)
                    let r = self.reg();
                    out.push(store(tid, ebin(BinOpType::IntAdd, evar(&var("RSP", 8)), econst(-8, 8)), evar(&r)));
                }
                _ => {
                    let d = self.reg();
                    let s = self.reg();
                    out.push(assign(tid, &d, evar(&s)));
                }
            }
        }
        out
    }
}

/// Standard C / POSIX functions with the number of their (non-variadic) parameters, written down from the
/// prototypes in the C standard and POSIX (not from the analyzer's stub table). All parameters are integers or
/// pointers, i.e. passed in the first integer parameter registers.
pub const LIBC: [(&str, usize); 62] = [
    ("abort", 0), ("atoi", 1), ("bind", 3), ("calloc", 2), ("close", 1), ("connect", 3), ("exit", 1), ("fclose", 1), ("fflush", 1),
    ("fgets", 3), ("fopen", 2), ("fork", 0), ("fputc", 2), ("fputs", 2), ("fread", 4), ("free", 1), ("fwrite", 4), ("getenv", 1),
    ("getpid", 0), ("getppid", 0), ("gettimeofday", 2), ("kill", 2), ("localtime", 1), ("malloc", 1), ("memcmp", 3), ("memcpy", 3),
    ("memmove", 3), ("memset", 3), ("perror", 1), ("putchar", 1), ("puts", 1), ("qsort", 4), ("raise", 1), ("read", 3), ("realloc", 2),
    ("recv", 4), ("recvfrom", 6), ("select", 5), ("sendto", 6), ("setsockopt", 5), ("signal", 2), ("sleep", 1), ("socket", 3),
    ("strcasecmp", 2), ("strcat", 2), ("strchr", 2), ("strcmp", 2), ("strcpy", 2), ("strdup", 1), ("strerror", 1), ("strlen", 1),
    ("strncasecmp", 3), ("strncat", 3), ("strncmp", 3), ("strncpy", 3), ("strrchr", 2), ("strstr", 2), ("strtol", 3), ("strtoul", 3),
    ("system", 1), ("time", 1), ("unlink", 1),
];

pub fn decode(t: &mut Tape) -> Case {
    let mut g = G { t };
    let nsubs = 1 + g.t.below(4);
    let ext_use = tid("ext_use", "UNKNOWN");
    let ext_two = tid("ext_two", "UNKNOWN");
    let ext_exit = tid("ext_exit", "UNKNOWN");
    let ext_printf = tid("ext_printf", "UNKNOWN");
    let ext_sprintf = tid("ext_sprintf", "UNKNOWN");
    let ext_int = tid("ext_int", "UNKNOWN");
    let externs = vec![
        extern_symbol(ext_use.clone(), "ext_use", &["RDI"], false),
        extern_symbol(ext_two.clone(), "ext_two", &["RDI", "RSI", "RDX"], false),
        extern_symbol(ext_exit.clone(), "ext_exit", &["RDI"], true),
        // variadic functions with a format string that is never a known constant here (empty memory image): the
        // signature analysis documents that it then assumes all remaining integer parameter registers to be
        // filled with variadic parameters
        {
            let mut e = extern_symbol(ext_printf.clone(), "printf", &["RDI"], false);
            e.has_var_args = true;
            e
        },
        {
            let mut e = extern_symbol(ext_sprintf.clone(), "sprintf", &["RDI", "RSI"], false);
            e.has_var_args = true;
            e
        },
        // `int`/`char` parameters: the lifter describes them as the low bytes of the parameter register
        {
            let mut e = extern_symbol(ext_int.clone(), "ext_int", &[], false);
            e.parameters = vec![
                Arg::Register { expr: esub(0, 4, evar(&var("RDI", 8))), data_type: None },
                Arg::Register { expr: esub(0, 1, evar(&var("RDX", 8))), data_type: None },
            ];
            e
        },
    ];
    // three library functions per case, declared with the parameters of their prototypes
    let mut externs = externs;
    let mut libc_tids: Vec<Tid> = vec![];
    {
        let first = g.t.below(LIBC.len());
        for k in 0..3 {
            let (name, arity) = LIBC[(first + k * 21) % LIBC.len()];
            let t = tid(&format!("ext_libc_{}", name), "UNKNOWN");
            let no_return = name == "abort" || name == "exit";
            externs.push(extern_symbol(t.clone(), name, &PARAM_REGS[..arity], no_return));
            libc_tids.push(t);
        }
    }
    let mut subs = vec![];
    for si in 0..nsubs {
        let sbase = 0x1000 * (si as u64 + 1);
        let nblocks = 1 + g.t.below(8);
        let mut blocks = vec![];
        for bi in 0..nblocks {
            let bbase = sbase + 0x20 * bi as u64;
            let mut defs = g.defs(bbase);
            let jt = instr_tid(bbase + 0x1f, 0);
            let jt2 = instr_tid(bbase + 0x1f, 1);
            let target = |g: &mut G| blk_tid(sbase + 0x20 * g.t.below(nblocks) as u64);
            let jmps = match g.t.below(14) {
                0..=2 => vec![jmp(jt, Jmp::Branch(target(&mut g)))],
                3..=6 => {
                    let c = g.cond();
                    let t1 = target(&mut g);
                    let t2 = target(&mut g);
                    match g.t.below(12) {
                        // conditional return / conditional indirect jump: the second jump of the block is not a direct branch
                        // (through a link-register-like, non-parameter register)
                        0 => vec![jmp(jt, Jmp::CBranch { target: t1, condition: c }), jmp(jt2, Jmp::Return(evar(&var("RBX", 8))))],
                        1 => vec![jmp(jt, Jmp::CBranch { target: t1, condition: c }), jmp(jt2, Jmp::BranchInd(evar(&g.reg())))],
                        _ => vec![jmp(jt, Jmp::CBranch { target: t1, condition: c }), jmp(jt2, Jmp::Branch(t2))],
                    }
                }
                7 => {
                    // x86-style return
                    let tv = tmp("$Ur", 8);
                    defs.push(load(instr_tid(bbase + 0x1e, 0), &tv, evar(&var("RSP", 8))));
                    defs.push(assign(instr_tid(bbase + 0x1e, 1), &var("RSP", 8), ebin(BinOpType::IntAdd, evar(&var("RSP", 8)), econst(8, 8))));
                    vec![jmp(jt, Jmp::Return(evar(&tv)))]
                }
                8 | 9 => {
                    let tg = match g.t.below(11) {
                        7 => ext_int.clone(),
                        8 => libc_tids[0].clone(),
                        9 => libc_tids[1].clone(),
                        10 => libc_tids[2].clone(),
                        0 => ext_exit.clone(),
                        1 => ext_two.clone(),
                        5 => ext_printf.clone(),
                        6 => ext_sprintf.clone(),
                        2 if nsubs > 1 => sub_tid(0x1000 * (1 + g.t.below(nsubs) as u64)),
                        _ => ext_use.clone(),
                    };
                    let ret = if g.t.prob(230) { Some(target(&mut g)) } else { None };
                    vec![jmp(jt, Jmp::Call { target: tg, return_: ret })]
                }
                10 => {
                    let e = if g.t.flag() { evar(&g.reg()) } else { g.expr(1) };
                    let ret = if g.t.prob(200) { Some(target(&mut g)) } else { None };
                    vec![jmp(jt, Jmp::CallInd { target: e, return_: ret })]
                }
                11 => {
                    let e = if g.t.flag() { evar(&g.reg()) } else { g.expr(1) };
                    vec![jmp(jt, Jmp::BranchInd(e))]
                }
                12 => vec![],
                // return through a link-register-like, non-parameter register
                _ => vec![jmp(jt, Jmp::Return(evar(&var("RBX", 8))))],
            };
            if matches!(jmps.first().map(|j| &j.term), Some(Jmp::Call { .. }) | Some(Jmp::CallInd { .. })) {
                // x86 CALL: push the return address (the analyses model the callee's `ret` popping it)
                defs.push(assign(instr_tid(bbase + 0x1d, 0), &var("RSP", 8), ebin(BinOpType::IntSub, evar(&var("RSP", 8)), econst(8, 8))));
                defs.push(store(instr_tid(bbase + 0x1d, 1), evar(&var("RSP", 8)), econst((bbase + 0x20) as i128, 8)));
            }
            let mut b = blk(blk_tid(bbase), defs, jmps);
            if let Some(Term { term: Jmp::BranchInd(_), .. }) = b.term.jmps.first() {
                let nh = g.t.below(3);
                for _ in 0..nh {
                    let h = target(&mut g);
                    if !b.term.indirect_jmp_targets.contains(&h) {
                        b.term.indirect_jmp_targets.push(h);
                    }
                }
            }
            blocks.push(b);
        }
        subs.push(sub(sub_tid(sbase), &format!("f{}", si), blocks));
    }
    // Spill / reload through the own stack frame with a store in between whose target is the spill slot on one
    // path and another object on the other path (a parameter register that is read nowhere else).
    if g.t.prob(50) {
        use BinOpType::*;
        let sbase = 0x9000u64;
        let p = var(PARAM_REGS[g.t.below(4)], 8);
        let mut q = var(PARAM_REGS[g.t.below(4)], 8);
        if q == p {
            q = var(if p.name == "RDI" { "RSI" } else { "RDI" }, 8);
        }
        let off = *g.t.choose(&[-8i128, -16, -24, 8]);
        let slot = ebin(IntAdd, evar(&var("RSP", 8)), econst(off, 8));
        let b = |i: u64| sbase + 0x20 * i;
        let b0 = blk(
            blk_tid(b(0)),
            vec![store(instr_tid(b(0), 0), slot.clone(), evar(&p))],
            vec![jmp(instr_tid(b(0) + 0x1f, 0), Jmp::CBranch { target: blk_tid(b(1)), condition: evar(&var("ZF", 1)) }), jmp(instr_tid(b(0) + 0x1f, 1), Jmp::Branch(blk_tid(b(2))))],
        );
        let b1 = blk(blk_tid(b(1)), vec![assign(instr_tid(b(1), 0), &var("RAX", 8), slot.clone())], vec![jmp(instr_tid(b(1) + 0x1f, 0), Jmp::Branch(blk_tid(b(3))))]);
        let b2 = blk(blk_tid(b(2)), vec![assign(instr_tid(b(2), 0), &var("RAX", 8), evar(&q))], vec![jmp(instr_tid(b(2) + 0x1f, 0), Jmp::Branch(blk_tid(b(3))))]);
        let d = var(if g.t.flag() { "RCX" } else { "R8" }, 8);
        let b3 = blk(
            blk_tid(b(3)),
            vec![
                store(instr_tid(b(3), 0), evar(&var("RAX", 8)), econst(g.t.below(4) as i128, 8)),
                load(instr_tid(b(3) + 1, 0), &d, slot.clone()),
                assign(instr_tid(b(3) + 2, 0), &d, ebin(IntAdd, evar(&d), econst(1, 8))),
            ],
            vec![jmp(instr_tid(b(3) + 0x1f, 0), Jmp::Return(evar(&var("RBX", 8))))],
        );
        subs.push(sub(sub_tid(sbase), "spill_reload", vec![b0, b1, b2, b3]));
    }
    let project = project(subs, externs, vec![sub_tid(0x1000)]);
    Case { project }
}

type Demand = BTreeMap<String, BTreeSet<&'static str>>;
/// For every function: the parameter registers whose entry value is read on some jump-edge path from
/// the function entry to one of its `Return`s (what a returning call transfers to its caller).
type CalleeDemand = BTreeMap<Tid, BTreeSet<String>>;

fn add_use(d: &mut Demand, killed: &BTreeSet<String>, e: &Expression, kind: &'static str) {
    for v in e.input_vars() {
        if !v.is_temp && !killed.contains(&v.name) {
            d.entry(v.name.clone()).or_default().insert(kind);
        }
    }
}

/// Upward-exposed uses of one block (gen) and the registers it defines (kill).
thread_local! {
    /// When set (demand restricted to paths that reach a return), the target expression of an indirect jump that is the
    /// second jump of its block and has no target hints does not count: it is only evaluated on a path that leaves the
    /// function's known control flow.
    static ONLY_RETURN_PATHS: std::cell::Cell<bool> = const { std::cell::Cell::new(false) };
}
thread_local! {
    /// When set, the condition of a conditional jump that is followed by a `Return` in the same block (conditional
    /// return) does not count as a use (see the open finding about callers of such functions).
    static SKIP_COND_BEFORE_RETURN: std::cell::Cell<bool> = const { std::cell::Cell::new(false) };
}

fn block_gen_kill(project: &Project, b: &Term<Blk>, params: &BTreeSet<String>, callee_demand: &CalleeDemand) -> (Demand, BTreeSet<String>) {
    let mut gen: Demand = BTreeMap::new();
    let mut killed: BTreeSet<String> = BTreeSet::new();
    for d in &b.term.defs {
        match &d.term {
            Def::Assign { var, value } => {
                add_use(&mut gen, &killed, value, "assign-value");
                killed.insert(var.name.clone());
            }
            Def::Load { var, address } => {
                add_use(&mut gen, &killed, address, "load-address");
                killed.insert(var.name.clone());
            }
            Def::Store { address, value } => {
                add_use(&mut gen, &killed, address, "store-address");
                if !matches!(value, Expression::Var(_)) {
                    add_use(&mut gen, &killed, value, "store-value");
                }
            }
        }
    }
    let has_hints = !b.term.indirect_jmp_targets.is_empty();
    for j in &b.term.jmps {
        match &j.term {
            Jmp::CBranch { condition, .. } => {
                let before_return = matches!(b.term.jmps.get(1).map(|j| &j.term), Some(Jmp::Return(_)));
                if !(before_return && SKIP_COND_BEFORE_RETURN.with(|c| c.get())) {
                    add_use(&mut gen, &killed, condition, "cbranch-condition");
                }
            }
            Jmp::BranchInd(e) => {
                let second_without_hints = b.term.jmps.len() == 2 && !has_hints;
                if !(second_without_hints && ONLY_RETURN_PATHS.with(|c| c.get())) {
                    add_use(&mut gen, &killed, e, if has_hints { "branchind-target-with-hints" } else { "branchind-target-without-hints" });
                }
            }
            Jmp::Return(e) => add_use(&mut gen, &killed, e, "return-target"),
            Jmp::CallInd { target, return_ } => {
                add_use(&mut gen, &killed, target, if return_.is_some() { "callind-target-returning" } else { "callind-target-not-returning" });
                // any call clobbers the (caller-saved) parameter registers
                for p in params {
                    killed.insert(p.clone());
                }
            }
            Jmp::Call { target, return_ } => {
                if let Some(sym) = project.program.term.extern_symbols.get(target) {
                    if !sym.no_return && return_.is_some() {
                        for a in &sym.parameters {
                            if let Arg::Register { expr, .. } = a {
                                let kind = if matches!(expr, Expression::Var(_)) { "extern-call-declared-parameter" } else { "extern-call-declared-subregister-parameter" };
                                add_use(&mut gen, &killed, expr, kind);
                            }
                        }
                        if sym.has_var_args {
                            // format string unknown: every remaining integer parameter register may hold a
                            // variadic argument that the callee reads
                            for p in PARAM_REGS.iter().skip(sym.parameters.len()) {
                                add_use(&mut gen, &killed, &evar(&var(p, 8)), "extern-variadic-call-remaining-parameter-register");
                            }
                        }
                    }
                } else if return_.is_some() {
                    // returning call of an internal function that reads the register's value on a path to its return
                    if let Some(regs) = callee_demand.get(target) {
                        for r in regs {
                            if !killed.contains(r) {
                                gen.entry(r.clone()).or_default().insert("read-by-internal-callee");
                            }
                        }
                    }
                }
                for p in params {
                    killed.insert(p.clone());
                }
            }
            Jmp::CallOther { .. } => {
                for p in params {
                    killed.insert(p.clone());
                }
            }
            Jmp::Branch(_) => {}
        }
    }
    (gen, killed)
}

/// Dynamic under-approximation of "the entry value of a parameter register is read": concrete runs of the function in
/// which every parameter register carries a tag. A tag follows unmodified 8-byte copies between registers and
/// through 8-byte spill slots in the function's own stack frame (bare-variable stores, exact reloads); it counts as
/// read when a tagged value is used in a computation, an address, a condition, a jump target or as a declared
/// parameter of a returning extern call. Runs end at calls. Every read observed here happened on a real path.
pub fn dynamic_demand(project: &Project, sub: &Term<Sub>, seeds: &[u64]) -> BTreeSet<String> {
    use crate::irinterp::State;
    let mut demanded: BTreeSet<String> = BTreeSet::new();
    let has_spill = sub.term.blocks.iter().any(|b| b.term.defs.iter().any(|d| matches!(&d.term, Def::Store { value: Expression::Var(v), .. } if PARAM_REGS.contains(&v.name.as_str()))));
    if !has_spill {
        return demanded;
    }
    let blocks: BTreeMap<&Tid, &Term<Blk>> = sub.term.blocks.iter().map(|b| (&b.tid, b)).collect();
    for seed in seeds {
        let mut st = State::new(*seed);
        let rsp0: u64 = 0x7ffe_0000_0000;
        for (i, r) in GPRS.iter().enumerate() {
            let v: u128 = if *r == "RSP" { rsp0 as u128 } else { ((0x10 + i as u128) << 40) + ((crate::tape::mix64(seed ^ i as u64) & 0xffff) << 4) as u128 };
            st.set(r, v, 8);
        }
        for (i, f) in FLAGS.iter().enumerate() {
            st.set(f, ((seed >> i) & 1) as u128, 1);
        }
        let mut vtag: BTreeMap<String, u8> = PARAM_REGS.iter().enumerate().map(|(i, r)| (r.to_string(), 1u8 << i)).collect();
        let mut mtag: BTreeMap<u64, u8> = BTreeMap::new();
        let mut read: u8 = 0;
        let tags_of = |e: &Expression, vtag: &BTreeMap<String, u8>| -> u8 { e.input_vars().iter().map(|v| vtag.get(&v.name).copied().unwrap_or(0)).fold(0, |a, b| a | b) };
        let in_stack = |a: u64| a >= rsp0 - 0x10000 && a < rsp0 + 0x10000;
        let mut cur = match sub.term.blocks.first() {
            Some(b) => b,
            None => continue,
        };
        'run: for _ in 0..60 {
            for d in &cur.term.defs {
                match &d.term {
                    Def::Assign { var, value } => {
                        let v = st.eval(value);
                        let w = u64::from(var.size) as usize;
                        match value {
                            Expression::Var(y) if y.size == var.size && w == 8 => {
                                let t = vtag.get(&y.name).copied().unwrap_or(0);
                                vtag.insert(var.name.clone(), t);
                            }
                            _ => {
                                read |= tags_of(value, &vtag);
                                vtag.insert(var.name.clone(), 0);
                            }
                        }
                        st.set(&var.name, v.v, w);
                    }
                    Def::Load { var, address } => {
                        read |= tags_of(address, &vtag);
                        let a = st.eval(address).v as u64;
                        let w = u64::from(var.size) as usize;
                        let bytes: Vec<u8> = (0..w as u64).map(|i| mtag.get(&a.wrapping_add(i)).copied().unwrap_or(0)).collect();
                        let t = if w == 8 && bytes.iter().all(|x| *x == bytes[0]) { bytes[0] } else { 0 };
                        let v = st.read_mem(a, w);
                        st.set(&var.name, v, w);
                        vtag.insert(var.name.clone(), t);
                    }
                    Def::Store { address, value } => {
                        read |= tags_of(address, &vtag);
                        let a = st.eval(address).v as u64;
                        let v = st.eval(value);
                        let t = match value {
                            Expression::Var(y) if v.w == 8 && in_stack(a) => vtag.get(&y.name).copied().unwrap_or(0),
                            Expression::Var(_) => 0,
                            _ => {
                                read |= tags_of(value, &vtag);
                                0
                            }
                        };
                        for i in 0..v.w as u64 {
                            mtag.insert(a.wrapping_add(i), t);
                        }
                        st.write_mem(a, v.w, v.v);
                    }
                }
            }
            let mut next: Option<&Tid> = None;
            for j in &cur.term.jmps {
                match &j.term {
                    Jmp::Branch(t) => {
                        next = Some(t);
                        break;
                    }
                    Jmp::CBranch { target, condition } => {
                        read |= tags_of(condition, &vtag);
                        if st.eval(condition).v != 0 {
                            next = Some(target);
                            break;
                        }
                    }
                    Jmp::BranchInd(e) | Jmp::Return(e) => {
                        read |= tags_of(e, &vtag);
                        break 'run;
                    }
                    Jmp::CallInd { target, .. } => {
                        read |= tags_of(target, &vtag);
                        break 'run;
                    }
                    Jmp::Call { target, return_ } => {
                        if let Some(sym) = project.program.term.extern_symbols.get(target) {
                            if !sym.no_return && return_.is_some() {
                                for a in &sym.parameters {
                                    if let Arg::Register { expr, .. } = a {
                                        read |= tags_of(expr, &vtag);
                                    }
                                }
                            }
                        }
                        break 'run;
                    }
                    Jmp::CallOther { .. } => break 'run,
                }
            }
            match next.and_then(|t| blocks.get(t)) {
                Some(b) => cur = b,
                None => break,
            }
        }
        for (i, r) in PARAM_REGS.iter().enumerate() {
            if read & (1 << i) != 0 {
                demanded.insert(r.to_string());
            }
        }
    }
    demanded
}

/// Registers demanded at the entry of `sub` with the kinds of their first uses.
pub fn demanded(project: &Project, sub: &Term<Sub>, params: &BTreeSet<String>, callee_demand: &CalleeDemand) -> Demand {
    demand_at_entry(project, sub, params, callee_demand, false)
}

/// Backward upward-exposed-use dataflow. With `only_paths_to_return` the uses are restricted to
/// jump-edge paths that end in a block with a `Return` jump.
fn demand_at_entry(project: &Project, sub: &Term<Sub>, params: &BTreeSet<String>, callee_demand: &CalleeDemand, only_paths_to_return: bool) -> Demand {
    let n = sub.term.blocks.len();
    let idx: BTreeMap<&Tid, usize> = sub.term.blocks.iter().enumerate().map(|(i, b)| (&b.tid, i)).collect();
    ONLY_RETURN_PATHS.with(|c| c.set(only_paths_to_return));
    let gk: Vec<(Demand, BTreeSet<String>)> = sub.term.blocks.iter().map(|b| block_gen_kill(project, b, params, callee_demand)).collect();
    ONLY_RETURN_PATHS.with(|c| c.set(false));
    // successors through jump edges only: calls end the search (all parameter registers are clobbered)
    let mut succ: Vec<Vec<usize>> = vec![vec![]; n];
    for (i, b) in sub.term.blocks.iter().enumerate() {
        for j in &b.term.jmps {
            match &j.term {
                Jmp::Branch(t) | Jmp::CBranch { target: t, .. } => {
                    if let Some(k) = idx.get(t) {
                        succ[i].push(*k);
                    }
                }
                Jmp::BranchInd(_) => {
                    for h in &b.term.indirect_jmp_targets {
                        if let Some(k) = idx.get(h) {
                            succ[i].push(*k);
                        }
                    }
                }
                _ => {}
            }
        }
    }
    // blocks from which a Return is reachable over jump edges
    let mut reaches_return: Vec<bool> = sub.term.blocks.iter().map(|b| b.term.jmps.iter().any(|j| matches!(j.term, Jmp::Return(_)))).collect();
    let mut ch = true;
    while ch {
        ch = false;
        for i in 0..n {
            if !reaches_return[i] && succ[i].iter().any(|s| reaches_return[*s]) {
                reaches_return[i] = true;
                ch = true;
            }
        }
    }
    let mut live_in: Vec<Demand> = vec![BTreeMap::new(); n];
    let mut changed = true;
    while changed {
        changed = false;
        for i in (0..n).rev() {
            if only_paths_to_return && !reaches_return[i] {
                continue;
            }
            let mut new_in = gk[i].0.clone();
            for s in &succ[i] {
                if only_paths_to_return && !reaches_return[*s] {
                    continue;
                }
                for (r, kinds) in &live_in[*s] {
                    if !gk[i].1.contains(r) {
                        let e = new_in.entry(r.clone()).or_default();
                        for k in kinds {
                            e.insert(*k);
                        }
                    }
                }
            }
            if new_in != live_in[i] {
                live_in[i] = new_in;
                changed = true;
            }
        }
    }
    if n == 0 {
        return BTreeMap::new();
    }
    live_in[0].iter().filter(|(r, _)| params.contains(*r)).map(|(r, k)| (r.clone(), k.clone())).collect()
}

pub fn check_case(case: &Case, ctx: &mut Ctx) -> CaseResult {
    let mut project = case.project.clone();
    if let Err(f) = cut(|| {
        let _ = project.normalize_basic();
        let _ = project.normalize_optimize();
    }) {
        return ctx.report(format!("C14:normalize:{}", f.signature), f.detail);
    }
    let sigs = match cut(|| {
        let graph = cwe_checker_lib::analysis::graph::get_program_cfg(&project.program);
        let (sigs, _logs) = cwe_checker_lib::analysis::function_signature::compute_function_signatures(&project, &graph);
        sigs
    }) {
        Ok(s) => s,
        Err(f) => return ctx.report(format!("C14:signature-analysis:{}", f.signature), format!("{}\n{}", f.detail, project.program.term)),
    };
    let params: BTreeSet<String> = PARAM_REGS.iter().map(|s| s.to_string()).collect();
    // least fixpoint of "read on a path to a return", across (possibly recursive) internal calls
    let mut callee_demand: CalleeDemand = BTreeMap::new();
    loop {
        let mut next: CalleeDemand = BTreeMap::new();
        for (tid, s) in project.program.term.subs.iter() {
            let d = demand_at_entry(&project, s, &params, &callee_demand, true);
            next.insert(tid.clone(), d.keys().cloned().collect());
        }
        if next == callee_demand {
            break;
        }
        callee_demand = next;
    }
    // the same fixpoint without the conditions of conditional returns (classification of the open finding)
    let mut callee_demand_alt: CalleeDemand = BTreeMap::new();
    SKIP_COND_BEFORE_RETURN.with(|c| c.set(true));
    loop {
        let mut next: CalleeDemand = BTreeMap::new();
        for (tid, s) in project.program.term.subs.iter() {
            let d = demand_at_entry(&project, s, &params, &callee_demand_alt, true);
            next.insert(tid.clone(), d.keys().cloned().collect());
        }
        if next == callee_demand_alt {
            break;
        }
        callee_demand_alt = next;
    }
    SKIP_COND_BEFORE_RETURN.with(|c| c.set(false));
    let mut any_nontrivial = false;
    for (tid, s) in project.program.term.subs.iter() {
        if tid.is_artificial_sink_sub() {
            continue;
        }
        let dem = demanded(&project, s, &params, &callee_demand);
        // what the function itself reads plus what its callees read apart from conditional-return conditions
        let dem_alt = demanded(&project, s, &params, &callee_demand_alt);
        let sig = match sigs.get(tid) {
            Some(s) => s,
            None => return ctx.report("C14:no-signature-for-function", format!("function {} has no signature", tid)),
        };
        let reported: BTreeSet<String> = sig
            .parameters
            .keys()
            .filter_map(|l| match l {
                AbstractLocation::Register(v) => Some(v.name.clone()),
                _ => None,
            })
            .collect();
        ctx.extra_evaluations(dem.len() as u64);
        for (r, kinds) in &dem {
            for k in kinds {
                ctx.label(&format!("demand-kind:{}", k));
            }
            let gen0 = block_gen_kill(&project, &s.term.blocks[0], &params, &callee_demand).0;
            if !gen0.contains_key(r) {
                any_nontrivial = true;
            }
            if !reported.contains(r) {
                // classify by the (sorted) set of use kinds through which the register is demanded
                let ks: Vec<&str> = kinds.iter().copied().collect();
                let mut sig_kind = if ks.len() == 1 { ks[0].to_string() } else { ks.join("+") };
                if !dem_alt.contains_key(r) {
                    // only demanded because a callee reads it in the condition of a conditional return
                    sig_kind = "read-by-internal-callee:only-in-the-condition-of-a-conditional-return".to_string();
                }
                ctx.report(
                    format!("C14:missed-parameter:{}", sig_kind),
                    format!("function {}: register {} is read before being overwritten (first uses: {:?}) but is not a reported parameter {:?}\n{}", tid, r, kinds, reported, project.program.term),
                )?;
            }
        }
        // memory flows: entry values that travel through a spill slot of the own stack frame (dynamic oracle)
        let dynd = dynamic_demand(&project, s, &[0x5a5a_0001, 0x1234_5676, 0x0f0f_00ff, 0x7777_7770]);
        for r in &dynd {
            if !dem.contains_key(r) {
                ctx.label("demand-kind:dynamic-only(spill-and-reload)");
                any_nontrivial = true;
                if !reported.contains(r) {
                    ctx.report(
                        "C14:missed-parameter:reload-of-spilled-parameter",
                        format!("function {}: a concrete run reads the entry value of {} after it was spilled to the stack frame and reloaded, but it is not a reported parameter {:?}\n{}", tid, r, reported, project.program.term),
                    )?;
                }
            }
        }
        if reported.len() > dem.len() {
            ctx.label("reported-superset-of-demanded");
        }
    }
    if any_nontrivial {
        ctx.label("nontrivial");
        ctx.nontrivial(fnv(format!("{}", project.program.term).as_bytes()));
    }
    Ok(())
}

pub fn run(eng: &mut Engine) {
    eng.rule = "cases = generated projects of 1..4 functions (1..8 blocks) reading and writing calling-convention parameter registers in assignments, load/store addresses, store values, branch conditions, indirect jump/call targets and return targets, with partial overwrites, loops, extern calls (declared parameters, returning and no_return), internal and indirect calls; the program is normalized like the pipeline does, signatures computed by compute_function_signatures; oracle = own backward upward-exposed-use dataflow over intraprocedural jump edges (every call clobbers the parameter registers and ends a path; a returning call of an internal function counts as a read of the registers that function reads on a jump-edge path to one of its returns, computed as least fixpoint over the call graph; bare-variable stores and arguments of non-returning calls are not demanded); demanded parameter registers must be reported; non-trivial = some demanded register is first used outside the entry block; distinct by hash of the normalized program".into();
    eng.assumptions = vec!["the demand computed by the oracle under-approximates 'can be read before being overwritten' (paths are cut at every call), so every demanded register is covered by the property".into()];
    let cases = eng.tier.pick(400_000u64, 3_000_000u64);
    eng.random(
        "signature-demand",
        RandomSpec { cases, max_tape: 900 },
        |tape, ctx| {
            let mut t = Tape::new(tape);
            let case = decode(&mut t);
            if ctx.want_sample() {
                let s = format!("{}", case.project.program.term);
                ctx.sample(|| s.chars().take(1000).collect());
            }
            check_case(&case, ctx)
        },
        |tape| format!("{}", decode(&mut Tape::new(tape)).project.program.term),
    );
    eng.require_fraction("signature-demand", "nontrivial", 0.2);
}
