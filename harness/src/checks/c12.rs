//! C12 — lifted and normalized IR is size-consistent. Own typing walk (sizes recomputed, not
//! read from `Expression::bytesize`) over every Def/Jmp after each stage of
//! normalize() -> into_ir_project -> normalize_basic -> normalize_optimize.

use crate::checks::c11::{gen_jumps, lift, show_block};
use crate::engine::{cut, CaseResult, Ctx, Engine, RandomSpec};
use crate::pcode::*;
use crate::tape::{fnv, Tape};
use cwe_checker_lib::intermediate_representation::*;

pub struct Case {
    pub table: RegTable,
    pub subs: Vec<PSub>,
    pub features: Vec<&'static str>,
}

pub fn decode(t: &mut Tape) -> Case {
    let table = gen_table(t);
    let nsubs = 1 + t.below(3);
    let sub_ids: Vec<String> = (0..nsubs).map(|i| format!("sub_{:08x}", 0x1000 * (i as u64 + 1))).chain(std::iter::once("sub_0000f000".to_string())).collect();
    let mut subs = vec![];
    let mut features: Vec<&'static str> = vec![];
    for si in 0..nsubs {
        let sbase = 0x1000 * (si as u64 + 1);
        let nb = 1 + t.below(5);
        let targets: Vec<String> = (0..nb).map(|i| blk_id(sbase + 0x40 * i as u64)).collect();
        let mut blocks = vec![];
        for bi in 0..nb {
            let mut g = BlockGen::new(&table);
            let n = t.below(7);
            let mut defs = vec![];
            for _ in 0..n {
                g.def(t, &mut defs);
            }
            let jmps = gen_jumps(&mut g, t, &targets, &sub_ids, true);
            for f in g.features {
                if !features.contains(&f) {
                    features.push(f);
                }
            }
            blocks.push(PBlk { addr: sbase + 0x40 * bi as u64, defs, jmps });
        }
        subs.push(PSub { addr: sbase, name: format!("f{}", si), blocks });
    }
    Case { table, subs, features }
}

/// Size of an expression by the harness' own typing rules; Err describes the first ill-sized node.
pub fn type_of(e: &Expression) -> Result<u64, String> {
    use BinOpType::*;
    match e {
        Expression::Var(v) => Ok(u64::from(v.size)),
        Expression::Const(c) => {
            let v = crate::conv::to_v(c);
            Ok(v.w as u64)
        }
        Expression::Unknown { size, .. } => Ok(u64::from(*size)),
        Expression::BinOp { op, lhs, rhs } => {
            let l = type_of(lhs)?;
            let r = type_of(rhs)?;
            match op {
                Piece => Ok(l + r),
                IntEqual | IntNotEqual | IntLess | IntSLess | IntLessEqual | IntSLessEqual | IntCarry | IntSCarry | IntSBorrow | FloatEqual | FloatNotEqual | FloatLess | FloatLessEqual => {
                    if l != r {
                        return Err(format!("comparison {:?} with operand sizes {} and {} in {}", op, l, r, e));
                    }
                    Ok(1)
                }
                BoolAnd | BoolOr | BoolXOr => {
                    if l != 1 || r != 1 {
                        return Err(format!("boolean {:?} with operand sizes {} and {} in {}", op, l, r, e));
                    }
                    Ok(1)
                }
                IntLeft | IntRight | IntSRight => Ok(l),
                IntAdd | IntSub | IntXOr | IntAnd | IntOr | IntMult | IntDiv | IntRem | IntSDiv | IntSRem | FloatAdd | FloatSub | FloatMult | FloatDiv => {
                    if l != r {
                        return Err(format!("{:?} with operand sizes {} and {} in {}", op, l, r, e));
                    }
                    Ok(l)
                }
            }
        }
        Expression::UnOp { op, arg } => {
            let a = type_of(arg)?;
            match op {
                UnOpType::BoolNegate => {
                    if a != 1 {
                        return Err(format!("BoolNegate of a {}-byte value in {}", a, e));
                    }
                    Ok(1)
                }
                UnOpType::FloatNaN => Ok(1),
                _ => Ok(a),
            }
        }
        Expression::Cast { op, size, arg } => {
            let a = type_of(arg)?;
            let s = u64::from(*size);
            if matches!(op, CastOpType::IntZExt | CastOpType::IntSExt) && s < a {
                return Err(format!("extension {:?} from {} to {} bytes shrinks in {}", op, a, s, e));
            }
            if s == 0 {
                return Err(format!("cast to size 0 in {}", e));
            }
            Ok(s)
        }
        Expression::Subpiece { low_byte, size, arg } => {
            let a = type_of(arg)?;
            let l = u64::from(*low_byte);
            let s = u64::from(*size);
            if s == 0 || l + s > a {
                return Err(format!("subpiece [{}..{}) of a {}-byte value in {}", l, l + s, a, e));
            }
            Ok(s)
        }
    }
}

/// Typing walk over a project. Returns the first violation as (signature suffix, detail).
pub fn typecheck(p: &Project) -> Result<(), (String, String)> {
    let ptr = u64::from(p.stack_pointer_register.size);
    for s in p.program.term.subs.values() {
        for b in &s.term.blocks {
            for d in &b.term.defs {
                match &d.term {
                    Def::Assign { var, value } => {
                        let t = type_of(value).map_err(|m| ("ill-sized-expression".to_string(), format!("def {}: {}", d.tid, m)))?;
                        if t != u64::from(var.size) {
                            return Err(("assign-size".into(), format!("def {}: {} (size {}) assigned a value of size {}: {}", d.tid, var, var.size, t, value)));
                        }
                    }
                    Def::Load { var: _, address } => {
                        let t = type_of(address).map_err(|m| ("ill-sized-expression".to_string(), format!("def {}: {}", d.tid, m)))?;
                        if t != ptr {
                            return Err(("load-address-size".into(), format!("def {}: load address {} has size {} (pointer size {})", d.tid, address, t, ptr)));
                        }
                    }
                    Def::Store { address, value } => {
                        let t = type_of(address).map_err(|m| ("ill-sized-expression".to_string(), format!("def {}: {}", d.tid, m)))?;
                        type_of(value).map_err(|m| ("ill-sized-expression".to_string(), format!("def {}: {}", d.tid, m)))?;
                        if t != ptr {
                            return Err(("store-address-size".into(), format!("def {}: store address {} has size {} (pointer size {})", d.tid, address, t, ptr)));
                        }
                    }
                }
            }
            for j in &b.term.jmps {
                match &j.term {
                    Jmp::CBranch { condition, .. } => {
                        let t = type_of(condition).map_err(|m| ("ill-sized-expression".to_string(), format!("jmp {}: {}", j.tid, m)))?;
                        if t != 1 {
                            return Err(("condition-size".into(), format!("jmp {}: condition {} has size {}", j.tid, condition, t)));
                        }
                    }
                    Jmp::BranchInd(e) | Jmp::CallInd { target: e, .. } | Jmp::Return(e) => {
                        type_of(e).map_err(|m| ("ill-sized-expression".to_string(), format!("jmp {}: {}", j.tid, m)))?;
                    }
                    _ => {}
                }
            }
        }
    }
    Ok(())
}

fn count_pieces(p: &Project) -> usize {
    fn walk(e: &Expression, n: &mut usize) {
        match e {
            Expression::BinOp { op, lhs, rhs } => {
                if *op == BinOpType::Piece {
                    *n += 1;
                }
                walk(lhs, n);
                walk(rhs, n);
            }
            Expression::Subpiece { arg, .. } => {
                *n += 1;
                walk(arg, n);
            }
            Expression::UnOp { arg, .. } | Expression::Cast { arg, .. } => walk(arg, n),
            _ => {}
        }
    }
    let mut n = 0;
    for s in p.program.term.subs.values() {
        for b in &s.term.blocks {
            for d in &b.term.defs {
                match &d.term {
                    Def::Assign { value, .. } => walk(value, &mut n),
                    Def::Load { address, .. } => walk(address, &mut n),
                    Def::Store { address, value } => {
                        walk(address, &mut n);
                        walk(value, &mut n);
                    }
                }
            }
        }
    }
    n
}

pub fn check_case(case: &Case, ctx: &mut Ctx) -> CaseResult {
    let ext = serde_json::json!({"tid": tid_json("sub_0000f000", "0000f000"), "addresses": ["0000f000"], "name": "ext_a", "calling_convention": "__stdcall",
        "arguments": [{"var": {"name": "RAX", "size": 8, "is_virtual": false}, "intent": "INPUT"}, {"var": {"name": "RAX", "size": 8, "is_virtual": false}, "intent": "OUTPUT"}],
        "no_return": false, "has_var_args": false});
    let json = project_json(&case.table, &case.subs, vec![ext]);
    let describe = |case: &Case| case.subs.iter().map(|s| s.blocks.iter().map(|b| format!("{}:\n{}", b.id(), show_block(b))).collect::<Vec<_>>().join("")).collect::<Vec<_>>().join("---\n");
    let mut project = match cut(|| lift(json)) {
        Ok(Ok(p)) => p,
        Ok(Err(e)) => panic!("harness generated invalid P-Code JSON: {}", e),
        Err(f) => return ctx.report(format!("C12:lift:{}", f.signature), f.detail),
    };
    for f in &case.features {
        ctx.label(&format!("feature:{}", f));
    }
    if let Err((sig, d)) = typecheck(&project) {
        return ctx.report(format!("C12:after-lift:{}", sig), format!("{}\n--- P-Code:\n{}", d, describe(case)));
    }
    let lifted_pieces = count_pieces(&project);
    if let Err(f) = cut(|| {
        let _ = project.normalize_basic();
    }) {
        return ctx.report(format!("C12:normalize_basic:{}", f.signature), f.detail);
    }
    if let Err((sig, d)) = typecheck(&project) {
        return ctx.report(format!("C12:after-normalize_basic:{}", sig), format!("{}\n--- P-Code:\n{}", d, describe(case)));
    }
    let before = project.clone();
    if let Err(f) = cut(|| {
        let _ = project.normalize_optimize();
    }) {
        return ctx.report(format!("C12:normalize_optimize:{}", f.signature), format!("{}\n--- P-Code:\n{}", f.detail, describe(case)));
    }
    if let Err((sig, d)) = typecheck(&project) {
        // attribute to a pass
        let mut p = before.clone();
        let mut guilty = "unknown";
        for i in 0..5 {
            if cut(|| crate::checks::c10::apply_pass(&mut p, i)).is_err() || typecheck(&p).is_err() {
                guilty = crate::checks::c10::PASSES[i];
                break;
            }
        }
        return ctx.report(format!("C12:after-normalize_optimize:{}:{}", guilty, sig), format!("{}\n--- IR before optimize:\n{}\n--- P-Code:\n{}", d, before.program.term, describe(case)));
    }
    let changed = project != before;
    if changed {
        ctx.label("optimizer-changed-program");
    }
    if lifted_pieces > 0 {
        ctx.label("sub-register-pieces-introduced");
    }
    if changed && lifted_pieces > 0 {
        ctx.label("nontrivial");
        ctx.nontrivial(fnv(format!("{}", before.program.term).as_bytes()));
    }
    Ok(())
}

pub fn run(eng: &mut Engine) {
    eng.rule = "cases = generated P-Code programs (1..3 functions, 1..5 blocks each, typed defs over a generated register table with nested sub-registers, same-name smaller varnodes, temporaries, constants, RAM varnodes, cast-to-base idioms, all jump kinds), lifted by the real code and run through normalize_basic and normalize_optimize; after each stage the harness' own typing walk recomputes every expression size; non-trivial = sub-register substitution introduced Piece/Subpiece expressions and the optimizer changed the program; distinct by hash of the normalized program".into();
    eng.assumptions = vec!["generated P-Code obeys the P-Code size typing rules (so any ill-sized IR is introduced by lifting/normalization)".into()];
    let cases = eng.tier.pick(250_000u64, 2_000_000u64);
    eng.random(
        "lift-normalize-typing",
        RandomSpec { cases, max_tape: 1500 },
        |tape, ctx| {
            let mut t = Tape::new(tape);
            let case = decode(&mut t);
            ctx.sample(|| case.subs.iter().map(|s| s.blocks.iter().map(|b| format!("{}:\n{}", b.id(), show_block(b))).collect::<Vec<_>>().join("")).collect::<Vec<_>>().join("---\n").chars().take(1200).collect());
            check_case(&case, ctx)
        },
        |tape| {
            let case = decode(&mut Tape::new(tape));
            format!("table: {:?}\n{}", case.table.entries.iter().map(|e| format!("{}={}[{}..+{}]", e.name, e.base, e.lsb, e.size)).collect::<Vec<_>>(), case.subs.iter().map(|s| s.blocks.iter().map(|b| format!("{}:\n{}", b.id(), show_block(b))).collect::<Vec<_>>().join("")).collect::<Vec<_>>().join("---\n"))
        },
    );
    eng.require_fraction("lift-normalize-typing", "nontrivial", 0.4);
}
