pub mod c01;
pub mod c07;
pub mod c08;
pub mod c08_spec;
pub mod c09;
pub mod c10;
pub mod c11;
pub mod c12;
pub mod c13;
pub mod c14;
pub mod c24;

use crate::engine::Engine;

pub fn dispatch(id: &str) -> Option<fn(&mut Engine)> {
    match id {
        "C01" => Some(c01::run),
        "C07" => Some(c07::run),
        "C08" => Some(c08::run),
        "C09" => Some(c09::run),
        "C10" => Some(c10::run),
        "C11" => Some(c11::run),
        "C12" => Some(c12::run),
        "C13" => Some(c13::run),
        "C14" => Some(c14::run),
        "C24" => Some(c24::run),
        _ => None,
    }
}

pub const ALL: &[&str] = &["C01"];
