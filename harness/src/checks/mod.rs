pub mod c01;
pub mod c02;
pub mod c02_obs;
pub mod c03;
pub mod c04;
pub mod c05;
pub mod c06;
pub mod c07;
pub mod c08;
pub mod c08_spec;
pub mod c09;
pub mod c10;
pub mod c11;
pub mod c12;
pub mod c13;
pub mod c14;
pub mod c15;
pub mod c16;
pub mod c16_prog;
pub mod c17;
pub mod c18;
pub mod c19;
pub mod c20;
pub mod c21;
pub mod c22;
pub mod c23;
pub mod cli_gen;
pub mod c24;
pub mod c25;

use crate::engine::Engine;

pub fn dispatch(id: &str) -> Option<fn(&mut Engine)> {
    match id {
        "C01" => Some(c01::run),
        "C02" => Some(c02::run),
        "C03" => Some(c03::run),
        "C04" => Some(c04::run),
        "C05" => Some(c05::run),
        "C06" => Some(c06::run),
        "C07" => Some(c07::run),
        "C08" => Some(c08::run),
        "C09" => Some(c09::run),
        "C10" => Some(c10::run),
        "C11" => Some(c11::run),
        "C12" => Some(c12::run),
        "C13" => Some(c13::run),
        "C14" => Some(c14::run),
        "C15" => Some(c15::run),
        "C16" => Some(c16::run),
        "C17" => Some(c17::run),
        "C18" => Some(c18::run),
        "C19" => Some(c19::run),
        "C20" => Some(c20::run),
        "C21" => Some(c21::run),
        "C22" => Some(c22::run),
        "C23" => Some(c23::run),
        "C24" => Some(c24::run),
        "C25" => Some(c25::run),
        _ => None,
    }
}


