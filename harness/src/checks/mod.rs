pub mod c01;
pub mod c10;
pub mod c11;
pub mod c12;

use crate::engine::Engine;

pub fn dispatch(id: &str) -> Option<fn(&mut Engine)> {
    match id {
        "C01" => Some(c01::run),
        "C10" => Some(c10::run),
        "C11" => Some(c11::run),
        "C12" => Some(c12::run),
        _ => None,
    }
}

pub const ALL: &[&str] = &["C01"];
