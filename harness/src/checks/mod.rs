pub mod c01;
pub mod c10;

use crate::engine::Engine;

pub fn dispatch(id: &str) -> Option<fn(&mut Engine)> {
    match id {
        "C01" => Some(c01::run),
        "C10" => Some(c10::run),
        _ => None,
    }
}

pub const ALL: &[&str] = &["C01"];
